#!/bin/sh
# Offline setup: make sure Hypothesis is importable next to nessai, then
# byte-compile the framework.  Nothing is fetched from a network.
set -e
cd "$(dirname "$0")"
if ! /venv/bin/python -c "import hypothesis" 2>/dev/null; then
  PIP_NO_INDEX=1 /venv/bin/pip install --no-index --find-links /opt/veriftools/wheels hypothesis
fi
/venv/bin/python -c "import hypothesis, mpmath, numpy, scipy, nessai; print('deps ok', hypothesis.__version__)"
/venv/bin/python -m compileall -q vf >/dev/null
mkdir -p evidence replays
echo setup ok
