"""One real sampler run in one fresh process: JSON job in, JSON report out.

  python -m vf.driver <job.json>

job keys
  model      : spec for vf.models.make_model
  ins        : bool (importance nested sampler)
  kwargs     : keyword arguments for nessai.FlowSampler (JSON-able)
  run_kwargs : keyword arguments for FlowSampler.run
  output     : output directory of the run (shared by the steps of a history)
  hdir       : harness directory (shadow history, reports); never read by nessai
  monitors   : list of monitor names (vf.monitors)
  post       : list of post-run analysers (vf.monitors.POST)
  kill_after : os._exit(9) in the n-th likelihood call of this process
  fault      : optional dict for vf.faults (signal / fs crash)
  report     : path of the report file
"""
import json
import logging
import os
import sys
import time
import traceback


def _innermost_nessai_frame(tb):
    where = None
    for fs in traceback.extract_tb(tb):
        fn = fs.filename.replace("\\", "/")
        if "/nessai/" in fn and "/vf/" not in fn:
            where = f"{fn.split('/nessai/', 1)[1]}:{fs.name}"
    return where


def write_report(path, rep):
    from .core import jdump

    tmp = path + ".tmp"
    with open(tmp, "w") as f:
        f.write(jdump(rep))
    os.replace(tmp, path)


def main(job_path):
    t0 = time.time()
    job = json.load(open(job_path))
    repo = os.environ.get("VERIF_REPO")
    if repo and repo not in sys.path:
        sys.path.insert(0, repo)
    rep = {
        "status": "started",
        "pid": os.getpid(),
        "step": job.get("step", 0),
        "t_start": t0,
    }
    write_report(job["report"], rep)
    if job.get("dump_after"):
        import faulthandler

        faulthandler.dump_traceback_later(job["dump_after"], exit=False)

    logging.getLogger("nessai").setLevel(
        getattr(logging, job.get("log_level", "CRITICAL"))
    )
    import warnings

    warnings.filterwarnings("ignore")

    import numpy as np  # noqa: F401
    from . import monitors as M
    from .models import make_model

    mon = M.Mon(job)
    phase = "import"
    try:
        import nessai  # noqa: F401
        from nessai.flowsampler import FlowSampler

        rep["nessai_file"] = nessai.__file__
        model = make_model(job["model"])
        if job.get("call_log"):
            model.enable_call_log()
        mon.model = model
        M.install(mon, job.get("monitors", []))
        interleaved = job.get("prelude") == "interleaved"
        if job.get("fault") and not interleaved:
            from . import faults

            faults.install(mon, job["fault"])
        if job.get("kill_event"):
            M.install_kill_event(mon, job["kill_event"])
        if job.get("kill_after"):
            model.kill_after = int(job["kill_after"])
            model.kill_hook = mon.flush
        if job.get("prelude"):
            # another (small, unrelated) run of the other sampler happens in
            # this process first: whatever it leaves behind in module-level
            # state must not reach the run under test
            phase = "prelude"
            pre_model = make_model({"name": "gauss_uniform", "dims": 4,
                                    "lo": -3.0, "hi": 3.0})
            pre_ins = not bool(job.get("ins"))
            pre_kw = dict(
                nlive=100, min_samples=30, max_iteration=2, seed=99,
                plot=False, checkpointing=False,
                flow_config={"n_blocks": 2, "n_neurons": 8},
                training_config={"max_epochs": 30, "patience": 10},
            ) if pre_ins else dict(
                nlive=50, max_iteration=160, seed=99, plot=False,
                checkpointing=False, maximum_uninformed=60,
                flow_config={"n_blocks": 2, "n_neurons": 8},
                training_config={"max_epochs": 10, "patience": 5},
            )
            pre = FlowSampler(
                pre_model, output=job["output"].rstrip("/") + "_prelude",
                importance_nested_sampler=pre_ins, resume=False, **pre_kw)
            if not interleaved:
                pre.run(plot=False)
                pre_model.close_pool()
            mon.classes.add("after-another-run-in-the-process")
        phase = "construct"
        # (harness clock, used only for the one-sided physical bound on the
        # reported sampling time: nothing nessai counts as sampling can have
        # happened before this instant of this process)
        mon.data["t_construct"] = time.time()
        kwargs = M.decode_kwargs(job.get("kwargs", {}), mon)
        extra_kw = {}
        if job.get("resume_via_data"):
            # the checkpoint is handed over as an object (`resume_data`, the
            # way a wrapping package keeps the checkpoint in a file of its
            # own) instead of being read from the resume file by nessai
            import pickle

            rf = os.path.join(job["output"], "nested_sampler_resume.pkl")
            if os.path.exists(rf):
                with open(rf, "rb") as fh:
                    extra_kw["resume_data"] = pickle.load(fh)
                mon.classes.add("resumed-through-resume_data")
        if job.get("direct"):
            # the sampler class used directly, without FlowSampler
            fs = M.DirectRun(model, job, kwargs)
        else:
            fs = FlowSampler(
                model,
                output=job["output"],
                importance_nested_sampler=bool(job.get("ins")),
                resume=job.get("resume", True),
                **kwargs,
                **extra_kw,
            )
        if interleaved:
            # both samplers were created up front; the other one runs (to
            # completion) first, then the run under test starts
            phase = "prelude"
            pre.run(plot=False)
            pre_model.close_pool()
            mon.classes.add("two-samplers-created-up-front")
            if job.get("fault"):
                from . import faults

                faults.install(mon, job["fault"])
        mon.fs = fs
        mon.after_construct(fs)
        phase = "run"
        run_kwargs = dict(plot=False)
        run_kwargs.update(job.get("run_kwargs", {}))
        fs.run(**run_kwargs)
        phase = "post"
        rep["result"] = M.summarise(mon, fs)
        for name in job.get("post", []):
            M.POST[name](mon, fs, job)
        if job.get("second_run"):
            # idempotence: run again in the same process
            M.second_run(mon, fs, job, run_kwargs)
        rep["status"] = "completed"
    except SystemExit as e:
        rep["status"] = "exit"
        rep["exit_code"] = e.code if isinstance(e.code, int) else repr(e.code)
        rep["phase"] = phase
    except BaseException as e:  # noqa: BLE001 - everything is reported
        rep["status"] = "exception"
        rep["phase"] = phase
        rep["exc_type"] = type(e).__name__
        rep["exc_msg"] = str(e)[:500]
        rep["exc_where"] = _innermost_nessai_frame(e.__traceback__)
        rep["traceback"] = traceback.format_exc()[-3000:]
        tb_files = [
            fs_.filename for fs_ in traceback.extract_tb(e.__traceback__)
        ]
        # harness bug: innermost frame in the harness itself (the test models
        # are "user code" called by nessai and do not count), or no nessai
        # frame at all
        # a signal that the harness delivers on purpose (vf/faults.py line
        # hook, os.kill inside a test model) surfaces in the frame that sent
        # it when no handler of nessai's is installed (KeyboardInterrupt):
        # that frame is the instant of delivery, not a harness defect
        while tb_files and tb_files[-1].endswith(
                ("/vf/faults.py", "/vf/models.py")):
            tb_files.pop()
        inner = tb_files[-1] if tb_files else ""
        rep["exc_in_harness"] = (
            ("/vf/" in inner and not inner.endswith("/vf/models.py"))
            or rep["exc_where"] is None
        )
    finally:
        try:
            mon.flags["at_exit"] = True
            mon.flush()
        except Exception:  # pragma: no cover
            pass
        rep["sampling_started"] = mon.flags.get("sampling_started", False)
        rep["violations"] = mon.violations
        rep["counters"] = mon.counters
        rep["classes"] = sorted(mon.classes)
        rep["data"] = mon.data
        rep["wall_s"] = round(time.time() - t0, 3)
        rep["likelihood_calls"] = getattr(mon.model, "calls", None)
        rep["likelihood_points"] = getattr(mon.model, "points", None)
        write_report(job["report"], rep)
    code = 0
    if rep["status"] == "exit" and isinstance(rep.get("exit_code"), int):
        code = rep["exit_code"]
    # os._exit: do not let lingering pools / atexit handlers change the code
    sys.stdout.flush()
    sys.stderr.flush()
    os._exit(code)


if __name__ == "__main__":
    main(sys.argv[1])
