"""Analytic test models for real sampler runs.

All data-dependent arithmetic uses exactly rounded operations (+ - * /, sqrt,
floor) in a fixed order, so that vectorised, chunked, pooled and pointwise
evaluation agree bit for bit.  No `**` (scalar pow and array square differ).
Models that need transcendental functions of the data (inverse-CDF unit-cube
maps) are flagged `exact = False`; comparisons then allow a few ulp.

Every model keeps an optional call log of the arguments its log_likelihood
received (physical space), used by the support / accounting monitors, and can
kill the process at its n-th likelihood call (fault injection).
"""
import math
import os

import numpy as np
from scipy import stats
from scipy.special import ndtr, ndtri, log_ndtr

from nessai.model import Model

LOG_2PI = math.log(2.0 * math.pi)


class VFModel(Model):
    exact = True  # likelihood/prior/unit maps use exactly rounded ops only
    analytic_new_point = False

    def _init_common(self):
        self.call_log = None  # list of arrays when enabled
        self.calls = 0  # number of log_likelihood invocations
        self.points = 0  # number of points evaluated
        self.kill_after = None
        self.kill_hook = None
        self.monitor_mode = 0  # >0: calls come from the harness, not nessai

    # ---- harness side helpers
    def enable_call_log(self):
        self.call_log = []

    def quiet(self):
        m = self

        class _Q:
            def __enter__(self):
                m.monitor_mode += 1

            def __exit__(self, *a):
                m.monitor_mode -= 1

        return _Q()

    def _account(self, x):
        if self.monitor_mode:
            return
        self.calls += 1
        self.points += int(np.size(x))
        if self.call_log is not None:
            self.call_log.append(np.array(x, copy=True).reshape(-1))
        if self.kill_after is not None and self.points >= self.kill_after:
            if getattr(self, "kill_signal", None):
                # the process receives a termination signal while the
                # likelihood is being evaluated: nessai's own handler runs
                import signal as _signal

                sig = getattr(_signal, self.kill_signal)
                self.kill_after = None
                os.kill(os.getpid(), sig)
                return
            if self.kill_hook is not None:
                self.kill_hook()
            os._exit(9)

    def log_likelihood(self, x):
        self._account(x)
        return self._log_l(x)

    def ref_log_likelihood(self, x):
        """Pointwise reference evaluation (not counted)."""
        with self.quiet():
            return np.array(
                [float(self._log_l(x[i: i + 1])[0]) for i in range(x.size)]
            )

    def _ref_bounds(self):
        """Bounds as the harness constructed them: name -> (lo, hi)."""
        raise NotImplementedError

    def ref_in_bounds(self, x):
        """Reference for 'inside the prior bounds', looked up by parameter
        name from the values the model was built with (not nessai's
        `Model.in_bounds`)."""
        x = np.atleast_1d(x)
        ok = np.ones(x.shape, dtype=bool)
        for n, (a, b) in self._ref_bounds().items():
            v = np.asarray(x[n], dtype=float)
            ok &= (v >= a) & (v <= b)
        return ok

    def ref_log_prior(self, x):
        with self.quiet():
            return np.array(
                [float(np.atleast_1d(self.log_prior(x[i: i + 1]))[0])
                 for i in range(x.size)]
            )

    def __getstate__(self):
        state = super().__getstate__()
        state["kill_hook"] = None
        return state


class GaussUniform(VFModel):
    """Unit Gaussian likelihood centred at `mu`, uniform prior on a box."""

    def __init__(self, dims=2, lo=-5.0, hi=5.0, mu=0.0, names=None,
                 offset=0.0, bounds_order="names", prior_bounds_check=True):
        self._init_common()
        # False: log_prior is the plain uniform density without a test of
        # the bounds (accepted by verify_model; the samplers apply the
        # bounds themselves)
        self.prior_bounds_check = bool(prior_bounds_check)
        # constant added to the log-likelihood (an unnormalised likelihood)
        self.offset = float(offset)
        self.names = names or [f"x{i}" for i in range(dims)]
        lo = np.broadcast_to(np.asarray(lo, float), (dims,))
        hi = np.broadcast_to(np.asarray(hi, float), (dims,))
        self.mu = [float(v) for v in
                   np.broadcast_to(np.asarray(mu, float), (dims,))]
        bounds = {n: [float(a), float(b)]
                  for n, a, b in zip(self.names, lo, hi)}
        if bounds_order == "reversed":
            # the bounds dictionary is looked up by name: the order of its
            # keys is free input
            bounds = dict(reversed(list(bounds.items())))
        self.bounds = bounds
        self._lo = [float(v) for v in lo]
        self._hi = [float(v) for v in hi]
        self._w = [b - a for a, b in zip(self._lo, self._hi)]
        self._log_vol = float(sum(math.log(w) for w in self._w))
        self._norm = -0.5 * dims * LOG_2PI

    def _ref_bounds(self):
        return {n: (a, b) for n, a, b in zip(self.names, self._lo, self._hi)}

    # nessai API
    def log_prior(self, x):
        if not self.prior_bounds_check:
            return np.full(np.shape(np.atleast_1d(x)), -self._log_vol) \
                if np.ndim(x) else np.float64(-self._log_vol)
        ok = self.in_bounds(x)
        lp = np.where(ok, -self._log_vol, -np.inf)
        return lp

    def _log_l(self, x):
        s = None
        for n, m in zip(self.names, self.mu):
            d = x[n] - m
            t = d * d
            s = t if s is None else s + t
        return (self._norm - 0.5 * s) + self.offset

    def to_unit_hypercube(self, x):
        out = x.copy()
        for n, a, w in zip(self.names, self._lo, self._w):
            out[n] = (x[n] - a) / w
        return out

    def from_unit_hypercube(self, x):
        out = x.copy()
        for n, a, w in zip(self.names, self._lo, self._w):
            out[n] = x[n] * w + a
        return out

    # analytic truths
    @property
    def true_log_evidence(self):
        z = 0.0
        for a, b, m, w in zip(self._lo, self._hi, self.mu, self._w):
            z += math.log(ndtr(b - m) - ndtr(a - m)) - math.log(w)
        return z + self.offset

    def posterior_moments(self):
        means, variances = [], []
        for a, b, m in zip(self._lo, self._hi, self.mu):
            d = stats.truncnorm(a - m, b - m, loc=m, scale=1.0)
            means.append(float(d.mean()))
            variances.append(float(d.var()))
        return means, variances


class GaussHole(GaussUniform):
    """GaussUniform whose prior has no support in part of its bounding box
    (log_prior = -inf for the first parameter below `cut`)."""

    def __init__(self, dims=2, lo=-5.0, hi=5.0, cut=0.0):
        super().__init__(dims=dims, lo=lo, hi=hi)
        self.cut = float(cut)
        self._log_vol = float(
            math.log(self._hi[0] - self.cut)
            + sum(math.log(w) for w in self._w[1:]))

    def log_prior(self, x):
        ok = self.in_bounds(x) & (x[self.names[0]] >= self.cut)
        return np.where(ok, -self._log_vol, -np.inf)

    @property
    def true_log_evidence(self):
        z = math.log(ndtr(self._hi[0]) - ndtr(self.cut)) - math.log(
            self._hi[0] - self.cut)
        for a, b, w in zip(self._lo[1:], self._hi[1:], self._w[1:]):
            z += math.log(ndtr(b) - ndtr(a)) - math.log(w)
        return z

    def posterior_moments(self):
        means, variances = super().posterior_moments()
        d = stats.truncnorm(self.cut, self._hi[0])
        means[0], variances[0] = float(d.mean()), float(d.var())
        return means, variances


class GaussGaussPrior(VFModel):
    """Gaussian likelihood N(mu_l, s_l), truncated-normal prior N(0, s_p) on
    [-b, b] per dimension: non-uniform prior, analytic evidence."""

    exact = False  # unit-cube map uses ndtr/ndtri

    def __init__(self, dims=2, b=6.0, s_p=2.0, mu_l=1.0, s_l=1.0,
                 analytic_new_point=False):
        self._init_common()
        self.names = [f"x{i}" for i in range(dims)]
        self.bounds = {n: [-float(b), float(b)] for n in self.names}
        self.b, self.s_p, self.mu_l, self.s_l = map(float, (b, s_p, mu_l, s_l))
        self.analytic_new_point = bool(analytic_new_point)
        self._pa = float(ndtr(-self.b / self.s_p))
        self._pb = float(ndtr(self.b / self.s_p))
        self._lp_norm = -(
            math.log(self.s_p) + 0.5 * LOG_2PI + math.log(self._pb - self._pa)
        )
        self._ll_norm = -(math.log(self.s_l) + 0.5 * LOG_2PI)

    def _ref_bounds(self):
        return {n: (-self.b, self.b) for n in self.names}

    def log_prior(self, x):
        ok = self.in_bounds(x)
        s = None
        for n in self.names:
            u = x[n] / self.s_p
            t = u * u
            s = t if s is None else s + t
        lp = len(self.names) * self._lp_norm - 0.5 * s
        return np.where(ok, lp, -np.inf)

    def _log_l(self, x):
        s = None
        for n in self.names:
            u = (x[n] - self.mu_l) / self.s_l
            t = u * u
            s = t if s is None else s + t
        return len(self.names) * self._ll_norm - 0.5 * s

    def new_point(self, N=1):
        if not self.analytic_new_point:
            return super().new_point(N=N)
        from nessai.livepoint import numpy_array_to_live_points

        u = np.random.uniform(self._pa, self._pb, size=(N, self.dims))
        x = np.clip(self.s_p * ndtri(u), -self.b, self.b)
        return numpy_array_to_live_points(x, self.names)

    def new_point_log_prob(self, x):
        if not self.analytic_new_point:
            return super().new_point_log_prob(x)
        return self.log_prior(x)

    def to_unit_hypercube(self, x):
        out = x.copy()
        for n in self.names:
            out[n] = (ndtr(x[n] / self.s_p) - self._pa) / (self._pb - self._pa)
        return out

    def from_unit_hypercube(self, x):
        out = x.copy()
        for n in self.names:
            u = self._pa + x[n] * (self._pb - self._pa)
            out[n] = np.clip(self.s_p * ndtri(u), -self.b, self.b)
        return out

    def _post(self):
        v = self.s_l ** 2 + self.s_p ** 2
        m = self.mu_l * self.s_p ** 2 / v
        s = math.sqrt(self.s_l ** 2 * self.s_p ** 2 / v)
        return m, s, v

    @property
    def true_log_evidence(self):
        m, s, v = self._post()
        one = (
            -0.5 * math.log(2 * math.pi * v)
            - 0.5 * self.mu_l ** 2 / v
            + math.log(ndtr((self.b - m) / s) - ndtr((-self.b - m) / s))
            - math.log(self._pb - self._pa)
        )
        return len(self.names) * one

    def posterior_moments(self):
        m, s, _ = self._post()
        d = stats.truncnorm((-self.b - m) / s, (self.b - m) / s, loc=m,
                            scale=s)
        k = len(self.names)
        return [float(d.mean())] * k, [float(d.var())] * k


class GaussCut(GaussUniform):
    """GaussUniform whose likelihood is exactly zero (log-likelihood -inf) on
    part of the prior volume: x0 + x1 > cut (a hard constraint expressed in
    the likelihood).  Both samplers accept it: the standard sampler never
    keeps such a point, the importance sampler keeps it with zero weight."""

    def __init__(self, dims=2, lo=-5.0, hi=5.0, cut=1.0):
        super().__init__(dims=dims, lo=lo, hi=hi)
        self.cut = float(cut)

    def _log_l(self, x):
        ll = super()._log_l(x)
        out = x[self.names[0]] + x[self.names[1]] > self.cut
        return np.where(out, -np.inf, ll)

    true_log_evidence = None


class GaussAffine(GaussGaussPrior):
    """GaussGaussPrior with an *affine* unit-hypercube map: the prior is not
    uniform on the unit hypercube, so the model overrides
    `log_prior_unit_hypercube` (prior density of the unit-cube coordinates).
    Only exactly rounded operations."""

    exact = True

    def __init__(self, dims=2, b=6.0, s_p=2.0, mu_l=1.0, s_l=1.0):
        super().__init__(dims=dims, b=b, s_p=s_p, mu_l=mu_l, s_l=s_l)
        self._log_jac = dims * math.log(2.0 * self.b)

    def to_unit_hypercube(self, x):
        out = x.copy()
        for n in self.names:
            out[n] = (x[n] + self.b) / (2.0 * self.b)
        return out

    def from_unit_hypercube(self, x):
        out = x.copy()
        for n in self.names:
            out[n] = x[n] * (2.0 * self.b) - self.b
        return out

    def log_prior_unit_hypercube(self, x):
        inside = None
        for n in self.names:
            ok = (x[n] >= 0.0) & (x[n] < 1.0)
            inside = ok if inside is None else (inside & ok)
        lp = self.log_prior(self.from_unit_hypercube(x)) + self._log_jac
        return np.where(inside, lp, -np.inf)

    def ref_log_prior_unit(self, x):
        """Pointwise reference for the unit-hypercube log-prior, computed
        from plain Python floats (harness side)."""
        out = np.empty(x.size)
        for i in range(x.size):
            s = 0.0
            first = True
            inside = True
            for n in self.names:
                u = float(x[n][i])
                inside = inside and (0.0 <= u < 1.0)
                v = u * (2.0 * self.b) - self.b
                inside = inside and (-self.b <= v <= self.b)
                t = v / self.s_p
                t = t * t
                s = t if first else s + t
                first = False
            lp = (len(self.names) * self._lp_norm - 0.5 * s) + self._log_jac
            out[i] = lp if inside else -math.inf
        return out


class Quantised(GaussUniform):
    """Gaussian likelihood rounded down to a grid below `level` (tied
    likelihoods among early dead points), continuous above it."""

    def __init__(self, dims=2, lo=-5.0, hi=5.0, step=0.5, level=-4.0):
        super().__init__(dims=dims, lo=lo, hi=hi)
        self.step = float(step)
        self.level = float(level)

    def _log_l(self, x):
        ll = super()._log_l(x)
        q = np.floor(ll / self.step) * self.step
        return np.where(ll < self.level, q, ll)

    true_log_evidence = None


class Rosenbrock(VFModel):
    """Rosenbrock likelihood, uniform prior (no closed-form evidence)."""

    def __init__(self, dims=2):
        self._init_common()
        self.names = [f"x{i}" for i in range(dims)]
        self.bounds = {n: [-5.0, 5.0] for n in self.names}
        self._log_vol = dims * math.log(10.0)

    def _ref_bounds(self):
        return {n: (-5.0, 5.0) for n in self.names}

    def log_prior(self, x):
        return np.where(self.in_bounds(x), -self._log_vol, -np.inf)

    def _log_l(self, x):
        s = None
        for a, b in zip(self.names[:-1], self.names[1:]):
            u = x[b] - x[a] * x[a]
            v = 1.0 - x[a]
            t = 100.0 * (u * u) + v * v
            s = t if s is None else s + t
        return -s

    def to_unit_hypercube(self, x):
        out = x.copy()
        for n in self.names:
            out[n] = (x[n] + 5.0) / 10.0
        return out

    def from_unit_hypercube(self, x):
        out = x.copy()
        for n in self.names:
            out[n] = x[n] * 10.0 - 5.0
        return out

    true_log_evidence = None


class HalfBounded(VFModel):
    """x0 uniform on [-5, 5]; y >= 0 with a half-normal prior (an unbounded
    parameter with one finite bound, as in nessai's unbounded-prior example);
    Gaussian likelihood with its mass next to the bound y = 0.  `new_point`
    draws from the prior (required for unbounded priors)."""

    def __init__(self, s_y=3.0, mu_y=0.5):
        self._init_common()
        self.names = ["x0", "y"]
        self.bounds = {"x0": [-5.0, 5.0], "y": [0.0, math.inf]}
        self.s_y = float(s_y)
        self.mu_y = float(mu_y)
        self._lp0 = -math.log(10.0) + math.log(2.0) - math.log(self.s_y) \
            - 0.5 * LOG_2PI

    def _ref_bounds(self):
        return {"x0": (-5.0, 5.0), "y": (0.0, math.inf)}

    def log_prior(self, x):
        u = x["y"] / self.s_y
        lp = self._lp0 - 0.5 * (u * u)
        return np.where(self.in_bounds(x), lp, -np.inf)

    def _log_l(self, x):
        a = x["x0"]
        b = x["y"] - self.mu_y
        return -LOG_2PI - 0.5 * (a * a + b * b)

    def new_point(self, N=1):
        from nessai.livepoint import numpy_array_to_live_points

        x = np.empty((N, 2))
        x[:, 0] = np.random.uniform(-5.0, 5.0, N)
        x[:, 1] = np.abs(np.random.normal(0.0, self.s_y, N))
        return numpy_array_to_live_points(x, self.names)

    def new_point_log_prob(self, x):
        return self.log_prior(x)

    true_log_evidence = None


class PeriodicAngle(GaussUniform):
    """One angle on [0, 2pi] (name 'phi') plus ordinary parameters; Gaussian
    likelihood centred in the box so that wrapping does not matter to the
    evidence formula."""

    def __init__(self, dims=2):
        names = ["phi"] + [f"x{i}" for i in range(1, dims)]
        lo = [0.0] + [-5.0] * (dims - 1)
        hi = [2.0 * math.pi] + [5.0] * (dims - 1)
        mu = [math.pi] + [0.0] * (dims - 1)
        super().__init__(dims=dims, lo=lo, hi=hi, mu=mu, names=names)


class GWNamed(GaussUniform):
    """Parameters named and bounded so that nessai's gravitational-wave
    reparameterisation defaults accept them (no GW physics involved)."""

    TABLE = {
        "mass_ratio": (0.125, 1.0, 0.6),
        "chirp_mass": (25.0, 35.0, 30.0),
        "a_1": (0.0, 0.99, 0.5),
        "a_2": (0.0, 0.99, 0.5),
        "tilt_1": (0.0, math.pi, 1.5),
        "phase": (0.0, 2 * math.pi, 3.0),
        "psi": (0.0, math.pi, 1.5),
        "theta_jn": (0.0, math.pi, 1.5),
        "geocent_time": (-0.1, 0.1, 0.0),
    }

    def __init__(self, names=("mass_ratio", "chirp_mass", "phase")):
        names = list(names)
        lo = [self.TABLE[n][0] for n in names]
        hi = [self.TABLE[n][1] for n in names]
        mu = [self.TABLE[n][2] for n in names]
        GaussUniform.__init__(self, dims=len(names), lo=lo, hi=hi, mu=mu,
                              names=names)
        # widths differ by orders of magnitude: scale the likelihood
        self._sig = [(b - a) / 8.0 for a, b in zip(lo, hi)]
        self._norm = -0.5 * len(names) * LOG_2PI - sum(
            math.log(s) for s in self._sig
        )

    def _log_l(self, x):
        s = None
        for n, m, sg in zip(self.names, self.mu, self._sig):
            d = (x[n] - m) / sg
            t = d * d
            s = t if s is None else s + t
        return self._norm - 0.5 * s

    @property
    def true_log_evidence(self):
        z = 0.0
        for a, b, m, w, sg in zip(self._lo, self._hi, self.mu, self._w,
                                  self._sig):
            z += math.log(ndtr((b - m) / sg) - ndtr((a - m) / sg)) \
                - math.log(w)
        return z

    def posterior_moments(self):
        means, variances = [], []
        for a, b, m, sg in zip(self._lo, self._hi, self.mu, self._sig):
            d = stats.truncnorm((a - m) / sg, (b - m) / sg, loc=m, scale=sg)
            means.append(float(d.mean()))
            variances.append(float(d.var()))
        return means, variances


REGISTRY = {
    "gauss_uniform": GaussUniform,
    "gauss_gauss": GaussGaussPrior,
    "gauss_hole": GaussHole,
    "gauss_cut": GaussCut,
    "gauss_affine": GaussAffine,
    "quantised": Quantised,
    "rosenbrock": Rosenbrock,
    "periodic": PeriodicAngle,
    "half_bounded": HalfBounded,
    "gw_named": GWNamed,
}


def make_model(spec):
    spec = dict(spec)
    name = spec.pop("name")
    return REGISTRY[name](**spec)


def selftest():
    """Analytic formulas against numerical integration."""
    from scipy import integrate

    for spec in (
        {"name": "gauss_uniform", "dims": 2, "lo": -4.0, "hi": 6.0,
         "mu": 1.0},
        {"name": "gauss_gauss", "dims": 2},
        {"name": "gauss_affine", "dims": 2},
        {"name": "gw_named"},
    ):
        m = make_model(spec)
        # 1-d factorisation: integrate each dimension separately
        total = 0.0
        from nessai.livepoint import numpy_array_to_live_points

        base = np.array([[np.mean(m.bounds[n]) for n in m.names]])
        for i, n in enumerate(m.names):
            def f(v):
                p = base.copy()
                p[0, i] = v
                x = numpy_array_to_live_points(p, m.names)
                with m.quiet():
                    return math.exp(
                        float(m._log_l(x)[0]) + float(m.log_prior(x)[0])
                    )
            a, b = m.bounds[n]
            val, _ = integrate.quad(f, a, b, epsabs=0, epsrel=1e-10,
                                    limit=200)
            x0 = numpy_array_to_live_points(base, m.names)
            with m.quiet():
                ref = math.exp(
                    float(m._log_l(x0)[0]) + float(m.log_prior(x0)[0])
                )
            total += math.log(val) - math.log(ref)
        total += math.log(ref)
        assert abs(total - m.true_log_evidence) < 1e-8, (
            spec, total, m.true_log_evidence)
    return True


if __name__ == "__main__":
    print(selftest())
