"""Shared plumbing: violations, statistics, known findings, evidence.

Nothing here imports nessai.
"""
import collections
import fnmatch
import hashlib
import json
import math
import os
import re
import time

ROOT = os.path.dirname(os.path.dirname(os.path.abspath(__file__)))
# VERIF_OUT redirects evidence/replays (used by the sensitivity tooling so
# that mutant runs never overwrite the evidence of the real tree)
_OUT = os.environ.get("VERIF_OUT") or ROOT
EVIDENCE_DIR = os.path.join(_OUT, "evidence")
REPLAY_DIR = os.path.join(_OUT, "replays")
FINDINGS_FILE = os.path.join(ROOT, "KNOWN_FINDINGS.txt")


def _default(o):
    try:
        import numpy as np

        if isinstance(o, np.ndarray):
            return o.tolist()
        if isinstance(o, np.generic):
            return o.item()
    except Exception:  # pragma: no cover
        pass
    if isinstance(o, (set, frozenset)):
        return sorted(o, key=repr)
    if isinstance(o, bytes):
        return o.hex()
    return repr(o)


def _clean(o):
    """JSON-safe copy (non-finite floats become strings)."""
    if isinstance(o, float):
        if math.isnan(o):
            return "nan"
        if math.isinf(o):
            return "inf" if o > 0 else "-inf"
        return o
    if isinstance(o, dict):
        return {str(k): _clean(v) for k, v in o.items()}
    if isinstance(o, (list, tuple)):
        return [_clean(v) for v in o]
    if isinstance(o, (str, int, bool)) or o is None:
        return o
    return _clean(_default(o))


def jdump(o, sort_keys=True, **kw):
    """JSON text.  sort_keys=False where the order of dictionary keys is part
    of the input (e.g. the order of a `reparameterisations` dictionary)."""
    return json.dumps(_clean(o), sort_keys=sort_keys, **kw)


def jhash(o):
    return hashlib.sha1(jdump(o).encode()).hexdigest()[:16]


class Violation(Exception):
    """A property violation observed on real code.

    key  : structural signature (matched against KNOWN_FINDINGS.txt)
    msg  : what was observed
    case : JSON-able description sufficient to replay
    """

    def __init__(self, key, msg, case=None):
        super().__init__(f"{key}: {msg}")
        self.key = key
        self.msg = msg
        self.case = case

    def as_dict(self):
        return {"key": self.key, "msg": self.msg, "case": _clean(self.case)}

    def __reduce__(self):
        return (Violation, (self.key, self.msg, self.case))


class HarnessError(Exception):
    """Something wrong in the machinery itself (never a violation)."""


class Stats:
    MAX_SAMPLES = 6

    def __init__(self):
        self.evaluations = 0
        self.nontrivial = set()
        self.classes = collections.Counter()
        self.samples = []
        self.excluded_known = collections.Counter()
        self.inconclusive = 0
        self.extra = {}

    def case(self, desc=None, nontrivial=False, classes=(), key=None, n=1):
        """Record one executed case."""
        self.evaluations += n
        for c in classes:
            self.classes[c] += 1
        if nontrivial:
            self.classes["nontrivial"] += 1
            self.nontrivial.add(key if key is not None else jhash(desc))
            if desc is not None and len(self.samples) < self.MAX_SAMPLES:
                self.samples.append(_clean(desc))
        elif desc is not None and not self.samples:
            self.samples.append(_clean(desc))

    def merge(self, other):
        self.evaluations += other.evaluations
        self.nontrivial |= other.nontrivial
        self.classes.update(other.classes)
        for s in other.samples:
            if len(self.samples) < self.MAX_SAMPLES:
                self.samples.append(s)
        self.excluded_known.update(other.excluded_known)
        self.inconclusive += other.inconclusive
        for k, v in other.extra.items():
            if isinstance(v, (int, float)) and isinstance(
                self.extra.get(k, 0), (int, float)
            ):
                self.extra[k] = self.extra.get(k, 0) + v
            elif isinstance(v, list):
                self.extra.setdefault(k, [])
                self.extra[k] = (self.extra[k] + v)[:50]
            elif isinstance(v, dict):
                d = self.extra.setdefault(k, {})
                for kk, vv in v.items():
                    if isinstance(vv, (int, float)):
                        d[kk] = d.get(kk, 0) + vv
                    else:
                        d[kk] = vv
            else:
                self.extra[k] = v
        return self

    def to_json(self):
        return {
            "evaluations": self.evaluations,
            "nontrivial": sorted(self.nontrivial),
            "classes": dict(self.classes),
            "samples": self.samples,
            "excluded_known": dict(self.excluded_known),
            "inconclusive": self.inconclusive,
            "extra": self.extra,
        }

    @classmethod
    def from_json(cls, d):
        s = cls()
        s.evaluations = d["evaluations"]
        s.nontrivial = set(d["nontrivial"])
        s.classes = collections.Counter(d["classes"])
        s.samples = list(d["samples"])
        s.excluded_known = collections.Counter(d["excluded_known"])
        s.inconclusive = d["inconclusive"]
        s.extra = d["extra"]
        return s


class Findings:
    """KNOWN_FINDINGS.txt: lines
    known: property=<id> key=<signature> <what fails>
    fixed: property=<id> <commit> <what failed>
    Only `known:` lines suppress anything; nothing is written at run time.
    """

    LINE = re.compile(r"^known:\s+property=(\S+)\s+key=(\S+)\s+(.*)$")

    def __init__(self, path=FINDINGS_FILE):
        self.known = []
        if os.path.exists(path):
            for line in open(path):
                line = line.strip()
                m = self.LINE.match(line)
                if m:
                    self.known.append((m.group(1), m.group(2), m.group(3)))

    def match(self, prop, key):
        for p, k, text in self.known:
            if p == prop and (k == key or fnmatch.fnmatchcase(key, k)):
                return (p, k, text)
        return None

    def for_property(self, prop):
        return [e for e in self.known if e[0] == prop]


class Ctx:
    def __init__(self, prop, tier, seed):
        self.prop = prop
        self.tier = tier
        self.seed = seed
        self.findings = Findings()
        self.t0 = time.time()

    @property
    def quick(self):
        return self.tier == "quick"

    def known(self, key):
        return self.findings.match(self.prop, key)


class Outcome:
    def __init__(self, stats=None, violations=None):
        self.stats = stats or Stats()
        self.violations = violations or []  # list of dict(key,msg,case)

    def add(self, v):
        if isinstance(v, Violation):
            v = v.as_dict()
        self.violations.append(v)

    def merge(self, other):
        self.stats.merge(other.stats)
        self.violations.extend(other.violations)
        return self

    def to_json(self):
        return {"stats": self.stats.to_json(), "violations": self.violations}

    @classmethod
    def from_json(cls, d):
        return cls(Stats.from_json(d["stats"]), list(d["violations"]))


def write_evidence(prop, tier, seed, level, rule, stats, assumptions,
                   wall_s, n_violations, extra=None):
    os.makedirs(EVIDENCE_DIR, exist_ok=True)
    cov = {
        "evaluations": int(stats.evaluations),
        "distinct_nontrivial": len(stats.nontrivial),
        "rule": rule,
        "samples": stats.samples,
        "classes": dict(sorted(stats.classes.items())),
        "excluded_known": dict(stats.excluded_known),
        "inconclusive": stats.inconclusive,
    }
    cov.update(stats.extra)
    if extra:
        cov.update(extra)
    ev = {
        "property_id": prop,
        "tier": tier,
        "seed": int(seed),
        "level": level,
        "coverage": _clean(cov),
        "assumptions": list(assumptions),
        "wall_s": round(float(wall_s), 2),
        "violations": int(n_violations),
    }
    path = os.path.join(EVIDENCE_DIR, f"{prop}.json")
    tmp = path + ".tmp"
    with open(tmp, "w") as f:
        json.dump(ev, f, indent=1, sort_keys=True)
        f.write("\n")
    os.replace(tmp, path)
    return path


def save_replay(prop, v):
    os.makedirs(REPLAY_DIR, exist_ok=True)
    name = f"{prop}-{jhash([v['key'], v['case']])}.json"
    path = os.path.join(REPLAY_DIR, name)
    with open(path, "w") as f:
        f.write(jdump({"property": prop, **v}, sort_keys=False, indent=1))
        f.write("\n")
    return os.path.relpath(path, ROOT) if _OUT == ROOT else path
