"""Hypothesis strategies for C07 (object-level and proposal-level cases).

Everything is built by construction from documented option values; nothing
is filtered by rejection.  Cases are plain JSON-able dictionaries.
"""
import math

import numpy as np
from hypothesis import strategies as st

from .c07_model import ALL_NAMES, FAMILY, GW_NAMES

PI = math.pi
NAME_POOL = ["x0", "mass", "t_c", "y1", "q_a"]


def _pow10(draw, a, b):
    return float(10.0 ** draw(st.floats(a, b)))


# ------------------------------------------------------------------ bounds
@st.composite
def any_bounds(draw):
    kind = draw(st.sampled_from(["nice", "zero", "pos", "neg", "sym", "pos"]))
    if kind == "nice":
        return list(draw(st.sampled_from(
            [[0.0, 1.0], [-1.0, 1.0], [-5.0, 5.0], [0.0, 10.0], [-3.0, 5.0],
             [-1.0, 3.0]])))
    w = _pow10(draw, -3, 6)
    if kind == "zero":
        lo = 0.0
    elif kind == "pos":
        lo = _pow10(draw, -3, 6)
    elif kind == "neg":
        lo = -_pow10(draw, -3, 6) - (w if draw(st.booleans()) else 0.0)
    else:
        lo = -w / 2.0
    hi = lo + w
    if not hi > lo:
        hi = float(np.nextafter(lo, np.inf))
    return [float(lo), float(hi)]


@st.composite
def ratio_bounds(draw):
    lo = _pow10(draw, -3, 4)
    return [lo, lo * draw(st.floats(1.5, 50.0))]


@st.composite
def exp_bounds(draw):
    lo = draw(st.floats(-10.0, 8.0))
    return [lo, min(lo + draw(st.floats(0.1, 10.0)), 10.0)]


# ------------------------------------------------------------------ points
@st.composite
def points(draw, lo, hi, n, excl_lo=False, excl_hi=False):
    w = hi - lo
    u1 = draw(st.floats(0.05, 0.9))
    gap = max(1e-6, 0.5 * 10.0 ** (-draw(st.floats(0.0, 6.0))))
    u2 = u1 + gap
    if u2 > 0.95:
        u2 = u1 - gap if u1 - gap > 0.02 else 0.95
    out = [lo + u1 * w, lo + u2 * w]
    if out[0] == out[1]:
        out[1] = lo + 0.97 * w
    for _ in range(n - 2):
        mode = draw(st.sampled_from(
            ["int", "int", "near_lo", "near_hi", "lo", "hi", "near_lo",
             "near_hi"]))
        if mode == "int":
            v = lo + draw(st.floats(0.01, 0.99)) * w
        elif mode in ("near_lo", "near_hi"):
            d = 10.0 ** (-draw(st.floats(1.0, 12.0)))
            v = lo + d * w if mode == "near_lo" else hi - d * w
        else:
            v = lo if mode == "lo" else hi
        out.append(v)
    res = []
    for v in out:
        v = min(max(float(v), lo), hi)
        if excl_lo and v <= lo:
            v = lo + 1e-12 * w
            if v <= lo:
                v = float(np.nextafter(lo, hi))
        if excl_hi and v >= hi:
            v = hi - 1e-12 * w
            if v >= hi:
                v = float(np.nextafter(hi, lo))
        res.append(float(v))
    return res


def _n_update(draw, n, possible):
    if not possible:
        return draw(st.sampled_from([0, 0, n]))
    return draw(st.sampled_from([0, n, n, draw(st.integers(2, n))]))


def _maybe(draw, p=0.3):
    return draw(st.floats(0, 1)) < p


# ----------------------------------------------------------------- families
def _rescale_bounds(draw, params):
    def one():
        a = draw(st.sampled_from([0.0, -1.0, -5.0, 0.5, 2.0, -100.0]))
        return [a, a + draw(st.sampled_from([1.0, 2.0, 0.1, 10.0, 7.5]))]

    form = draw(st.sampled_from(["list", "int", "dict"]))
    if form == "int":
        return [0, 1]
    if form == "list":
        return one()
    return {p: one() for p in params}


def _inversion_kwargs(draw, params):
    kw = {}
    form = draw(st.sampled_from(["true", "list", "dict"]))
    if form == "true":
        kw["boundary_inversion"] = True
        inv = list(params)
    elif form == "list":
        k = draw(st.integers(1, len(params)))
        inv = list(params[:k])
        kw["boundary_inversion"] = inv
    else:
        k = draw(st.integers(1, len(params)))
        inv = list(params[:k])
        kw["boundary_inversion"] = {
            p: draw(st.sampled_from(["split", "duplicate"])) for p in inv
        }
    return kw, inv


@st.composite
def rtb_case(draw, name, n=None):
    d = draw(st.integers(1, 3))
    params = NAME_POOL[:d] if draw(st.booleans()) else NAME_POOL[1:d + 1]
    kw = {}
    kind = (
        "inv" if name in ("inversion", "inversion-duplicate", "mass_ratio")
        else "lg" if name in ("logit", "log-rescale") else "plain"
    )
    pre = post = None
    has_inv = kind == "inv"
    can_update = name not in ("logit", "log-rescale")
    if kind == "plain":
        if _maybe(draw):
            kw["rescale_bounds"] = _rescale_bounds(draw, params)
        if _maybe(draw):
            kw["offset"] = draw(st.booleans())
        if _maybe(draw):
            kw["update_bounds"] = draw(st.booleans())
        if _maybe(draw):
            kw["prior"] = "uniform"
        if _maybe(draw, 0.2):
            pre = draw(st.sampled_from(["log", "exp", "@cube"]))
            kw["pre_rescaling"] = pre
        sel = draw(st.sampled_from(["none", "none", "none", "post", "inv"]))
        if sel == "post":
            post = draw(st.sampled_from(["logit", "log", "exp"]))
            kw["post_rescaling"] = post
            kw["update_bounds"] = False
            can_update = False
        elif sel == "inv":
            ikw, inv = _inversion_kwargs(draw, params)
            kw.update(ikw)
            kw["inversion_type"] = draw(st.sampled_from(["split", "duplicate"]))
            kw["detect_edges"] = draw(st.booleans())
            if len(inv) == len(params):
                kw.pop("rescale_bounds", None)
            # (inversion for a subset only: the other parameters keep the
            # rescale bounds they were given)
            has_inv = True
    elif kind == "inv":
        if _maybe(draw):
            kw["detect_edges"] = draw(st.booleans())
        if _maybe(draw):
            kw["inversion_type"] = draw(st.sampled_from(["split", "duplicate"]))
        if _maybe(draw):
            kw["offset"] = draw(st.booleans())
        if _maybe(draw):
            kw["prior"] = "uniform"
        if _maybe(draw, 0.2):
            kw["update_bounds"] = draw(st.booleans())
        if _maybe(draw, 0.2):
            kw["detect_edges_kwargs"] = {
                "allowed_bounds": draw(st.sampled_from(
                    [["lower"], ["upper"], ["lower", "upper"]]))
            }
        if _maybe(draw):
            ikw, _ = _inversion_kwargs(draw, params)
            kw.update(ikw)
    else:
        if _maybe(draw):
            kw["offset"] = draw(st.booleans())
        if _maybe(draw, 0.15):
            kw["rescale_bounds"] = [-1, 1]
    if kind == "plain" and kw.get("update_bounds") is False and not has_inv:
        can_update = False
    lg_post = post or {"logit": "logit", "log-rescale": "log"}.get(name)
    bounds, x = {}, {}
    n = n or draw(st.integers(6, 16))
    for p in params:
        if pre in ("log", "@cube"):
            b = draw(ratio_bounds())
        elif pre == "exp":
            b = draw(exp_bounds())
        elif name == "angle-sine" and draw(st.booleans()):
            b = [0.0, PI]
        elif name == "angle-cosine" and draw(st.booleans()):
            b = [-PI / 2, PI / 2]
        elif name == "time" and draw(st.booleans()):
            t0 = 1.1e9 + draw(st.floats(0, 1e8))
            b = [t0 - 0.1, t0 + 0.1]
        else:
            b = draw(any_bounds())
        bounds[p] = b
        x[p] = draw(points(b[0], b[1], n,
                           excl_lo=lg_post in ("logit", "log"),
                           excl_hi=lg_post == "logit"))
    test = "omit"
    if has_inv:
        test = draw(st.sampled_from(
            ["omit", None, "lower", "upper", False, "lower", "upper"]))
    elif _maybe(draw, 0.1):
        test = draw(st.sampled_from([None, "lower", False]))
    return dict(
        level="object", name=name, parameters=list(params), bounds=bounds,
        roles={p: "plain" for p in params}, kwargs=kw, x=x,
        n_update=_n_update(draw, n, can_update), test=test,
        compute_radius=_maybe(draw, 0.2) if has_inv else False,
    )


@st.composite
def dist_case(draw, name, n=None):
    p = draw(st.sampled_from(["luminosity_distance", "dl"]))
    kw = {}
    if draw(st.booleans()):
        kw["prior"] = "power-law"
        power = draw(st.one_of(
            st.sampled_from([2, 1, 3, 0.5, 2.0]), st.floats(0.0, 3.0)))
        kw["converter_kwargs"] = {"power": power}
        if _maybe(draw):
            kw["converter_kwargs"]["scale"] = draw(
                st.sampled_from([1.0, 100.0, 1000.0]))
    if _maybe(draw):
        kw["allowed_bounds"] = draw(st.sampled_from(
            [["upper"], ["lower"], ["lower", "upper"]]))
    if _maybe(draw, 0.2):
        kw["inversion_type"] = "split"
    if _maybe(draw, 0.2):
        kw["update_bounds"] = draw(st.booleans())
    b = draw(st.one_of(st.just([100.0, 5000.0]), ratio_bounds()))
    n = n or draw(st.integers(6, 16))
    return dict(
        level="object", name=name, parameters=[p], bounds={p: b},
        roles={p: "plain"}, kwargs=kw,
        x={p: draw(points(b[0], b[1], n))},
        n_update=_n_update(draw, n, True),
        test=draw(st.sampled_from(["omit", None, "lower", "upper", False,
                                   "upper"])),
        compute_radius=_maybe(draw, 0.2),
    )


def _value_forms(draw, params, gen, scalar_ok=True):
    form = draw(st.sampled_from(
        ["float", "list", "dict"] if scalar_ok else ["list", "dict"]))
    if form == "float":
        return gen(params[0])
    if form == "list":
        return [gen(p) for p in params]
    return {p: gen(p) for p in params}


@st.composite
def sas_case(draw, name, n=None):
    d = draw(st.integers(1, 3))
    params = NAME_POOL[:d]
    bounds = {p: draw(any_bounds()) for p in params}
    kw = {}
    estimate = False

    def scale_gen(p):
        s = _pow10(draw, -3, 6)
        return -s if _maybe(draw, 0.2) else s

    def shift_gen(p):
        lo, hi = bounds[p]
        return float(lo + draw(st.floats(-1.0, 2.0)) * (hi - lo))

    if name in ("zscore", "z-score"):
        estimate = True
        sel = draw(st.sampled_from(["none", "none", "noshift", "noscale"]))
        if sel == "noshift":
            kw["estimate_shift"] = False
            if draw(st.booleans()):
                kw["shift"] = _value_forms(draw, params, shift_gen, d == 1)
        elif sel == "noscale":
            kw["estimate_scale"] = False
            kw["scale"] = _value_forms(draw, params, scale_gen)
    else:
        kw["scale"] = _value_forms(draw, params, scale_gen)
        if draw(st.booleans()):
            kw["shift"] = _value_forms(draw, params, shift_gen, d == 1)
        if _maybe(draw, 0.2):
            kw["estimate_scale"] = True
            estimate = True
        if _maybe(draw, 0.2):
            kw["estimate_shift"] = True
            estimate = True
    n = n or draw(st.integers(6, 16))
    x = {p: draw(points(bounds[p][0], bounds[p][1], n)) for p in params}
    case = dict(
        level="object", name=name, parameters=list(params), bounds=bounds,
        roles={p: "plain" for p in params}, kwargs=kw, x=x,
        n_update=_n_update(draw, n, estimate), test="omit",
        compute_radius=False,
    )
    if d == 1:
        case["as_str"] = draw(st.booleans())
        case["bounds_form"] = draw(st.sampled_from(["dict", "list", "none"]))
    else:
        case["bounds_form"] = draw(st.sampled_from(["dict", "dict", "none"]))
    return case


@st.composite
def radial_bounds(draw):
    lo = draw(st.one_of(st.just(0.0), st.floats(-3, 3).map(lambda e: 10 ** e)))
    return [float(lo), float(lo + _pow10(draw, -3, 3))]


@st.composite
def angle_case(draw, name, n=None):
    kw = {}
    default_scale = {"angle": 1.0, "angle-pi": 2.0, "angle-2pi": 1.0,
                     "periodic": None}[name]
    scale = default_scale
    if _maybe(draw, 0.2):
        scale = draw(st.sampled_from([1.0, 2.0, None]))
        kw["scale"] = scale
    if scale is None:
        b = draw(st.one_of(
            any_bounds(),
            st.sampled_from([[0.0, 2 * PI], [-PI, PI], [-1.0, 1.0],
                             [-0.5, 0.5], [0.0, 1.0]])))
        full = True
    elif _maybe(draw, 0.4):
        # a fixed scale on bounds of the caller's choosing: the map is
        # one-to-one whenever the range is not longer than 2 pi / scale;
        # the interval may contain the branch cut of arctan2 or lie beyond
        # the principal branch
        period = 2 * PI / scale
        lo = draw(st.one_of(
            st.floats(-2.0, 2.0).map(lambda f: f * period),
            st.sampled_from([0.0, -period / 2, period / 4, 2.0, 2.5])))
        frac = draw(st.sampled_from([0.1, 0.25, 1 / PI, 0.5, 0.75, 0.9]))
        b = [float(lo), float(lo + frac * period)]
        full = False
    elif scale == 1.0:
        b = list(draw(st.sampled_from(
            [[0.0, 2 * PI], [-PI, PI], [0.0, PI], [-PI / 2, PI / 2]])))
        full = b[1] - b[0] == 2 * PI
    else:
        b = list(draw(st.sampled_from([[0.0, PI], [-PI / 2, PI / 2]])))
        full = True
    prior = {"angle-pi": "uniform", "angle-2pi": "uniform"}.get(name)
    if _maybe(draw):
        opts = [None]
        if full:
            opts.append("uniform")
        if scale == 1.0 and b == [0.0, PI]:
            opts.append("sine")
        prior = draw(st.sampled_from(opts))
        kw["prior"] = prior
    if prior == "uniform" and not full:
        kw["prior"] = None
    params, bounds, roles = ["phi_a"], {"phi_a": b}, {"phi_a": "angle"}
    n = n or draw(st.integers(6, 16))
    x = {"phi_a": draw(points(b[0], b[1], n))}
    if _maybe(draw):
        rb = draw(radial_bounds())
        params.append("r_a")
        bounds["r_a"] = rb
        roles["r_a"] = "radial"
        x["r_a"] = draw(points(rb[0], rb[1], n, excl_lo=rb[0] == 0.0))
    case = dict(
        level="object", name=name, parameters=params, bounds=bounds,
        roles=roles, kwargs=kw, x=x, n_update=draw(st.sampled_from([0, 0, n])),
        test="omit", compute_radius=_maybe(draw, 0.2),
    )
    if len(params) == 1:
        case["as_str"] = draw(st.booleans())
    return case


@st.composite
def tocart_case(draw, name, n=None):
    kw = {}
    if _maybe(draw, 0.6):
        kw["mode"] = draw(st.sampled_from(["split", "duplicate", "half"]))
    if _maybe(draw, 0.5):
        kw["prior"] = draw(st.sampled_from(["uniform", "uniform", None]))
    b = draw(st.one_of(
        any_bounds(), any_bounds(),
        st.sampled_from([[-5.0, -2.0], [-1.0, 0.0], [0.0, 1.0]])))
    params, bounds, roles = ["chi_a"], {"chi_a": b}, {"chi_a": "angle"}
    n = n or draw(st.integers(6, 16))
    x = {"chi_a": draw(points(b[0], b[1], n))}
    if _maybe(draw, 0.25):
        rb = draw(radial_bounds())
        params.append("r_a")
        bounds["r_a"] = rb
        roles["r_a"] = "radial"
        x["r_a"] = draw(points(rb[0], rb[1], n, excl_lo=rb[0] == 0.0))
    case = dict(
        level="object", name=name, parameters=params, bounds=bounds,
        roles=roles, kwargs=kw, x=x, n_update=draw(st.sampled_from([0, 0, n])),
        test="omit", compute_radius=_maybe(draw, 0.25),
    )
    if len(params) == 1:
        case["as_str"] = draw(st.booleans())
    return case


@st.composite
def pair_case(draw, name, n=None):
    kw = {}
    az_b = list(draw(st.sampled_from([[0.0, 2 * PI], [-PI, PI]])))
    if name == "sky-ra-dec":
        conv = "ra-dec"
    elif name == "sky-az-zen":
        conv = "az-zen"
    else:
        conv = draw(st.sampled_from(["ra-dec", "az-zen"]))
        if _maybe(draw):
            kw["convention"] = conv
    pol_b = [-PI / 2, PI / 2] if conv == "ra-dec" else [0.0, PI]
    names = {"ra-dec": ("ra", "dec"), "az-zen": ("azimuth", "zenith")}[conv]
    params = [names[0], names[1]]
    bounds = {names[0]: az_b, names[1]: pol_b}
    roles = {names[0]: "az", names[1]: "pol"}
    n = n or draw(st.integers(6, 16))
    x = {
        names[0]: draw(points(az_b[0], az_b[1], n)),
        names[1]: draw(points(pol_b[0], pol_b[1], n, excl_lo=True,
                              excl_hi=True)),
    }
    if _maybe(draw, 0.4):
        rb = draw(radial_bounds())
        params.append("dist_r")
        bounds["dist_r"] = rb
        roles["dist_r"] = "radial"
        x["dist_r"] = draw(points(rb[0], rb[1], n, excl_lo=rb[0] == 0.0))
    if _maybe(draw, 0.4):
        kw["prior"] = "isotropic"
    params = list(draw(st.permutations(params)))
    return dict(
        level="object", name=name, parameters=params, bounds=bounds,
        roles=roles, kwargs=kw, x=x, n_update=draw(st.sampled_from([0, 0, n])),
        test="omit", compute_radius=_maybe(draw, 0.2),
    )


@st.composite
def null_case(draw, name, n=None):
    d = draw(st.integers(1, 3))
    params = NAME_POOL[:d]
    bounds = {p: draw(any_bounds()) for p in params}
    n = n or draw(st.integers(6, 16))
    case = dict(
        level="object", name=name, parameters=list(params), bounds=bounds,
        roles={p: "plain" for p in params}, kwargs={},
        x={p: draw(points(bounds[p][0], bounds[p][1], n)) for p in params},
        n_update=draw(st.sampled_from([0, n])), test="omit",
        compute_radius=False,
        bounds_form=draw(st.sampled_from(
            ["dict", "none"] + (["list"] if d == 1 else []))),
    )
    if d == 1:
        case["as_str"] = draw(st.booleans())
    return case


@st.composite
def dphase_case(draw, name, n=None):
    n = n or draw(st.integers(6, 16))
    b = [0.0, 2 * PI]
    case = dict(
        level="object", name=name, parameters=["phase"],
        bounds={"phase": b}, roles={"phase": "phase"}, kwargs={},
        x={
            "phase": draw(points(0.0, 2 * PI, n)),
            "psi": draw(points(0.0, PI, n)),
            "theta_jn": draw(points(0.0, PI, n)),
        },
        n_update=draw(st.sampled_from([0, n])), test="omit",
        compute_radius=False, as_str=draw(st.booleans()),
    )
    return case


_BUILDERS = {
    "rtb": rtb_case, "dist": dist_case, "sas": sas_case, "angle": angle_case,
    "tocart": tocart_case, "pair": pair_case, "null": null_case,
    "dphase": dphase_case,
}


@st.composite
def object_cases(draw, name="*"):
    if name == "*":
        name = draw(st.sampled_from(ALL_NAMES))
    case = draw(_BUILDERS[FAMILY[name]](name))
    case["table"] = (
        "gw" if name in GW_NAMES else draw(st.sampled_from(["general", "gw"]))
    )
    case["seed"] = draw(st.integers(0, 2 ** 31 - 1))
    case["extras"] = _maybe(draw, 0.25)
    return case


# ---------------------------------------------------------- proposal level
def rename(obj, mp):
    """Rename parameter names inside a JSON-like structure."""
    if isinstance(obj, dict):
        return {mp.get(k, k): rename(v, mp) for k, v in obj.items()}
    if isinstance(obj, list):
        return [rename(v, mp) for v in obj]
    if isinstance(obj, str):
        return mp.get(obj, obj)
    return obj


def _group_from(case, i, how):
    mp = {p: f"{p}{i}" for p in case["x"]}
    g = dict(
        name=case["name"], how=how,
        parameters=[mp[p] for p in case["parameters"]],
        roles={mp[p]: r for p, r in case["roles"].items()},
        bounds={mp[p]: b for p, b in case["bounds"].items()},
        kwargs=rename(case["kwargs"], mp),
    )
    x = {mp[p]: v for p, v in case["x"].items()}
    return g, x


_PLAIN_PROPOSAL_NAMES = [n for n in ALL_NAMES if n not in GW_NAMES]
_MULTI_OK = ["default", "rescaletobounds", "offset", "inversion", "logit",
             "log-rescale", "zscore", "z-score", "null", "none",
             "inversion-duplicate"]


def _prior_kinds(group):
    """Model prior that the group's prime prior (if any) corresponds to."""
    kinds = {}
    fam = FAMILY[group["name"]]
    for p in group["parameters"]:
        r = group["roles"][p]
        k = "uniform"
        if fam == "pair" and r == "pol":
            k = "cosine" if group["bounds"][p][0] < 0 else "sine"
        if fam == "angle" and group["kwargs"].get("prior") == "sine":
            k = "sine"
        if fam == "dist" and group["kwargs"].get("prior") == "power-law":
            k = "power:%r" % group["kwargs"]["converter_kwargs"]["power"]
        kinds[p] = k
    return kinds


@st.composite
def plain_proposal_cases(draw):
    n = draw(st.integers(6, 14))
    mode = draw(st.sampled_from(["dict", "dict", "dict", "dict", "none",
                                 "str", "prime"]))
    groups, x = [], {}
    if mode in ("dict", "prime"):
        k = draw(st.integers(1, 3))
        used = set()
        for i in range(k):
            if mode == "prime":
                name = draw(st.sampled_from(
                    ["default", "offset", "inversion", "angle-pi",
                     "angle-2pi", "angle-pair", "mass_ratio",
                     "inversion-duplicate"]))
                if name == "mass_ratio":
                    name = "default"
            else:
                name = draw(st.sampled_from(_PLAIN_PROPOSAL_NAMES))
            oc = draw(_BUILDERS[FAMILY[name]](name, n=n))
            if mode == "prime":
                fam = FAMILY[name]
                if fam == "rtb":
                    oc["kwargs"] = {
                        kk: vv for kk, vv in oc["kwargs"].items()
                        if kk not in ("pre_rescaling", "post_rescaling")
                    }
                    oc["kwargs"]["prior"] = "uniform"
                elif fam == "pair":
                    oc["kwargs"]["prior"] = "isotropic"
                if fam in ("angle", "pair") and len(oc["parameters"]) > (
                    1 if fam == "angle" else 2
                ):
                    # drop the radial parameter: prime prior needs the
                    # auxiliary radius
                    rad = [p for p, r in oc["roles"].items() if r == "radial"]
                    for p in rad:
                        oc["parameters"].remove(p)
                        oc["roles"].pop(p)
                        oc["bounds"].pop(p)
                        oc["x"].pop(p)
                if fam == "angle":
                    b = oc["bounds"][oc["parameters"][0]]
                    sc = oc["kwargs"].get("scale", {
                        "angle": 1.0, "angle-pi": 2.0, "angle-2pi": 1.0,
                        "periodic": None}[name])
                    full = sc is None or abs(
                        sc * (b[1] - b[0]) - 2 * PI) < 1e-12
                    if full:
                        oc["kwargs"]["prior"] = "uniform"
            g, gx = _group_from(oc, i, "A")
            single = len(g["parameters"]) == 1
            forms = []
            if single and not g["kwargs"]:
                forms.append("A")
            if g["name"] is not None:
                forms.append("B")
                if g["name"] not in used:
                    forms.append("C")
            if not forms:
                # name None with kwargs cannot be expressed: drop the kwargs
                g["kwargs"] = {}
                forms = ["A"] if single else []
            if not forms:
                continue
            g["how"] = draw(st.sampled_from(forms))
            if g["how"] == "C":
                used.add(g["name"])
            groups.append(g)
            x.update(gx)
    fallback = draw(st.sampled_from(
        ["zscore", "zscore", None, "default", "null", "logit"]))
    if mode == "str":
        name = draw(st.sampled_from(_MULTI_OK))
        fb_name, how = name, "str"
    else:
        fb_name, how = fallback, "fallback"
    n_left = draw(st.integers(max(0, 2 - len(x)), 2))
    if n_left:
        ps = [f"u{j}9" for j in range(n_left)]
        gb = {p: draw(any_bounds()) for p in ps}
        g = dict(name=fb_name, how=how, parameters=ps,
                 roles={p: "plain" for p in ps}, bounds=gb, kwargs={})
        groups.append(g)
        for p in ps:
            x[p] = draw(points(
                gb[p][0], gb[p][1], n,
                excl_lo=fb_name in ("logit", "log-rescale"),
                excl_hi=fb_name == "logit"))
    has_inv = any(
        FAMILY[g["name"]] == "rtb" and (
            g["name"] in ("inversion", "inversion-duplicate")
            or g["kwargs"].get("boundary_inversion"))
        for g in groups)
    test = "omit"
    if has_inv:
        test = draw(st.sampled_from(["omit", None, "lower", "upper", False]))
    priors = {}
    for g in groups:
        priors.update(_prior_kinds(g))
    names = list(draw(st.permutations(sorted(x))))
    return dict(
        level="proposal", gw=False, mode=mode, groups=groups, names=names,
        priors=priors, fallback=fallback,
        reverse=draw(st.booleans()), x=x,
        n_update=draw(st.sampled_from([0, n, n, draw(st.integers(2, n))])),
        test=test, compute_radius=_maybe(draw, 0.2),
        seed=draw(st.integers(0, 2 ** 31 - 1)), extras=_maybe(draw, 0.25),
    )


# documented alias table of GWFlowProposal: parameter -> (name, partner, role)
_GW_POOL = {
    "chirp_mass": ("mass", "plain", "ratio"),
    "mass_ratio": ("mass_ratio", "plain", [0.125, 1.0]),
    "theta_jn": ("angle-sine", "plain", [0.0, PI]),
    "tilt_1": ("angle-sine", "plain", [0.0, PI]),
    "iota": ("angle-sine", "plain", [0.0, PI]),
    "phi_12": ("angle-2pi", "angle", [0.0, 2 * PI]),
    "phi_jl": ("angle-2pi", "angle", [0.0, 2 * PI]),
    "phase": ("angle-2pi", "angle", [0.0, 2 * PI]),
    "psi": ("angle-pi", "angle", [0.0, PI]),
    "geocent_time": ("time", "plain", "time"),
    "time_jitter": ("periodic", "angle", "jitter"),
    "a_1": ("default", "plain", [0.0, 0.99]),
    "chi_2": ("default", "plain", [-1.0, 1.0]),
    "luminosity_distance": ("distance", "plain", [100.0, 5000.0]),
}


@st.composite
def gw_proposal_cases(draw):
    n = draw(st.integers(6, 14))
    singles = draw(st.lists(st.sampled_from(sorted(_GW_POOL)), min_size=1,
                            max_size=6, unique=True))
    sky = draw(st.sampled_from([None, None, "ra-dec", "az-zen", "ra-only"]))
    override = draw(st.sampled_from(
        [None, None, "delta-phase", "delta_phase", "dist-power", "q-default",
         "mc-logit", "jitter-asym"]))
    if override in ("delta-phase", "delta_phase"):
        for p in ("phase", "psi", "theta_jn"):
            if p not in singles:
                singles.append(p)
    if override == "dist-power" and "luminosity_distance" not in singles:
        singles.append("luminosity_distance")
    if override == "q-default" and "mass_ratio" not in singles:
        singles.append("mass_ratio")
    if override == "mc-logit" and "chirp_mass" not in singles:
        singles.append("chirp_mass")
    if override == "jitter-asym" and "time_jitter" not in singles:
        singles.append("time_jitter")
    groups, x = [], {}
    delta_alone = _maybe(draw, 0.15)
    for p in singles:
        name, role, b = _GW_POOL[p]
        if b == "ratio":
            b = draw(ratio_bounds())
        elif b == "time":
            t0 = 1.1e9 + draw(st.floats(0, 1e8))
            b = [t0 - 0.1, t0 + 0.1]
        elif b == "jitter":
            a = _pow10(draw, -5, -2)
            b = [-a, a]
            if override == "jitter-asym":
                b = [-a, 3 * a]
        g = dict(name=name, how="gwdefault", parameters=[p], roles={p: role},
                 bounds={p: list(b)}, kwargs={})
        excl = (False, False)
        if override in ("delta-phase", "delta_phase"):
            # the requirements must be configured explicitly as well
            if p == "phase":
                g.update(name=override, how="A", roles={p: "phase"})
            elif p in ("psi", "theta_jn") and not delta_alone:
                g.update(how="A")
        if p == "luminosity_distance" and override == "dist-power":
            g.update(how="B", kwargs={
                "prior": "power-law",
                "converter_kwargs": {"power": draw(st.sampled_from([2, 1, 2.5]))},
            })
        if p == "mass_ratio" and override == "q-default":
            g.update(name="default", how="A")
        if p == "chirp_mass" and override == "mc-logit":
            g.update(name="logit", how="A")
            excl = (True, True)
        groups.append(g)
        x[p] = draw(points(b[0], b[1], n, excl_lo=excl[0], excl_hi=excl[1]))
    if override in ("delta-phase", "delta_phase") and not delta_alone:
        # the dictionary is processed in order: requirements first
        groups.sort(key=lambda g: g["parameters"] == ["phase"])
    if sky:
        az, pol = ("ra", "dec") if sky != "az-zen" else ("azimuth", "zenith")
        az_b = list(draw(st.sampled_from([[0.0, 2 * PI], [-PI, PI]])))
        pol_b = [-PI / 2, PI / 2] if sky != "az-zen" else [0.0, PI]
        ps = [az, pol] if sky != "ra-only" else [az]
        g = dict(
            name="sky-ra-dec" if sky != "az-zen" else "sky-az-zen",
            how="gwdefault", parameters=ps,
            roles={az: "az", pol: "pol"} if sky != "ra-only" else {az: "az"},
            bounds={az: az_b, pol: pol_b} if sky != "ra-only" else {az: az_b},
            kwargs={},
        )
        groups.append(g)
        x[az] = draw(points(az_b[0], az_b[1], n))
        if sky != "ra-only":
            x[pol] = draw(points(pol_b[0], pol_b[1], n, excl_lo=True,
                                 excl_hi=True))
    if len(x) < 2 or _maybe(draw, 0.3):
        b = draw(any_bounds())
        groups.append(dict(name="zscore", how="fallback", parameters=["x09"],
                           roles={"x09": "plain"}, bounds={"x09": b},
                           kwargs={}))
        x["x09"] = draw(points(b[0], b[1], n))
    priors = {}
    for g in groups:
        priors.update(_prior_kinds(g))
    for p in ("theta_jn", "tilt_1", "iota"):
        if p in priors:
            priors[p] = "sine"
    names = list(draw(st.permutations(sorted(x))))
    return dict(
        level="proposal", gw=True, mode="gw:" + str(override), groups=groups,
        names=names, priors=priors, fallback="zscore",
        reverse=draw(st.booleans()), x=x,
        n_update=draw(st.sampled_from([0, n, n, draw(st.integers(2, n))])),
        test=draw(st.sampled_from(["omit", None, "lower", "upper", False])),
        compute_radius=_maybe(draw, 0.2),
        seed=draw(st.integers(0, 2 ** 31 - 1)), extras=_maybe(draw, 0.25),
    )


def proposal_cases():
    return st.one_of(plain_proposal_cases(), plain_proposal_cases(),
                     gw_proposal_cases())
