"""A user-defined base distribution with learnable parameters (diagonal
normal).  nessai accepts a `glasflow.nflows.distributions.Distribution`
class or instance as `flow_config["distribution"]`."""
import math

import torch
from glasflow.nflows.distributions import Distribution


class LearnableNormal(Distribution):
    def __init__(self, shape):
        super().__init__()
        self._shape = torch.Size(shape)
        d = int(self._shape[0])
        self.loc = torch.nn.Parameter(torch.zeros(1, d))
        self.log_scale = torch.nn.Parameter(torch.zeros(1, d))

    def _log_prob(self, inputs, context):
        u = (inputs - self.loc) * torch.exp(-self.log_scale)
        d = int(self._shape[0])
        return (-0.5 * torch.sum(u * u, dim=1) - torch.sum(self.log_scale)
                - 0.5 * d * math.log(2 * math.pi))

    def _sample(self, num_samples, context):
        eps = torch.randn(num_samples, int(self._shape[0]),
                          dtype=self.loc.dtype, device=self.loc.device)
        return self.loc + torch.exp(self.log_scale) * eps
