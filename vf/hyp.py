"""Hypothesis glue: seeded, database-free runs that return Violations."""
import hypothesis
from hypothesis import HealthCheck, Phase, given, settings
from hypothesis.errors import Unsatisfiable

from .core import HarnessError, Violation


def make_settings(max_examples, shrink=True, stateful_step_count=None):
    phases = [Phase.generate] + ([Phase.shrink] if shrink else [])
    kw = dict(
        max_examples=max_examples,
        database=None,
        deadline=None,
        derandomize=False,
        report_multiple_bugs=False,
        suppress_health_check=list(HealthCheck),
        phases=phases,
        print_blob=False,
    )
    if stateful_step_count is not None:
        kw["stateful_step_count"] = stateful_step_count
    return settings(**kw)


def run_given(body, strategy, seed, max_examples, shrink=True):
    """Run body(case) over `strategy`.

    body raises Violation to report a failure.  Returns a list with at most
    one (shrunk) Violation.  Any other exception escaping body is a harness
    error unless body converts it itself.
    """
    last = {}

    @hypothesis.seed(seed)
    @make_settings(max_examples, shrink)
    @given(strategy)
    def test(case):
        last["case"] = case
        try:
            body(case)
        except Violation as v:
            last.setdefault("first", v)
            raise

    try:
        test()
    except Violation as v:
        return [v]
    except Unsatisfiable as e:
        raise HarnessError(f"generator unsatisfiable: {e}")
    except Exception:
        # an error inside Hypothesis while it was shrinking a failure that
        # had already been observed (seen: ValueError from its interval
        # sets): report the failure as first found, unshrunk
        if "first" in last:
            return [last["first"]]
        raise
    return []


def run_machine(machine_cls, seed, max_examples, steps, shrink=True):
    """Run a RuleBasedStateMachine; Violations raised by rules/invariants are
    returned (shrunk)."""
    from hypothesis.stateful import run_state_machine_as_test

    try:
        run_state_machine_as_test(
            hypothesis.seed(seed)(machine_cls),
            settings=make_settings(max_examples, shrink, steps),
        )
    except Violation as v:
        return [v]
    return []
