"""Fault injectors for real runs (installed by vf.driver from job["fault"]).

  {"count_lines": [funcspec, ...]}
      count how often each source line of the listed functions is about to
      be executed (probe run; result in report data["line_counts"])
  {"signal": {"func": funcspec, "rel_line": n, "occurrence": k,
              "signum": 15}}
      when execution is about to run that line for the k-th time, the
      process sends itself the signal, so that the handler installed by
      FlowSampler runs at that instant
  {"fs_crash": {"scope": "checkpoint"|"weights", "op": k}} see vf.fscrash

funcspec = "module:Qual.name" (e.g.
"nessai.samplers.nestedsampler:NestedSampler.consume_sample").
Lines are given relative to the first line of the function, so they are
computed from the code objects of the tree under test, not hard-coded.
Uses sys.monitoring (PEP 669): only the listed code objects are instrumented.
"""
import importlib
import os
import signal
import sys

TOOL = 3  # sys.monitoring tool id (free id)


def resolve(spec):
    mod, qual = spec.split(":")
    obj = importlib.import_module(mod)
    for part in qual.split("."):
        obj = getattr(obj, part)
    obj = getattr(obj, "__vf_orig__", obj)
    while hasattr(obj, "__wrapped__"):
        obj = obj.__wrapped__
    obj = getattr(obj, "__func__", obj)
    return obj.__code__


def lines_of(code):
    return sorted({ln for _, _, ln in code.co_lines() if ln is not None
                   and ln > code.co_firstlineno})


def install(mon, fault):
    mon_ = sys.monitoring
    E = mon_.events
    if fault.get("count_lines"):
        counts = {}
        codes = {}
        for spec in fault["count_lines"]:
            try:
                code = resolve(spec)
            except Exception as e:  # noqa: BLE001
                mon.data.setdefault("unresolved", []).append(
                    [spec, repr(e)])
                continue
            codes[code] = spec

        def on_line(code, line):
            spec = codes.get(code)
            if spec is not None:
                k = f"{spec}|{line - code.co_firstlineno}"
                counts[k] = counts.get(k, 0) + 1

        mon_.use_tool_id(TOOL, "vf-count")
        mon_.register_callback(TOOL, E.LINE, on_line)
        for code in codes:
            mon_.set_local_events(TOOL, code, E.LINE)
        mon.data["line_counts"] = counts
        mon.data["func_lines"] = {
            spec: [ln - code.co_firstlineno for ln in lines_of(code)]
            for code, spec in codes.items()}
        return
    if fault.get("signal"):
        s = fault["signal"]
        code = resolve(s["func"])
        target = code.co_firstlineno + int(s["rel_line"])
        occ = int(s["occurrence"])
        signum = int(s["signum"])
        st = {"n": 0, "fired": False}

        def on_line(code_, line):
            if code_ is code and line == target and not st["fired"]:
                st["n"] += 1
                if st["n"] == occ:
                    st["fired"] = True
                    mon.flags["signal_fired"] = True
                    mon.data["signal"] = {
                        "in_consume": bool(mon.in_consume),
                        "in_finalise": bool(mon.in_finalise),
                        "iteration": int(getattr(
                            getattr(mon.fs, "ns", None), "iteration", -1)),
                    }
                    mon.flush()
                    # the handler registered by FlowSampler runs before the
                    # target line is executed
                    os.kill(os.getpid(), signum)
                    # give CPython a bytecode boundary to run the handler
                    for _ in range(3):
                        pass

        mon_.use_tool_id(TOOL, "vf-signal")
        mon_.register_callback(TOOL, E.LINE, on_line)
        mon_.set_local_events(TOOL, code, E.LINE)
        return
    if fault.get("fs_crash"):
        from . import fscrash

        fscrash.install(mon, fault["fs_crash"])
        return
    raise ValueError(f"unknown fault {fault}")


SIGNALS = {"SIGTERM": int(signal.SIGTERM), "SIGINT": int(signal.SIGINT),
           "SIGALRM": int(signal.SIGALRM)}
