"""Passive invariant monitors for real sampler runs.

Monitors wrap nessai methods at run time (class attributes are replaced by
recording wrappers).  They copy state before/after the wrapped call and
evaluate invariants; they never change arguments, results or random state of
the code under test (model re-evaluations go through `model.quiet()` and use
no random numbers).  Violations are recorded, not raised.
"""
import functools
import hashlib
import json
import os

import numpy as np


def row_bytes(a):
    """Bit-exact identity of each row of a structured array."""
    a = np.ascontiguousarray(a)
    return [a[i: i + 1].tobytes() for i in range(a.size)]


def h(b):
    return hashlib.sha1(b).hexdigest()[:16]


class Mon:
    def __init__(self, job):
        self.job = job
        self.hdir = job["hdir"]
        self.violations = []  # dict(key,msg,count)
        self._vkeys = {}
        self.counters = {}
        self.classes = set()
        self.flags = {}
        self.data = {}
        self.model = None
        self.fs = None
        self.in_consume = 0
        self.in_finalise = 0
        self.shadow_path = os.path.join(self.hdir, "shadow.jsonl")
        self._shadow_f = None
        self.after_construct_hooks = []

    # -- recording
    def violation(self, key, msg):
        key = key + getattr(self, "key_suffix", "")
        if key in self._vkeys:
            self._vkeys[key]["count"] += 1
            return
        v = {"key": key, "msg": str(msg)[:600], "count": 1}
        self._vkeys[key] = v
        self.violations.append(v)
        # persist at once: the run may hang or be killed afterwards
        try:
            self.flush()
        except Exception:  # pragma: no cover
            pass

    def count(self, name, n=1):
        self.counters[name] = self.counters.get(name, 0) + n

    def shadow(self, rec):
        if self._shadow_f is None:
            self._shadow_f = open(self.shadow_path, "a")
        self._shadow_f.write(json.dumps(rec) + "\n")
        self._shadow_f.flush()

    def load_shadow(self):
        recs = []
        if os.path.exists(self.shadow_path):
            with open(self.shadow_path) as f:
                for line in f:
                    line = line.strip()
                    if line:
                        try:
                            recs.append(json.loads(line))
                        except ValueError:
                            pass  # torn last line of a killed process
        return recs

    def flush(self):
        """Persist what has been observed so far (survives os._exit)."""
        from .core import jdump

        rf = self.data.get("resume_file")
        if rf and os.path.exists(rf) and self.flags.get("at_exit"):
            import hashlib

            self.data["resume_file_sha_at_exit"] = hashlib.sha1(
                open(rf, "rb").read()).hexdigest()[:16]

        side = os.path.join(self.hdir, "monitor_flush.json")
        tmp = side + ".tmp"
        with open(tmp, "w") as f:
            f.write(jdump({
                "violations": self.violations,
                "counters": self.counters,
                "classes": sorted(self.classes),
                "data": self.data,
                "sampling_started": self.flags.get("sampling_started", False),
                "likelihood_calls": getattr(self.model, "calls", None),
                "likelihood_points": getattr(self.model, "points", None),
            }))
        os.replace(tmp, side)
        if self._shadow_f is not None:
            self._shadow_f.flush()

    def after_construct(self, fs):
        for hook in self.after_construct_hooks:
            hook(fs)


class DirectRun:
    """NestedSampler / ImportanceNestedSampler constructed and run without
    FlowSampler; exposes what the result digest reads."""

    def __init__(self, model, job, kwargs):
        from nessai.samplers.importancesampler import ImportanceNestedSampler
        from nessai.samplers.nestedsampler import NestedSampler

        cls = ImportanceNestedSampler if job.get("ins") else NestedSampler
        self.ns = cls(model, output=job["output"], **kwargs)

    def run(self, **kw):
        self.ns.initialise()
        self.ns.nested_sampling_loop()

    @property
    def nested_samples(self):
        ns = self.ns
        return ns.samples if hasattr(ns, "samples") and type(
            ns).__name__ == "ImportanceNestedSampler" else np.array(
                ns.nested_samples)

    @property
    def log_evidence(self):
        return self.ns.log_evidence

    @property
    def log_evidence_error(self):
        return self.ns.log_evidence_error

    logZ = log_evidence
    logZ_error = log_evidence_error


class _WrappedPool:
    """Thin wrapper around a process pool (as a logging or MPI adapter would
    be): map / close / terminate / join only."""

    def __init__(self, pool):
        self._inner = pool

    def map(self, func, iterable, *a, **k):
        return self._inner.map(func, iterable, *a, **k)

    def close(self):
        return self._inner.close()

    def terminate(self):
        return self._inner.terminate()

    def join(self):
        return self._inner.join()


# --------------------------------------------------------------------------
def decode_kwargs(kwargs, mon):
    """JSON -> FlowSampler kwargs (special markers)."""
    out = {}
    for k, v in kwargs.items():
        if isinstance(v, dict) and "__pool__" in v:
            import multiprocessing as mp
            from nessai.utils.multiprocessing import initialise_pool_variables

            ctx = mp.get_context("fork")
            pool = ctx.Pool(
                v["__pool__"], initializer=initialise_pool_variables,
                initargs=(mon.model,),
            )
            mon.data["user_pool"] = v["__pool__"]
            if v.get("wrapped"):
                # a user pool whose size nessai cannot read off the object
                # (no `_processes`): the caller states it with `n_pool`
                pool = _WrappedPool(pool)
            out[k] = pool
        elif isinstance(v, dict) and "__inf__" in v:
            out[k] = float("inf")
        elif k == "flow_config" and isinstance(v, dict) and isinstance(
                v.get("distribution"), dict):
            # base distribution given as an object: a learnable user-defined
            # Distribution instance (or its class)
            from .dists import LearnableNormal

            kind = v["distribution"].get("__dist__")
            v = dict(v)
            v["distribution"] = LearnableNormal([mon.model.dims]) \
                if kind == "learnable-instance" else LearnableNormal
            out[k] = v
        else:
            out[k] = v
    return out


def wrap(cls, name, before=None, after=None):
    """Replace cls.name by a wrapper calling before(self,*a) -> token and
    after(self, token, result) around the original."""
    orig = getattr(cls, name)

    @functools.wraps(orig)
    def wrapper(self, *args, **kwargs):
        token = before(self, *args, **kwargs) if before else None
        result = orig(self, *args, **kwargs)
        if after:
            after(self, token, result)
        return result

    wrapper.__vf_orig__ = orig
    setattr(cls, name, wrapper)
    return orig


# --------------------------------------------------------------------------
# Monitor "started": has sampling started? (C20 outcome classes)
def install_started(mon):
    from nessai.samplers.nestedsampler import NestedSampler
    from nessai.samplers.importancesampler import ImportanceNestedSampler

    def before(self, *a, **k):
        mon.flags["sampling_started"] = True

    wrap(NestedSampler, "populate_live_points", before=before)
    wrap(ImportanceNestedSampler, "populate_live_points", before=before)


# --------------------------------------------------------------------------
# Monitor "ns": live-set evolution of the standard sampler (C01)
def install_ns(mon):
    from nessai.samplers.nestedsampler import NestedSampler
    import nessai.samplers.base as base

    model = mon.model
    st = {"shadow_n": 0, "checked_resume": False}
    mon.data.setdefault("ns", {})

    # ---- rebuild shadow from earlier processes of this history
    recs = mon.load_shadow()
    shadow = []  # hashes of removed rows, in order
    ckpts = []
    for r in recs:
        if r["t"] == "rm":
            shadow.append(r["h"])
        elif r["t"] == "trunc":
            del shadow[r["n"]:]
            if r["n"] == 0:
                mon.key_suffix = ""
        elif r["t"] == "ck":
            ckpts.append(r)
        elif r["t"] == "taint":
            # an earlier process of this history resumed from a checkpoint
            # taken in the middle of an iteration: everything observed from
            # then on carries that signature
            mon.key_suffix = r["suffix"]
    st["shadow"] = shadow
    st["ckpts"] = ckpts

    def snap(self):
        lp = self.live_points
        return {
            "live": None if lp is None else lp.copy(),
            "n_nested": len(self.nested_samples),
            "n_state": len(self.state.logLs),
            "n_idx": len(self.insertion_indices),
            "it": self.iteration,
        }

    def eval_model(row):
        with model.quiet():
            ll = float(model._log_l(row)[0])
            lp = float(np.atleast_1d(model.log_prior(row))[0])
        return ll, lp

    def param_view(a):
        return np.stack([np.asarray(a[n], dtype=float) for n in model.names],
                        axis=1)

    # ---- consume_sample
    def before_consume(self):
        mon.in_consume += 1
        return snap(self)

    def after_consume(self, b, _):
        mon.in_consume -= 1
        mon.count("ns.iterations")
        V = mon.violation
        nlive = self.nlive
        live = self.live_points
        bl = b["live"]
        if live is None or live.size != nlive:
            V("live-set-size", f"it={self.iteration}: live set has "
              f"{None if live is None else live.size} rows, nlive={nlive}")
            return
        if bl is None or bl.size != nlive:
            V("live-set-size:before", f"it={b['it']}: live set before the "
              f"iteration has {None if bl is None else bl.size} rows")
            return
        ll = live["logL"]
        if not np.all(ll[1:] >= ll[:-1]):
            V("live-set-not-sorted", f"it={self.iteration}")
        removed = bl[0]
        if not removed["logL"] == bl["logL"].min():
            V("removed-not-minimum",
              f"it={self.iteration}: removed logL={removed['logL']!r} "
              f"min={bl['logL'].min()!r}")
        # bookkeeping grew by exactly this point
        if len(self.nested_samples) != b["n_nested"] + 1:
            V("nested-samples-growth",
              f"it={self.iteration}: {b['n_nested']} -> "
              f"{len(self.nested_samples)}")
        elif self.nested_samples[-1].tobytes() != removed.tobytes():
            V("recorded-point-is-not-removed-point", f"it={self.iteration}")
        if len(self.state.logLs) != b["n_state"] + 1:
            V("integral-state-growth",
              f"it={self.iteration}: {b['n_state']} -> "
              f"{len(self.state.logLs)}")
        elif self.state.logLs[-1] != removed["logL"]:
            V("integrated-value-is-not-removed-logL", f"it={self.iteration}")
        if self.iteration != b["it"] + 1:
            V("iteration-increment", f"{b['it']} -> {self.iteration}")
        if len(self.nested_samples) >= 2 and (
            self.nested_samples[-1]["logL"] < self.nested_samples[-2]["logL"]
        ):
            V("dead-likelihoods-decrease",
              f"it={self.iteration}: {self.nested_samples[-2]['logL']!r} -> "
              f"{self.nested_samples[-1]['logL']!r}")
        # counts of records vs observed removals (shadow)
        st["shadow"].append(h(removed.tobytes()))
        mon.shadow({"t": "rm", "it": int(self.iteration),
                    "h": st["shadow"][-1]})
        if len(self.nested_samples) != len(st["shadow"]):
            V("records!=removals",
              f"it={self.iteration}: {len(self.nested_samples)} records for "
              f"{len(st['shadow'])} observed removals")
        # other nlive-1 rows untouched (multiset, bit for bit)
        old = sorted(row_bytes(bl[1:]))
        newb = row_bytes(live)
        remaining = sorted(newb)
        # multiset difference remaining - old must be exactly one row
        i = j = 0
        extra = []
        missing = 0
        while i < len(remaining) and j < len(old):
            if remaining[i] == old[j]:
                i += 1
                j += 1
            elif remaining[i] < old[j]:
                extra.append(remaining[i])
                i += 1
            else:
                missing += 1
                j += 1
        extra.extend(remaining[i:])
        missing += len(old) - j
        if missing or len(extra) != 1:
            V("other-live-points-changed",
              f"it={self.iteration}: {missing} of the other live points "
              f"missing/modified, {len(extra)} new rows")
            return
        new_b = extra[0]
        # insertion index
        if len(self.insertion_indices) != b["n_idx"] + 1:
            V("insertion-indices-growth",
              f"it={self.iteration}: {b['n_idx']} -> "
              f"{len(self.insertion_indices)}")
        else:
            idx = self.insertion_indices[-1]
            if not (0 <= idx < nlive) or newb[int(idx)] != new_b:
                # ties: any position holding an identical row is fine
                V("insertion-index-wrong",
                  f"it={self.iteration}: index {idx} does not hold the new "
                  f"point (new point at {newb.index(new_b)})")
        if len(self.insertion_indices) != self.iteration:
            V("insertion-indices!=iterations",
              f"{len(self.insertion_indices)} vs it={self.iteration}")
        pos = newb.index(new_b)
        new = live[pos: pos + 1]
        # a replacement is a fresh draw: it must not be a copy (identical in
        # every parameter) of a point that is already in the live set - that
        # point would be discarded and recorded twice
        pv = param_view(live)
        same = np.all(pv == pv[pos], axis=1)
        same[pos] = False
        if same.any():
            V("live-set-duplicate-point",
              f"it={self.iteration}: the new point equals live point "
              f"{int(np.argmax(same))} in every parameter")
        # ... nor of any point accepted earlier in the run (live or already
        # discarded, in this process or before a resume): a pool point is
        # handed out once
        if st.get("seen") is None:
            seen = {r.tobytes() for r in param_view(bl)}
            if len(self.nested_samples) > 1:
                seen.update(r.tobytes() for r in param_view(
                    np.array(self.nested_samples[:-1])))
            st["seen"] = seen
        nb = pv[pos].tobytes()
        if nb in st["seen"] and not same.any():
            V("new-point-is-a-copy-of-an-earlier-point",
              f"it={self.iteration}: the new point equals, in every "
              f"parameter, a point that was accepted earlier in the run")
        st["seen"].add(nb)
        if not np.isfinite(new["logP"][0]):
            V("new-point-logP-not-finite", f"it={self.iteration}: "
              f"{new['logP'][0]!r}")
        if not bool(model.ref_in_bounds(new)[0]):
            V("new-point-out-of-bounds", f"it={self.iteration}")
        if not new["logL"][0] > removed["logL"]:
            V("new-point-not-strictly-above",
              f"it={self.iteration}: new {new['logL'][0]!r} removed "
              f"{removed['logL']!r}")
        ll_ref, lp_ref = eval_model(new)
        if new["logL"][0] != ll_ref:
            V("new-point-logL!=model",
              f"it={self.iteration}: stored {new['logL'][0]!r} model "
              f"{ll_ref!r}")
        if new["logP"][0] != lp_ref:
            V("new-point-logP!=model",
              f"it={self.iteration}: stored {new['logP'][0]!r} model "
              f"{lp_ref!r}")
        if new["it"][0] != self.iteration:
            V("new-point-it", f"it field {new['it'][0]} at iteration "
              f"{self.iteration}")
        if getattr(self, "proposal", None) is getattr(
                self, "_flow_proposal", None):
            mon.count("ns.flow_replacements")
        else:
            mon.count("ns.uninformed_replacements")

    wrap(NestedSampler, "consume_sample", before_consume, after_consume)

    # ---- populate_live_points
    def after_populate(self, _t, _r):
        V = mon.violation
        live = self.live_points
        mon.count("ns.populate_live_points")
        if live is None or live.size != self.nlive:
            V("initial-live-set-size", "not nlive rows")
            return
        if not np.all(live["logL"][1:] >= live["logL"][:-1]):
            V("initial-live-set-not-sorted", "")
        if not np.all(np.isfinite(live["logP"])) or not np.all(
                np.isfinite(live["logL"])):
            V("initial-live-set-not-finite", "")
        if not np.all(model.ref_in_bounds(live)):
            V("initial-live-set-out-of-bounds", "")
        if not np.all(live["it"] == 0):
            V("initial-live-set-it", "it != 0")
        # independent prior draws: no point occurs twice
        pv = param_view(live)
        if len({r.tobytes() for r in pv}) != len(pv):
            V("initial-live-set-duplicate-point",
              f"{len(pv) - len({r.tobytes() for r in pv})} initial live "
              f"points are copies of another one")
        with model.quiet():
            ll = model.ref_log_likelihood(live)
            lp = model.ref_log_prior(live)
        if not np.array_equal(ll, live["logL"]):
            V("initial-live-set-logL!=model", "")
        if not np.array_equal(lp, live["logP"]):
            V("initial-live-set-logP!=model", "")

    wrap(NestedSampler, "populate_live_points", None, after_populate)

    # ---- training policy: a *forced* training (one that overrides the
    # cooldown) is documented for an empty pool, the switch from uninformed
    # sampling and an interrupted training only - never while the flow
    # proposal still holds unused pool points
    def before_train(self, force=False):
        fp = getattr(self, "_flow_proposal", None)
        if force and fp is not None and getattr(fp, "populated", False) \
                and getattr(fp, "indices", None) and \
                getattr(self, "completed_training", True):
            mon.violation(
                "policy:forced-training-with-unused-flow-pool",
                f"it={self.iteration}: {len(fp.indices)} unused pool points, "
                f"uninformed_sampling={self.uninformed_sampling}")
        mon.count("ns.train_calls")

    wrap(NestedSampler, "train_proposal", before_train, None)

    # ---- finalise
    def before_finalise(self):
        mon.in_finalise += 1
        return snap(self)

    def after_finalise(self, b, _):
        mon.in_finalise -= 1
        V = mon.violation
        mon.count("ns.finalise")
        if self.live_points is not None:
            V("finalise:live-set-not-cleared", "")
        bl = b["live"]
        if bl is None:
            V("finalise:no-live-points", "")
            return
        n = bl.size
        tail = self.nested_samples[-n:]
        if len(self.nested_samples) != b["n_nested"] + n or \
                row_bytes(np.array(tail)) != row_bytes(bl):
            V("finalise:live-points-not-consumed-once",
              f"{b['n_nested']} + {n} live -> {len(self.nested_samples)}")
        if not self.prior_sampling and \
                len(self.nested_samples) != self.iteration + self.nlive:
            V("finalise:len!=iterations+nlive",
              f"{len(self.nested_samples)} vs {self.iteration}+{self.nlive}")
        if len(self.state.logLs) != len(self.nested_samples) + 1:
            V("finalise:state-length",
              f"{len(self.state.logLs)} vs {len(self.nested_samples)}+1")
        for r in row_bytes(bl):
            st["shadow"].append(h(r))
            mon.shadow({"t": "rm", "it": -1, "h": st["shadow"][-1]})

    wrap(NestedSampler, "finalise", before_finalise, after_finalise)

    # ---- checkpoints: remember what each one contained
    orig_dump = base.safe_file_dump

    def dump(obj, filename, *a, **k):
        if isinstance(obj, NestedSampler):
            rec = {
                "t": "ck", "it": int(obj.iteration),
                "n_nested": len(obj.nested_samples),
                "n_idx": len(obj.insertion_indices),
                "n_state": len(obj.state.logLs),
                "mid": bool(mon.in_consume or mon.in_finalise),
                "where": ("consume_sample" if mon.in_consume else
                          "finalise" if mon.in_finalise else "boundary"),
                "finalised": bool(obj.finalised),
                "pid": os.getpid(),
            }
            mon.shadow(rec)
            st["ckpts"].append(rec)
            mon.count("ns.checkpoints")
            if rec["mid"]:
                mon.count("ns.checkpoints_mid_iteration")
                if mon.job.get("kill_after_mid_checkpoint"):
                    # fault schedule "die at the first likelihood call after
                    # a checkpoint written in the middle of an iteration"
                    mon.model.kill_after = mon.model.points + 1
                    mon.model.kill_hook = mon.flush
        return orig_dump(obj, filename, *a, **k)

    base.safe_file_dump = dump

    # ---- resume: restored state must be the shadow prefix of a checkpoint
    def before_loop(self):
        if st["checked_resume"]:
            return None
        st["checked_resume"] = True
        if not getattr(self, "resumed", False):
            if self.iteration == 0 and not self.nested_samples and \
                    st["shadow"]:
                # no checkpoint could be loaded: the run starts afresh
                mon.classes.add("restarted-afresh")
                del st["shadow"][:]
                mon.shadow({"t": "trunc", "n": 0})
            return None
        V = mon.violation
        mon.count("ns.resumes")
        mon.classes.add("resumed")
        cur = (int(self.iteration), len(self.nested_samples),
               len(self.insertion_indices), len(self.state.logLs))
        match = [c for c in st["ckpts"]
                 if (c["it"], c["n_nested"], c["n_idx"], c["n_state"]) == cur]
        mon.data["ns"]["resumed_at"] = cur
        if not match:
            V("resume:state-matches-no-checkpoint",
              f"restored (it,nested,idx,state)={cur}")
            mid = ""
        else:
            c = match[-1]
            mid = c["where"] if c["mid"] else ""
            mon.data["ns"]["resumed_from"] = c
        if mid:
            mon.classes.add("resumed-from-mid-iteration-checkpoint")
        suffix = f"@{mid}" if mid else ""
        st["suffix"] = suffix
        if suffix and not getattr(mon, "key_suffix", ""):
            mon.key_suffix = suffix
            mon.shadow({"t": "taint", "suffix": suffix})
            suffix = ""  # added by Mon.violation from now on
        n = len(self.nested_samples)
        got = [h(b_) for b_ in row_bytes(np.array(self.nested_samples))] \
            if n else []
        if got != st["shadow"][:n]:
            V("resume:nested-samples!=shadow-prefix" + (
                "" if getattr(mon, "key_suffix", "") else suffix),
              f"restored {n} records differ from the recorded history")
        # the run continues from here: drop what the killed process did after
        del st["shadow"][n:]
        mon.shadow({"t": "trunc", "n": n})
        # the live set must be complete and without duplicated points
        if not self.finalised and self.iteration > 0:
            lp = self.live_points
            if lp is None or lp.size != self.nlive:
                V("resume:live-set-incomplete",
                  f"{None if lp is None else lp.size} live points, "
                  f"nlive={self.nlive}, iteration {self.iteration}")
            elif len(set(row_bytes(lp))) != lp.size:
                V("resume:live-set-has-duplicates",
                  f"{lp.size - len(set(row_bytes(lp)))} duplicated rows")
        # internal consistency of the restored counts
        if not self.finalised:
            if len(self.state.logLs) != n + 1 or \
                    len(self.insertion_indices) != self.iteration or \
                    n != self.iteration:
                V("resume:counts-disagree" + (
                    "" if getattr(mon, "key_suffix", "") else suffix),
                  f"(it,nested,idx,state)={cur}")
        return None

    wrap(NestedSampler, "nested_sampling_loop", before_loop, None)
    mon.ns_state = st


# --------------------------------------------------------------------------
def summarise(mon, fs):
    ns = fs.ns
    out = {
        "iteration": int(ns.iteration),
        "finalised": bool(ns.finalised),
        "log_evidence": float(fs.logZ) if fs.logZ is not None else None,
        "log_evidence_error": float(fs.logZ_error)
        if getattr(fs, "logZ_error", None) is not None else None,
        "likelihood_evaluations": int(ns.model.likelihood_evaluations),
        "n_nested": int(len(fs.nested_samples))
        if fs.nested_samples is not None else None,
    }
    if hasattr(ns, "history") and ns.history:
        out["n_trainings"] = len(ns.history.get("training_iterations", []))
    if hasattr(ns, "final_p_value"):
        out["final_p_value"] = ns.final_p_value
    return out


def second_run(mon, fs, job, run_kwargs):
    raise NotImplementedError


POST = {}
INSTALLERS = {
    "started": install_started,
    "ns": install_ns,
}


def install(mon, names):
    install_started(mon)
    for n in names:
        if n == "started":
            continue
        INSTALLERS[n](mon)


# --------------------------------------------------------------------------
# Monitor "ins": every stored INS sample carries the exact meta-proposal
# density and weight (C03); also records training-set sizes (C17) and the
# per-iteration criteria (C15).
def _logit_ref(x, eps):
    """Independent logit + log-Jacobian (sum over dimensions)."""
    if eps:
        x = np.clip(x, eps, 1 - eps)
    with np.errstate(divide="ignore", invalid="ignore"):
        lx = np.log(x)
        l1 = np.log1p(-x)
    return lx - l1, (-lx - l1).sum(axis=1)


def check_ins_store(mon, sampler, store, name, where):
    from scipy.special import logsumexp
    from nessai import config as ncfg

    V = mon.violation
    model = mon.model
    s = store.samples
    log_q = store.log_q
    if s is None:
        return
    N = s.size
    mon.count("ins.store_checks")
    mon.count("ins.rows_checked", int(N))
    key = f"{name}@{where}"
    if log_q is None or log_q.shape[0] != N:
        V(f"log_q-rows!=samples:{key}",
          f"log_q {None if log_q is None else log_q.shape} samples {N}")
        return
    prop = sampler.proposal
    clip_requested = bool((mon.job.get("kwargs") or {}).get("clip", False))
    weights = dict(prop.weights)
    n_prop = len(weights)
    if log_q.shape[1] != n_prop:
        V(f"log_q-columns!=proposals:{key}", f"{log_q.shape} vs {n_prop}")
        return
    x = np.array(model.unstructured_view(s), dtype=float)
    if np.any(x < 0) or np.any(x > 1) or np.isnan(x).any():
        V(f"sample-outside-unit-hypercube:{key}", "")

    # likelihood faithful to the model
    phys = model.from_unit_hypercube(s)
    with model.quiet():
        ll_ref = np.asarray(model._log_l(phys), dtype=float)
    ulps = 0 if getattr(model, "exact", True) else 4
    stored = s["logL"].astype(float)
    if ulps:
        with np.errstate(invalid="ignore"):
            bad = ~((stored == ll_ref) | (
                np.abs(stored - ll_ref) <= ulps * np.spacing(np.abs(ll_ref))))
    else:
        bad = ~(stored == ll_ref)
    if bad.any():
        i = int(np.argmax(bad))
        V(f"stored-logL!=model:{key}",
          f"{int(bad.sum())} rows, first {i}: {stored[i]!r} vs {ll_ref[i]!r}")
    # proposal weights = fraction of samples drawn from each proposal
    its = s["it"].astype(int)
    counts = np.bincount(its + 1, minlength=n_prop)
    if counts.size != n_prop:
        V(f"sample-from-unknown-proposal:{key}", f"it max {its.max()}")
        return
    w = np.array([weights[k] for k in sorted(weights)], dtype=float)
    if sorted(weights) != list(range(-1, n_prop - 1)):
        V(f"proposal-weight-keys:{key}", f"{sorted(weights)}")
        return
    if abs(w.sum() - 1.0) > 1e-12:
        V(f"proposal-weights-sum!=1:{key}", f"sum={w.sum()!r}")
    if np.abs(w - counts / N).max() > 1e-12:
        V(f"proposal-weights!=sample-fractions:{key}",
          f"weights {w.tolist()} fractions {(counts / N).tolist()}")
    # per-proposal densities re-evaluated from the saved flows
    if np.any(log_q[:, 0] != 0.0):
        V(f"log_q[prior-column]!=0:{key}", "")
    rep = prop.reparameterisation
    if rep == "logit":
        xp, log_j = _logit_ref(x, ncfg.general.eps)
    else:
        xp, log_j = x.copy(), np.zeros(N)
    flows = prop.flow
    if flows.n_models != n_prop - 1:
        V(f"n-flows!=n-proposals-1:{key}", f"{flows.n_models} vs {n_prop}")
        return
    on_edge = np.any((x == 0.0) | (x == 1.0), axis=1)
    # nessai clamps the logit to [eps, 1-eps]: a sample the flow generated
    # beyond that (|x'| > ~18.4) lies in the region where the rescaling is no
    # longer the logit map; the density "at that sample" is not defined by
    # the property there (the flow's tails differ by tens of nats between
    # the clamped and the generated point), so such rows are not compared
    if rep == "logit" and ncfg.general.eps:
        e2 = 2.0 * ncfg.general.eps
        clamped = np.any((x <= e2) | (x >= 1.0 - e2), axis=1)
        mon.count("ins.rows_in_logit_clamp_region", int(clamped.sum()))
    else:
        clamped = np.zeros(N, dtype=bool)
    for j in range(flows.n_models):
        with np.errstate(all="ignore"):
            ref = flows.log_prob_ith(xp, j) + log_j
        got = log_q[:, j + 1]
        both_ninf = np.isneginf(ref) & np.isneginf(got)
        tol = 1e-3 + 1e-5 * np.abs(ref)
        with np.errstate(invalid="ignore"):
            ok = both_ninf | (np.abs(got - ref) <= tol)
        # a sample exactly on the clamp boundary of the logit is singular
        ok |= ~np.isfinite(log_j)
        ok |= clamped
        if not ok.all():
            i = int(np.argmax(~ok))
            kind = ""
            if np.all(on_edge[~ok]):
                # every disagreeing row is a sample that was clipped onto
                # the boundary of the unit hypercube (recorded finding for
                # runs that ask for clip=True; a proposal that clips without
                # having been asked to is something else)
                kind = ":clipped-sample" if clip_requested else \
                    ":clipped-sample-although-clip-not-requested"
            V(f"log_q!=flow-density{kind}:{key}",
              f"flow {j}: {int((~ok).sum())} rows, first {i}: stored "
              f"{got[i]!r} recomputed {ref[i]!r} (it={its[i]})")
            break
    # meta proposal and weight.  After a resume without a saved density table
    # the table is re-derived from the float32 flows: float32 accuracy there.
    stale = where == "resume" or mon.flags.get("ins_logq_stale", False)
    tol_q = 1e-10 if not stale else None
    with np.errstate(all="ignore"):
        logQ = logsumexp(log_q, b=w, axis=1)
    dq = np.abs(s["logQ"] - logQ)
    lim = tol_q if tol_q is not None else 1e-4 + 1e-5 * np.abs(logQ)
    with np.errstate(invalid="ignore"):
        badq = ~((s["logQ"] == logQ) | (dq <= lim))
    if stale:
        # re-derived table: rows in the clamp region of the logit got a
        # different (clamped-point) density than the one they were drawn with
        badq &= ~clamped
    if badq.any() and clip_requested and np.all(on_edge[badq]):
        # recorded finding (clip=True): a sample clipped onto a face of the
        # unit hypercube keeps the density of the unclipped point; once the
        # table has been re-derived at the clipped point (resume) the same
        # defect shows in the stored logQ of exactly those rows
        i = int(np.argmax(badq))
        V(f"log_q!=flow-density:clipped-sample:{key}:stored-logQ",
          f"row {i}: stored logQ {s['logQ'][i]!r}, mixture of the table "
          f"{logQ[i]!r} (x={x[i].tolist()}, {int(badq.sum())} rows, all on "
          f"a face of the unit hypercube)")
    elif badq.any() or np.any(np.isnan(s["logQ"])):
        i = int(np.argmax(badq))
        V(f"logQ!=mixture-of-log_q:{key}",
          f"row {i}: stored {s['logQ'][i]!r} recomputed {logQ[i]!r} "
          f"(it={its[i]}, x={x[i].tolist()}, in clamp region: "
          f"{bool(clamped[i])}, {int(badq.sum())} rows)")
    lu = s["logU"]
    if hasattr(model, "ref_log_prior_unit"):
        # model with its own (non-uniform) prior on the unit hypercube
        lu_ref = model.ref_log_prior_unit(s)
    else:
        lu_ref = np.where(np.any((x < 0) | (x >= 1), axis=1), -np.inf, 0.0)
    if np.any(lu != lu_ref):
        i = int(np.argmax(lu != lu_ref))
        V(f"logU!=unit-hypercube-prior:{key}",
          f"row {i}: stored {lu[i]!r} model {lu_ref[i]!r}")
    with np.errstate(invalid="ignore"):
        w_ref = lu - s["logQ"]
        badw = ~((s["logW"] == w_ref) | (np.abs(s["logW"] - w_ref) <= 1e-10))
    if badw.any() or np.any(np.isnan(s["logW"])):
        V(f"logW!=logU-logQ:{key}", "")
    if n_prop >= 3:
        mon.classes.add("ins:>=2-flows-checked")


def install_ins(mon):
    from nessai.samplers.importancesampler import ImportanceNestedSampler
    from nessai.proposal.importance import ImportanceFlowProposal

    def check_all(self, where):
        check_ins_store(mon, self, self.training_samples, "training", where)
        if self.iid_samples is not None:
            check_ins_store(mon, self, self.iid_samples, "iid", where)

    def after_update(self, _t, _r):
        mon.count("ins.iterations")
        # logQ of every stored sample was recomputed from the current table
        mon.flags["ins_logq_stale"] = False
        check_all(self, "iteration")

    wrap(ImportanceNestedSampler, "update_evidence", None, after_update)

    def after_finalise(self, _t, _r):
        check_all(self, "finalise")

    wrap(ImportanceNestedSampler, "finalise", None, after_finalise)

    st = {"checked_resume": False}

    def before_loop(self):
        if getattr(self, "resumed", False) and not st["checked_resume"]:
            st["checked_resume"] = True
            mon.count("ins.resumes")
            mon.classes.add("resumed")
            # without a saved density table it is re-derived from the float32
            # flows, while the stored logQ still comes from the old table
            # until the next iteration recomputes it
            mon.flags["ins_logq_stale"] = not getattr(
                self.training_samples, "save_log_q", False)
            if self.iteration > 0 and self.training_samples.samples is not \
                    None:
                check_all(self, "resume")

    wrap(ImportanceNestedSampler, "nested_sampling_loop", before_loop, None)

    # C17: size of every training set
    sizes = mon.data.setdefault("training_sizes", [])

    def before_train(self, samples, *a, **k):
        sizes.append(int(len(samples)))

    wrap(ImportanceFlowProposal, "train", before_train, None)

    def after_construct(fs):
        ns = fs.ns
        mon.data["min_samples"] = int(getattr(ns, "min_samples", -1))
        mon.data["nlive"] = int(ns.nlive)

    mon.after_construct_hooks.append(after_construct)


INSTALLERS["ins"] = install_ins


# --------------------------------------------------------------------------
# Monitor "ins_levels": every threshold chosen during a real run honours the
# *configured* min_samples / min_remove / max_samples (C17, run level).  The
# values come from the job's keyword arguments, not from the sampler, so a
# sampler that forgets its configuration (e.g. across a resume) is noticed.
def install_ins_levels(mon):
    from nessai.samplers.importancesampler import ImportanceNestedSampler

    kw = mon.job.get("kwargs") or {}
    ms = kw.get("min_samples")
    mr = int(kw.get("min_remove", 1))
    mx = kw.get("max_samples")
    dc = bool(kw.get("draw_constant", True))
    nlive = kw.get("nlive")
    rec = mon.data.setdefault("ins_levels", {"n": 0, "cap_binding": 0})

    def before(self, samples, *a, **k):
        return np.array(samples["logL"], dtype=float, copy=True)

    def after(self, logL, thr):
        V = mon.violation
        rec["n"] += 1
        mon.count("ins_levels.thresholds")
        size = len(logL)
        try:
            thr_f = float(thr)
        except Exception:
            V("runs:threshold-not-a-number", repr(thr))
            return
        K = np.flatnonzero(logL == thr_f)
        if K.size == 0:
            V("runs:threshold-not-a-live-likelihood",
              f"it={self.iteration}: {thr_f!r} is not the likelihood of one "
              f"of the {size} live samples")
            return
        k_lo, k_hi = int(K[0]), int(K[-1])
        info = (f"it={self.iteration} size={size} threshold index in "
                f"[{k_lo},{k_hi}] configured min_samples={ms} "
                f"min_remove={mr} max_samples={mx} nlive={nlive} "
                f"draw_constant={dc}")
        cap_on = dc and mx is not None and nlive is not None
        if cap_on:
            if size - k_hi + nlive > mx:
                V("runs:cap:next-level>max_samples", info)
            if size - max(k_lo - 1, 0) + nlive > mx:
                rec["cap_binding"] += 1
                mon.classes.add("ins_levels:cap-binding")
        if ms is not None:
            # at least min_remove go, unless keeping min_samples forbids it
            if not (k_hi >= mr or size - k_lo <= ms):
                V("runs:min_remove:removed<min_remove", info)
            # never fewer than min_samples kept (given that many exist),
            # unless the cap demands it - or exactly min_remove were removed:
            # when the method's own choice leaves at least min_samples the
            # property's "otherwise at least min_remove are removed" applies,
            # whatever that leaves (min_samples + min_remove > size)
            if size >= ms and size - k_lo < ms and not (
                    cap_on and size - k_lo + nlive >= mx) and not (
                    k_lo <= mr <= k_hi):
                V("runs:min_samples:kept<min_samples", info)
        if getattr(self, "resumed", False) or mon.flags.get("ins_resumed"):
            mon.classes.add("ins_levels:after-resume")

    wrap(ImportanceNestedSampler, "determine_log_likelihood_threshold",
         before, after)

    def before_loop(self):
        if getattr(self, "resumed", False):
            mon.flags["ins_resumed"] = True

    wrap(ImportanceNestedSampler, "nested_sampling_loop", before_loop, None)


INSTALLERS["ins_levels"] = install_ins_levels


def _post_results(mon, fs, job):
    from . import post

    post.results(mon, fs, job)


POST["results"] = _post_results


def _post_saved_results(mon, fs, job):
    from . import post_saved

    post_saved.saved_results(mon, fs, job)


POST["saved_results"] = _post_saved_results


# --------------------------------------------------------------------------
# Monitor "ns_stop": stopping rule of the standard sampler (C15)
def install_ns_stop(mon):
    from nessai.samplers.nestedsampler import NestedSampler

    rec = mon.data.setdefault("ns_stop", {"n": 0})
    st = {"logZ": None, "n_done": 0, "conds": [], "last_live_max": None}

    def log_width(k, n, expectation):
        # log(X_{k-1} - X_k) for constant n
        if expectation == "logt":
            lt = -1.0 / n
        else:
            lt = -np.log1p(1.0 / n)
        return (k - 1) * lt + np.log(-np.expm1(lt))

    def before(self):
        lp = self.live_points
        return None if lp is None else float(lp["logL"].max())

    def after(self, lmax_before, _):
        V = mon.violation
        n = self.nlive
        i = self.iteration  # iterations completed, = index of removed point
        ns_ = self.nested_samples
        if st["logZ"] is None or st["n_done"] != i - 1:
            # (re)start the independent accumulator from the dead points
            lz = -np.inf
            for k in range(1, i):
                lz = np.logaddexp(lz, float(ns_[k - 1]["logL"]) + log_width(
                    k, n, self.state.expectation))
            st["logZ"] = lz
        st["logZ"] = np.logaddexp(
            st["logZ"], float(ns_[i - 1]["logL"]) + log_width(
                i, n, self.state.expectation))
        st["n_done"] = i
        lz = st["logZ"]
        lmax_after = float(self.live_points["logL"].max())
        lo = np.logaddexp(lz, lmax_before - i / float(n)) - lz
        hi = np.logaddexp(lz, lmax_after - (i - 1) / float(n)) - lz
        c = float(self.condition)
        tol = 1e-9 * max(1.0, abs(hi))
        if not (lo - tol <= c <= hi + tol):
            V("condition!=log(1+Lmax*X/Z)",
              f"it={i}: recorded {c!r}, definition gives [{lo!r}, {hi!r}]")
        st["conds"].append((int(i), c))
        mon.count("ns_stop.iterations")

    wrap(NestedSampler, "consume_sample", before, after)

    def after_loop(self, _t, _r):
        V = mon.violation
        conds = st["conds"]
        tol = self.tolerance
        rec["n"] = max(rec.get("n", 0), len(conds))
        if conds and not rec.get("conds"):
            rec["conds"] = [[int(i), float(c)] for i, c in conds]
        rec["tolerance"] = float(tol)
        rec["max_iteration"] = None if not np.isfinite(self.max_iteration) \
            else int(self.max_iteration)
        if st.get("start_met") and conds:
            V("continued-although-condition<=tolerance@resume",
              f"resumed at iteration {st.get('start_iteration')} with "
              f"condition {st.get('start_condition')!r} <= {tol!r}, but "
              f"{len(conds)} further iteration(s) were performed")
        if not conds:
            return
        for it, c in conds[:-1]:
            if not c > tol:
                V("continued-although-condition<=tolerance",
                  f"it={it}: condition {c!r} <= {tol!r} but the run went on "
                  f"to iteration {conds[-1][0]}")
                break
        it, c = conds[-1]
        rec["last"] = [it, c]
        if c > tol and it < self.max_iteration:
            V("stopped-although-condition>tolerance",
              f"it={it}: condition {c!r} > {tol!r}, cap {self.max_iteration}")
        if c <= tol:
            mon.classes.add("stopped-by-tolerance")
            if not self.finalised:
                V("tolerance-reached-but-not-finalised", f"it={it}")
        else:
            mon.classes.add("stopped-by-cap")
        if it > self.max_iteration:
            pre = "rerun-of-capped-run:" if st.get("start_capped") else ""
            V(pre + "iteration-cap-exceeded",
              f"{it} > {self.max_iteration} (loop entered at iteration "
              f"{st.get('start_iteration')})")
        # history reports the compared values
        h = self.history
        byit = dict(conds)
        for hit, hval in zip(h["iterations"], h["dlogZ"]):
            if hit in byit and byit[hit] != hval:
                V("history-dlogZ!=compared-value",
                  f"it={hit}: history {hval!r} compared {byit[hit]!r}")
                break

    def before_loop(self):
        # (conditions recorded by an earlier call of the loop in this process
        # were judged when that call returned)
        st["conds"] = []
        st["start_iteration"] = int(self.iteration)
        st["start_capped"] = bool(
            self.iteration >= self.max_iteration and not self.finalised)
        # a state restored from the checkpoint of the stopping iteration
        # (process died before the run was finalised): the rule is already
        # met, so the loop must not iterate again
        st["start_condition"] = float(self.condition)
        st["start_met"] = bool(
            self.iteration > 0 and not self.finalised
            and self.condition <= self.tolerance)
        if st["start_met"]:
            mon.classes.add("resumed-with-rule-met")

    wrap(NestedSampler, "nested_sampling_loop", before_loop, after_loop)


INSTALLERS["ns_stop"] = install_ns_stop


# --------------------------------------------------------------------------
# Monitor "ins_stop": stopping rule of the importance sampler (C15)
def install_ins_stop(mon):
    from scipy.special import logsumexp
    from nessai.samplers.importancesampler import ImportanceNestedSampler

    rec = mon.data.setdefault("ins_stop", {})
    st = {"crit": [], "prev_logZ": None, "all": []}

    def after_crit(self, _t, result):
        V = mon.violation
        s = self.samples_unit
        lw = (s["logL"] + s["logW"]).astype(float)
        N = lw.size
        logZ = float(logsumexp(lw) - np.log(N))
        # standard definitions recomputed from the samples
        lp = lw - logsumexp(lw)
        ess = float(np.exp(-logsumexp(2 * lp)))
        # se(Z)/Z with every term scaled by the estimate itself, so that the
        # reference does not depend on the magnitude of the likelihood
        r = np.exp(lw - logZ)
        frac = float(np.sqrt(np.sum((r - 1.0) ** 2) / (N * (N - 1.0))))
        if lw.max() < -700.0:
            mon.classes.add("ins_stop:weights-below-float64-exp-range")
        it = int(self.iteration)
        if st["prev_logZ"] is None or it == 0:
            dz = np.inf
        else:
            dz = abs(logZ - st["prev_logZ"])
        st["prev_logZ"] = logZ

        def close(a, b, rel):
            if a == b:
                return True
            return np.isfinite(a) and np.isfinite(b) and \
                abs(a - b) <= rel * max(1.0, abs(a), abs(b))

        if not close(float(self.ess), ess, 1e-8):
            V("ess!=kish-ess-of-posterior-weights",
              f"it={it}: {float(self.ess)!r} vs {ess!r}")
        if st.get("have_prev") and not close(float(self.log_dZ), dz, 1e-8) \
                and not (abs(float(self.log_dZ) - dz) <= 1e-10):
            V("log_dZ!=|change-of-logZ|",
              f"it={it}: {float(self.log_dZ)!r} vs {dz!r}")
        st["have_prev"] = True
        if not close(float(self.fractional_error), frac, 1e-7):
            V("fractional_error!=se(Z)/Z",
              f"it={it}: {float(self.fractional_error)!r} vs {frac!r}")
        # documented in nessai: sigma[ln Z] = |sigma[Z] / Z| and
        # Z_err = exp(sigma[ln Z])
        if not close(float(self.Z_err), float(np.exp(frac)), 1e-7):
            V("Z_err!=exp(se(Z)/Z)",
              f"it={it}: {float(self.Z_err)!r} vs {float(np.exp(frac))!r}")
        vals = {k: float(getattr(self, k)) for k in
                self.stopping_criterion_aliases}
        st["all"].append(vals)
        # kept across the processes of a history: the values the criteria
        # had once `it + 1` iterations were complete
        mon.shadow({"t": "ins_crit", "after": it + 1,
                    "vals": {k: (v if np.isfinite(v) else repr(v))
                             for k, v in vals.items()}})
        crit = [float(c) for c in result]
        if crit != [vals[k] for k in self.stopping_criterion]:
            V("criterion-list!=configured-criteria", f"it={it}")
        st["crit"].append(crit)
        mon.count("ins_stop.iterations")

    wrap(ImportanceNestedSampler, "compute_stopping_criterion", None,
         after_crit)

    def before_loop(self):
        st["start_iteration"] = int(self.iteration)
        st["was_finalised"] = bool(self.finalised)
        # values of the criteria at the iteration this process starts from:
        # as recorded by the process that computed them (a restored state
        # need not hold them all), else as found on the sampler
        sv = None
        for r in mon.load_shadow():
            if r.get("t") == "ins_crit" and r["after"] == int(self.iteration):
                sv = {k: float(v) for k, v in r["vals"].items()}
        if sv is None:
            try:
                sv = {k: float(getattr(self, k)) for k in
                      self.stopping_criterion_aliases}
            except Exception:  # attribute missing before initialisation
                sv = None
        st["start_vals"] = sv

    def after_loop(self, _t, _r):
        V = mon.violation
        if st["was_finalised"]:
            return
        K = int(self.iteration)
        tol = [float(t) for t in self.tolerance]
        any_ = bool(self._stop_any)
        crit = st["crit"]
        start = st["start_iteration"]
        if st["all"] and not rec.get("values"):
            rec["values"] = [{k: (v if np.isfinite(v) else repr(v))
                              for k, v in d.items()} for d in st["all"]]
        rec.update({"K": K, "tolerance": tol, "any": any_,
                    "criteria": list(self.stopping_criterion),
                    "n_recorded": len(crit),
                    "min_iteration": int(self.min_iteration),
                    "max_iteration": None if not np.isfinite(
                        self.max_iteration) else int(self.max_iteration)})
        if K - start != len(crit):
            V("iterations!=criterion-evaluations",
              f"{K}-{start} vs {len(crit)}")
            return

        # The rule is evaluated from the *configured* criteria, tolerances
        # and any/all (job kwargs), resolved with the documented alias table,
        # against the values recorded per canonical criterion - not from the
        # sampler's own parsed configuration.
        ALIASES = {"ratio": "ratio", "ratio_all": "ratio",
                   "ratio_ns": "ratio_ns", "Z_err": "Z_err",
                   "evidence_error": "Z_err", "log_dZ": "log_dZ",
                   "log_evidence": "log_dZ", "ess": "ess",
                   "fractional_error": "fractional_error"}
        kw = mon.job.get("kwargs", {})
        u_crit = kw.get("stopping_criterion", "ratio")
        u_tol = kw.get("tolerance", 0.0)
        if isinstance(u_crit, str):
            u_crit = [u_crit]
        if not isinstance(u_tol, list):
            u_tol = [u_tol]
        u_any = kw.get("check_criteria", "any") == "any"
        u_names = [ALIASES.get(c) for c in u_crit]
        usable = all(n is not None for n in u_names) and \
            len(u_names) == len(u_tol)
        rec["configured"] = {"criteria": u_names, "tolerance": u_tol,
                             "any": u_any}
        if usable:
            if [float(t) for t in u_tol] != tol or \
                    u_names != list(self.stopping_criterion) or \
                    u_any != any_:
                V("configured-criteria!=criteria-in-use",
                  f"configured {list(zip(u_names, u_tol))} "
                  f"{'any' if u_any else 'all'}; sampler uses "
                  f"{list(zip(self.stopping_criterion, tol))} "
                  f"{'any' if any_ else 'all'}")
            crit = [[v[n] for n in u_names] for v in st["all"]]
            tol = [float(t) for t in u_tol]
            any_ = u_any

        def reached(c):
            flags = [ci <= ti for ci, ti in zip(c, tol)]
            return any(flags) if any_ else all(flags)

        mn = self.min_iteration
        # a state restored from the checkpoint of the stopping iteration (the
        # process died before the run was finalised): the configured rule is
        # already met at or beyond the minimum (under both ways of counting),
        # so no further iteration may be performed
        sv = st.get("start_vals")
        met_at_start = False
        if usable and start >= 1 and sv is not None:
            c0 = [sv[n] for n in u_names]
            met_at_start = reached(c0) and start >= mn
            if reached(c0) and (start - 1) >= mn:
                mon.classes.add("resumed-with-rule-met")
                if K > start:
                    V("continued-although-criteria-met@resume",
                      f"resumed after {start} iterations with the configured "
                      f"criteria met ({list(zip(u_names, c0))} vs {tol}), "
                      f"but ran on to {K}")
        if K == start and start >= 1:
            # no iteration in this process: only legitimate when the restored
            # state already met the rule or sat at the cap
            if not met_at_start and not K >= self.max_iteration and usable:
                V("stopped-although-criteria-not-met@resume",
                  f"resumed after {start} iterations and stopped at once; "
                  f"restored criteria {sv} vs {list(zip(u_names, tol))}")

        # completed-iteration count j (1-based) after evaluating crit[j-1-start]
        def first_stop(offset):
            for idx, c in enumerate(crit):
                j = start + idx + 1
                if reached(c) and (j - offset) >= mn:
                    return j
            return None

        allowed = {first_stop(0), first_stop(1)}
        capped = K >= self.max_iteration
        if capped:
            mon.classes.add("stopped-by-cap")
            # must not have passed an earlier stop
            early = [a for a in allowed if a is not None and a < K]
            if len(early) == 2 or (early and first_stop(0) is not None
                                   and first_stop(0) < K):
                V("continued-although-criteria-met",
                  f"criteria met after {first_stop(0)} iterations, ran {K}")
        else:
            mon.classes.add("stopped-by-tolerance")
            if K == start and start >= 1:
                pass  # judged above (no iteration in this process)
            elif K not in allowed:
                V("stop-iteration!=first-iteration-meeting-criteria",
                  f"stopped after {K}, criteria first met after "
                  f"{sorted(a for a in allowed if a is not None)} "
                  f"(min_iteration={mn})")
        if K > self.max_iteration:
            V("iteration-cap-exceeded", f"{K} > {self.max_iteration}")
        # history reports the compared values
        hsc = self.history["stopping_criteria"]
        for k in self.stopping_criterion_aliases:
            got = [float(v) for v in hsc[k][start:K]]
            exp = [v[k] for v in st["all"]]
            same = len(got) == len(exp) and all(
                (a == b) or (np.isnan(a) and np.isnan(b))
                for a, b in zip(got, exp))
            if not same:
                V("history-criterion!=compared-value", f"criterion {k}")
                break
        # every remaining live point consumed exactly once
        for name, store in (("training", self.training_samples),
                            ("iid", self.iid_samples)):
            if store is None:
                continue
            idx = np.asarray(store.nested_samples_indices)
            if store.live_points_indices is not None or \
                    idx.size != store.samples.size or \
                    not np.array_equal(np.sort(idx),
                                       np.arange(store.samples.size)):
                V(f"finalise:live-points-not-consumed-once:{name}",
                  f"{idx.size} discarded indices for {store.samples.size} "
                  "samples")

    wrap(ImportanceNestedSampler, "nested_sampling_loop", before_loop,
         after_loop)


INSTALLERS["ins_stop"] = install_ins_stop


# --------------------------------------------------------------------------
# Post analyser "idem": result digest; compared with the digest recorded by an
# earlier step of the same history (resume after finish) and with a second
# run() in the same process.
def result_digest(fs):
    ns = fs.ns
    nested = np.asarray(fs.nested_samples)
    # the fields that make up a nested sample of this sampler; extra
    # live-point fields that another sampler registered earlier in the same
    # process (module-level registry) are not part of the result
    core = list(ns.model.names) + ["logP", "logL", "it"]
    if type(ns).__name__ == "ImportanceNestedSampler":
        core += ["logW", "logQ", "logU"]
    hs = hashlib.sha1()
    for name in core:
        if name in (nested.dtype.names or ()):
            hs.update(name.encode())
            hs.update(np.ascontiguousarray(nested[name]).tobytes())
        else:
            hs.update(("missing:" + name).encode())
    post_w = np.ascontiguousarray(np.asarray(
        ns.state.log_posterior_weights, dtype=float))
    return {
        "nested": hs.hexdigest()[:16],
        "n": int(nested.size),
        "log_evidence": repr(float(fs.log_evidence)),
        "log_evidence_error": repr(float(fs.log_evidence_error)),
        "weights": h(post_w.tobytes()),
        "evaluations": int(ns.model.likelihood_evaluations),
    }


def _post_idem(mon, fs, job):
    V = mon.violation
    d1 = result_digest(fs)
    path = os.path.join(mon.hdir, "final_digest.json")
    ns = fs.ns
    capped = (not job.get("ins")) and (not ns.finalised) and \
        ns.iteration >= ns.max_iteration
    pre = "rerun-of-capped-run:" if capped else ""
    if capped:
        mon.classes.add("capped-standard-run")
    if os.path.exists(path):
        d0 = json.load(open(path))
        # a run that stopped at its cap iterates once more every time it is
        # run again (recorded finding) and may thereby reach its tolerance
        # and finalise: what changes then still belongs to that finding
        if d0.pop("__capped__", False):
            pre = "rerun-of-capped-run:"
        mon.classes.add("resumed-after-finish")
        for k in d0:
            if d0[k] != d1[k]:
                V(f"{pre}resume-after-finish:{k}-changed",
                  f"{d0[k]} -> {d1[k]}")
        if pre:
            with open(path, "w") as f:
                json.dump(dict(d0, __capped__=True), f)
    else:
        with open(path, "w") as f:
            json.dump(dict(d1, __capped__=bool(capped)), f)
    calls0 = mon.model.points
    try:
        fs.run(**dict({"plot": False}, **job.get("run_kwargs", {})))
    except Exception as e:  # raised by nessai: running again must be a no-op
        from .driver import _innermost_nessai_frame

        mon.classes.add("second-run")
        V(f"{pre}second-run:exception:{type(e).__name__}@"
          f"{_innermost_nessai_frame(e.__traceback__)}",
          f"running a finished run again raised {type(e).__name__}: {e}")
        mon.data["digest"] = d1
        return
    d2 = result_digest(fs)
    mon.classes.add("second-run")
    for k in d1:
        if d1[k] != d2[k]:
            V(f"{pre}second-run:{k}-changed", f"{d1[k]} -> {d2[k]}")
    if mon.model.points != calls0:
        V(f"{pre}second-run:likelihood-was-evaluated",
          f"{mon.model.points - calls0} points")
    mon.data["digest"] = d1


POST["idem"] = _post_idem


def _post_digest(mon, fs, job):
    mon.data["digest"] = result_digest(fs)


def _post_repeat(mon, fs, job):
    """Same configuration a second time in the same process (fresh model,
    fresh output directory): results must be bit-identical."""
    from nessai.flowsampler import FlowSampler
    from .models import make_model

    d1 = result_digest(fs)
    mon.data["digest"] = d1
    model2 = make_model(job["model"])
    kwargs = decode_kwargs(job.get("kwargs", {}), mon)
    fs2 = FlowSampler(
        model2, output=job["output"].rstrip("/") + "_rep",
        importance_nested_sampler=bool(job.get("ins")), resume=False,
        **kwargs)
    fs2.run(**dict({"plot": False}, **job.get("run_kwargs", {})))
    d2 = result_digest(fs2)
    mon.classes.add("repeated-in-process")
    for k in d1:
        if d1[k] != d2[k]:
            mon.violation(f"same-process-repeat:{k}-differs",
                          f"{d1[k]} vs {d2[k]}")


POST["digest"] = _post_digest
POST["repeat"] = _post_repeat


# --------------------------------------------------------------------------
# Monitor "ckpt": digest of the sampler at every checkpoint write and at the
# moment a restored sampler is about to continue (C11, C12, C13)
def sampler_digest(sampler):
    from . import digest as D
    from nessai.samplers.nestedsampler import NestedSampler

    skip = set()
    d = {}
    state = dict(vars(sampler))
    if isinstance(sampler, NestedSampler):
        active = state.pop("proposal", None)
        if active is None:
            d["active_proposal"] = "None"
        elif active is state.get("_flow_proposal"):
            d["active_proposal"] = "flow"
        elif active is state.get("_uninformed_proposal"):
            # At an iteration boundary with iteration >= maximum_uninformed
            # the running sampler switches to the flow proposal in its next
            # check_state(), before any draw; a restored sampler selects the
            # flow proposal directly.  Both are the same observable state.
            d["active_proposal"] = "uninformed" if (
                sampler.iteration < sampler.maximum_uninformed) else "flow"
        else:
            d["active_proposal"] = "other"
    for k in sorted(state):
        if k in D.EXCLUDE_NAMES or k in skip:
            continue
        D.flat(state[k], k, d)
    weights = {}
    for name in ("_flow_proposal", "proposal"):
        p = getattr(sampler, name, None)
        fl = getattr(p, "flow", None)
        if fl is not None:
            for k, v in D.flow_weights(fl).items():
                weights[f"{name}.{k}"] = v
    return d, weights


def install_ckpt(mon):
    import nessai.samplers.base as base
    from nessai.model import Model
    from nessai.samplers.nestedsampler import NestedSampler
    from nessai.samplers.importancesampler import ImportanceNestedSampler
    from . import digest as D

    path = os.path.join(mon.hdir, "ckpt.jsonl")
    st = {"serial": 0, "tally": 0, "resumed_evals": None}
    info = mon.data.setdefault("ckpt", {})
    if os.path.exists(path):
        with open(path) as f:
            for line in f:
                try:
                    st["serial"] = max(st["serial"],
                                       json.loads(line)["serial"])
                except ValueError:
                    pass

    def last_records(n=2):
        recs = []
        if os.path.exists(path):
            with open(path) as f:
                for line in f:
                    try:
                        recs.append(json.loads(line))
                    except ValueError:
                        pass
        return recs[-n:]

    prev_dump = base.safe_file_dump

    def dump(obj, filename, *a, **k):
        if isinstance(obj, base.BaseNestedSampler):
            st["serial"] += 1
            d, w = sampler_digest(obj)
            rec = {
                "serial": st["serial"], "pid": os.getpid(),
                "iteration": int(obj.iteration), "digest": d, "weights": w,
                "evals": int(obj.model.likelihood_evaluations),
                "sampling_time": obj.sampling_time.total_seconds(),
                "mid": bool(mon.in_consume or mon.in_finalise),
                "finalised": bool(obj.finalised),
            }
            if isinstance(obj, ImportanceNestedSampler):
                for nm in ("training_samples", "iid_samples"):
                    store = getattr(obj, nm, None)
                    if store is not None and store.log_q is not None:
                        np.save(os.path.join(
                            mon.hdir, f"logq_{st['serial']}_{nm}.npy"),
                            store.log_q)
            with open(path, "a") as f:
                f.write(json.dumps(rec) + "\n")
            mon.count("ckpt.writes")
            info["last_serial"] = st["serial"]
        ret = prev_dump(obj, filename, *a, **k)
        if isinstance(obj, ImportanceNestedSampler):
            import hashlib

            try:
                mon.data["resume_file"] = filename
                mon.data["resume_file_sha_last_checkpoint"] = hashlib.sha1(
                    open(filename, "rb").read()).hexdigest()[:16]
            except OSError:
                pass
        return ret

    base.safe_file_dump = dump

    # hashes of the weights every FlowModel.save_weights call wrote
    from nessai.flowmodel.base import FlowModel

    wpath = os.path.join(mon.hdir, "weights.jsonl")

    def before_save(self, *a, **k):
        # recorded *before* the write: a process killed inside save_weights
        # may leave a complete new file behind
        import hashlib

        hsh = hashlib.sha1()
        for k, v in sorted(self.model.state_dict().items()):
            hsh.update(k.encode())
            hsh.update(v.detach().cpu().numpy().tobytes())
        with open(wpath, "a") as f:
            f.write(json.dumps({"h": hsh.hexdigest()[:16]}) + "\n")

    wrap(FlowModel, "save_weights", before_save, None)

    # The weights file a training leaves behind holds the flow the run
    # continues with (a resumed process loads the file, the running process
    # uses the flow in memory).
    def before_train(self, *a, **k):
        return len(saved_weight_hashes())

    def after_train(self, n_before, _):
        import hashlib

        saved = saved_weight_hashes()
        if len(saved) <= n_before or getattr(self, "model", None) is None:
            return
        hsh = hashlib.sha1()
        for k, v in sorted(self.model.state_dict().items()):
            hsh.update(k.encode())
            hsh.update(v.detach().cpu().numpy().tobytes())
        mon.count("ckpt.trained_weights_checks")
        if hsh.hexdigest()[:16] != saved[-1]:
            mon.violation(
                "training:weights-file!=flow-in-memory",
                f"{type(self).__name__}.train: the state saved to the "
                "weights file differs from the flow's state when train() "
                "returned")

    wrap(FlowModel, "train", before_train, after_train)

    def saved_weight_hashes():
        out = []
        if os.path.exists(wpath):
            with open(wpath) as f:
                for line in f:
                    try:
                        out.append(json.loads(line)["h"])
                    except ValueError:
                        pass
        return out

    # independent tally of counted likelihood evaluations
    def tally_before(self, x, *a, **k):
        st["tally"] += int(np.size(x))

    wrap(Model, "evaluate_log_likelihood", tally_before, None)
    wrap(Model, "batch_evaluate_log_likelihood", tally_before, None)

    IGNORE_AT_RESUME = (
        # set by check_resume / initialise when re-attaching
        ".log_q",
    )

    def compare(sampler, where):
        V = mon.violation
        # after write faults (C11) the restored state may be any of the last
        # few recorded checkpoints (each fault tears at most one write)
        recs = last_records(6 if mon.job.get("ckpt_allow_previous") else 2)
        mon.count("ckpt.resume_checks")
        if not recs:
            info["resume_without_record"] = True
            return
        if isinstance(sampler, NestedSampler) and \
                recs[-1]["digest"].get("live_points") == "None" and \
                not recs[-1]["finalised"]:
            # checkpoint taken before the initial live points existed: the
            # resumed run legitimately draws them (and evaluates likelihoods)
            # before it reaches this point
            mon.classes.add("resumed-before-live-points")
            st["resumed_evals"] = None
            return
        d, w = sampler_digest(sampler)
        cands = list(reversed(recs))  # newest first
        allowed = mon.job.get("ckpt_allow_previous", False)
        is_ins = isinstance(sampler, ImportanceNestedSampler)
        saved = saved_weight_hashes()

        def weight_diff(rec):
            wdf = D.diff(rec["weights"], w)
            if wdf and not is_ins:
                # The weights file is separate from the checkpoint and is
                # rewritten by every training: the restored flow must be the
                # one of the checkpoint or of a training saved since (or its
                # .old predecessor).  Before the first training nothing was
                # saved and the (unused) initial weights are not observable.
                ok_set = set(saved[-2:])
                trained = rec["digest"].get(
                    "_flow_proposal.training_count", "0") != "0"
                wdf = [(k, a, b) for k, a, b in wdf
                       if trained and b not in ok_set]
            return wdf

        best = None
        for idx, rec in enumerate(cands):
            ign = IGNORE_AT_RESUME
            if not is_ins and rec["digest"].get("history") == "None":
                # the checkpoint was written (by a signal) inside
                # NestedSampler.initialise, whose last step creates the
                # history: the resumed run completes the initialisation
                # before this point
                ign = ign + ("history", "initialised")
                mon.classes.add("resumed-inside-initialise")
            df = D.diff(rec["digest"], d, ignore=ign)
            wdf = weight_diff(rec)
            if best is None or len(df) + len(wdf) < len(best[1]) + len(
                    best[2]):
                best = (rec, df, wdf)
            if not df and not wdf:
                info["resumed_serial"] = rec["serial"]
                info["resumed_is_previous"] = idx > 0
                if idx > 0 and not allowed:
                    V("resume:loaded-stale-checkpoint",
                      f"state equals checkpoint {rec['serial']} but "
                      f"{cands[0]['serial']} was completed later")
                break
            if not allowed:
                break
        rec, df, wdf = best
        info["resumed_iteration"] = int(sampler.iteration)
        if df:
            fields = sorted({k.split("[")[0] for k, _, _ in df})
            V(f"resume:state-differs@{where}:" + ",".join(fields[:4]),
              "; ".join(f"{k}: {a} -> {b}" for k, a, b in df[:6])
              + f" ({len(df)} fields)")
        if wdf:
            V(f"resume:flow-weights-differ@{where}",
              "; ".join(f"{k}: {a} -> {b}" for k, a, b in wdf[:4]))
        ev = int(sampler.model.likelihood_evaluations)
        if ev != rec["evals"]:
            V(f"resume:evaluation-count@{where}",
              f"restored {ev}, checkpoint had {rec['evals']}")
        stime = sampler.sampling_time.total_seconds()
        if abs(stime - rec["sampling_time"]) > 1e-6:
            V(f"resume:sampling-time@{where}",
              f"restored {stime}, checkpoint had {rec['sampling_time']}")
        st["resumed_evals"] = ev
        st["tally"] = 0
        info["evals_at_resume"] = ev
        # re-derived density tables (importance sampler)
        if isinstance(sampler, ImportanceNestedSampler):
            for nm in ("training_samples", "iid_samples"):
                store = getattr(sampler, nm, None)
                fn = os.path.join(mon.hdir,
                                  f"logq_{rec['serial']}_{nm}.npy")
                if store is None or not os.path.exists(fn):
                    continue
                old = np.load(fn)
                new = store.log_q
                if new is None or old.shape != new.shape:
                    V(f"resume:log_q-shape:{nm}",
                      f"{old.shape} vs {None if new is None else new.shape}")
                    continue
                with np.errstate(invalid="ignore"):
                    ok = (old == new) | (
                        np.abs(old - new) <= 1e-3 + 1e-5 * np.abs(old))
                if not ok.all():
                    V(f"resume:log_q-differs:{nm}",
                      f"{int((~ok).sum())} entries beyond float32 accuracy")

    flags = {"ns": False, "ins": False}

    def before_check_resume(self):
        return bool(getattr(self, "resumed", False))

    def after_check_resume(self, was_resumed, _):
        if was_resumed and not flags["ns"]:
            flags["ns"] = True
            mon.classes.add("resumed")
            compare(self, "check_resume")

    wrap(NestedSampler, "check_resume", before_check_resume,
         after_check_resume)

    def before_init(self):
        return bool(getattr(self, "resumed", False))

    def after_init(self, was_resumed, _):
        if was_resumed and not flags["ins"]:
            flags["ins"] = True
            mon.classes.add("resumed")
            compare(self, "initialise")

    wrap(ImportanceNestedSampler, "initialise", before_init, after_init)

    def final_accounting(fs):
        V = mon.violation
        ns = fs.ns
        ev = int(ns.model.likelihood_evaluations)
        if st["resumed_evals"] is not None:
            exp = st["resumed_evals"] + st["tally"]
            if ev != exp:
                V("accounting:evaluations!=checkpoint+batches",
                  f"final {ev}, checkpoint {st['resumed_evals']} + "
                  f"{st['tally']} evaluated since")
        info["final_evals"] = ev
        info["final_sampling_time"] = ns.sampling_time.total_seconds()

    mon.final_accounting = final_accounting


def _post_accounting(mon, fs, job):
    fa = getattr(mon, "final_accounting", None)
    if fa:
        fa(fs)


INSTALLERS["ckpt"] = install_ckpt
POST["accounting"] = _post_accounting


# --------------------------------------------------------------------------
# Monitor "draws": bound on the latent draws of one pool population (C20)
def install_draws(mon):
    from nessai.proposal.flowproposal import FlowProposal

    # bound on the latent draws of ONE pool population.  nessai's own cap for
    # the accumulate-weights loop is 1e6 proposals (+ one batch); the
    # non-accumulating loop has no cap.  2e6 draws is far above the nominal
    # cost (poolsize / acceptance, typically 1e2-1e5).
    limit = int(mon.job.get("draw_limit", 2_000_000))
    st = {"batches": 0, "draws": 0, "max": 0, "populations": 0}
    mon.data["draws"] = st

    def before_populate(self, *a, **k):
        st["batches"] = 0
        st["draws"] = 0
        st["populations"] += 1

    def after_populate(self, _t, _r):
        st["max"] = max(st["max"], st["draws"])

    def before_draw(self, n):
        st["batches"] += 1
        st["draws"] += int(n)
        if st["draws"] > limit:
            st["max"] = st["draws"]
            mon.flags["population_draw_bound"] = True
            lt = (getattr(self, "flow_config", None) or {}).get(
                "linear_transform")
            mon.data["draw_bound"] = {
                "proposal": type(self).__name__ + (
                    f":linear_transform={lt}" if lt else ""),
                "batches": st["batches"], "draws": st["draws"],
                "drawsize": int(self.drawsize)}
            mon.flush()
            os._exit(21)

    wrap(FlowProposal, "populate", before_populate, after_populate)
    wrap(FlowProposal, "draw_latent_prior", before_draw, None)
    # subclasses that override populate/draw_latent_prior keep their own
    # methods; the bound is then enforced by the wall-clock backstop only


INSTALLERS["draws"] = install_draws


# --------------------------------------------------------------------------
# Fault schedule "kill at event": die at the first likelihood call after the
# k-th pool population of the flow proposal started / when the k-th training
# of the flow proposal starts / at the k-th level of the importance sampler
def install_kill_event(mon, spec):
    from nessai.proposal.flowproposal import FlowProposal
    from nessai.proposal.importance import ImportanceFlowProposal

    st = {"population": 0, "training": 0, "level": 0}
    ev, k = spec["event"], int(spec.get("k", 1))

    def arm():
        mon.model.kill_after = mon.model.points + 1
        mon.model.kill_hook = mon.flush
        if spec.get("signal"):
            mon.model.kill_signal = spec["signal"]
        mon.flags["kill_event_armed"] = True

    def before_populate(self, *a, **kw):
        st["population"] += 1
        if ev == "population" and st["population"] == k:
            arm()

    def before_train(self, *a, **kw):
        st["training"] += 1
        if ev == "training" and st["training"] == k:
            mon.flags["kill_event_armed"] = True
            mon.flush()
            os._exit(9)

    def before_ins_draw(self, *a, **kw):
        st["level"] += 1
        if ev == "level" and st["level"] == k:
            arm()

    def before_finalise(self, *a, **kw):
        # the window between the last checkpoint written by the sampling loop
        # and the checkpoint written once the run has been finalised
        st["finalise"] = st.get("finalise", 0) + 1
        if ev == "finalise" and st["finalise"] == k:
            mon.flags["kill_event_armed"] = True
            mon.flush()
            os._exit(9)

    wrap(FlowProposal, "populate", before_populate, None)
    wrap(FlowProposal, "train", before_train, None)
    wrap(ImportanceFlowProposal, "draw", before_ins_draw, None)
    if ev == "uninformed_population":
        # the k-th pool of the prior-rejection / analytic proposal
        from nessai.proposal.analytic import AnalyticProposal
        from nessai.proposal.rejection import RejectionProposal

        def before_uninformed(self, *a, **kw):
            st["uninformed"] = st.get("uninformed", 0) + 1
            if st["uninformed"] == k:
                arm()

        wrap(AnalyticProposal, "populate", before_uninformed, None)
        wrap(RejectionProposal, "populate", before_uninformed, None)
    if ev == "iteration":
        # the process dies between two iterations of the standard sampler
        # (any instant that is not a likelihood call: the pool is typically
        # partly consumed)
        from nessai.samplers.nestedsampler import NestedSampler

        def before_consume(self, *a, **kw):
            if self.iteration >= k and not st.get("fired"):
                st["fired"] = True
                mon.flags["kill_event_armed"] = True
                mon.flush()
                os._exit(9)

        wrap(NestedSampler, "consume_sample", before_consume, None)
    if ev == "finalise":
        from nessai.samplers.nestedsampler import NestedSampler
        from nessai.samplers.importancesampler import ImportanceNestedSampler

        wrap(NestedSampler, "finalise", before_finalise, None)
        wrap(ImportanceNestedSampler, "finalise", before_finalise, None)


# --------------------------------------------------------------------------
# Monitor "pool": structural invariants of every proposal pool (C09 part A)
def install_pool(mon):
    from nessai.proposal.analytic import AnalyticProposal
    from nessai.proposal.rejection import RejectionProposal
    from nessai.proposal.flowproposal import FlowProposal
    from nessai.proposal.importance import ImportanceFlowProposal

    model = mon.model
    STOCHASTIC = ("inversion", "angle", "cartesian", "split", "duplicate")

    def check_rows(samples, name, check_logl=True):
        V = mon.violation
        n = int(samples.size)
        mon.count("pool.rows", n)
        if n == 0:
            return
        if not np.all(model.ref_in_bounds(samples)):
            V(f"pool-point-out-of-bounds:{name}",
              f"{int((~model.ref_in_bounds(samples)).sum())} of {n}")
        with model.quiet():
            lp = np.asarray(model.log_prior(samples), dtype=float)
            ll = np.asarray(model._log_l(samples), dtype=float)
        if not np.all(np.isfinite(samples["logP"])):
            V(f"pool-point-logP-not-finite:{name}", "")
        if not np.array_equal(np.asarray(samples["logP"], float), lp):
            V(f"pool-logP!=model:{name}",
              f"{int((np.asarray(samples['logP'], float) != lp).sum())} "
              f"of {n}")
        if check_logl and not np.array_equal(
                np.asarray(samples["logL"], float), ll):
            V(f"pool-logL!=model:{name}",
              f"{int((np.asarray(samples['logL'], float) != ll).sum())} "
              f"of {n}")

    def check_indices(self, name):
        idx = list(self.indices)
        if sorted(idx) != list(range(int(self.samples.size))):
            mon.violation(f"pool-indices-not-a-permutation:{name}",
                          f"{len(idx)} indices for {self.samples.size} rows")

    # --- uninformed proposals
    def before_uninf(self, N=None):
        return self.poolsize if N is None else N

    def after_uninf(self, N, _):
        name = type(self).__name__
        mon.count("pool.populations")
        mon.classes.add("pool:" + name)
        check_rows(self.samples, name)
        check_indices(self, name)
        if type(self) is AnalyticProposal:
            if self.samples.size != N:
                mon.violation(f"pool-size!=requested:{name}",
                              f"{self.samples.size} vs {N}")
        elif self.samples.size > N:
            mon.violation(f"pool-size>requested:{name}",
                          f"{self.samples.size} vs {N}")

    wrap(AnalyticProposal, "populate", before_uninf, after_uninf)
    wrap(RejectionProposal, "populate", before_uninf, after_uninf)

    # --- flow proposals (subclasses inherit populate)
    def before_flow(self, worst_point, N=10000, **k):
        return N

    def after_flow(self, N, _):
        name = type(self).__name__
        V = mon.violation
        mon.count("pool.populations")
        mon.count("pool.flow_populations")
        mon.classes.add("pool:" + name)
        mon.classes.add("pool-latent:" + str(self.latent_prior))
        s = self.samples
        check_rows(s, name)
        check_indices(self, name)
        if s.size != N:
            how = ":accumulate_weights-sample-cap" if getattr(
                self, "accumulate_weights", False) and s.size < N else ""
            V(f"pool-size!=requested:{name}{how}",
              f"{s.size} vs requested {N}")
        if getattr(self, "population_acceptance", 1.0) is not None and \
                self.population_acceptance < 1.0:
            mon.classes.add("pool:acceptance<1")
        # radially truncated latent priors: nothing outside the contour
        if self.latent_prior in ("truncated_gaussian", "uniform_nsphere",
                                 "uniform_nball") and s.size:
            stochastic = bool(getattr(self, "augment_dims", 0))
            try:
                reps = list(self._reparameterisation.values())
            except Exception:  # noqa: BLE001
                reps = []
                stochastic = True
            for r in reps:
                if type(r).__name__ in ("Angle", "ToCartesian", "AnglePair") \
                        or getattr(r, "boundary_inversion", False) \
                        or getattr(r, "chi", False):
                    # forward map draws a random branch / auxiliary radius
                    stochastic = True
            if not stochastic:
                state = np.random.get_state()
                try:
                    z = self.forward_pass(s, rescale=True,
                                          compute_radius=False)[0]
                finally:
                    np.random.set_state(state)
                rad = np.sqrt(np.sum(np.asarray(z, float) ** 2, axis=1))
                lim = self.r * self.fuzz
                slack = 1e-3 * max(1.0, lim) + 1e-3
                bad = rad > lim + slack
                mon.count("pool.radius_checks")
                if bad.any():
                    V(f"pool-point-outside-latent-contour:{name}",
                      f"{int(bad.sum())} of {s.size}: max radius "
                      f"{rad.max():.4f} > r*fuzz {lim:.4f}")

    wrap(FlowProposal, "populate", before_flow, after_flow)

    # --- every draw hands out the row its index points to, once
    def before_draw(self, *a, **k):
        return (self.populated, list(self.indices[-1:]),
                None if self.samples is None else self.samples)

    def after_draw(self, tok, result):
        populated, last, samples = tok
        mon.count("pool.draws")
        if populated and last and samples is not None:
            if result.tobytes() != samples[last[0]].tobytes():
                mon.violation("draw-returned-wrong-pool-row:" +
                              type(self).__name__, "")
            # the row that is handed out carries the model's values (a pool
            # restored from a checkpoint is not seen by the population hook)
            row = np.atleast_1d(result)
            with model.quiet():
                ll = model.ref_log_likelihood(row)
                lp = model.ref_log_prior(row)
            ulps = 0 if getattr(model, "exact", True) else 4
            with np.errstate(invalid="ignore"):
                bad_l = not ((row["logL"][0] == ll[0]) or abs(
                    row["logL"][0] - ll[0]) <= ulps * np.spacing(abs(ll[0])))
                bad_p = not ((row["logP"][0] == lp[0]) or abs(
                    row["logP"][0] - lp[0]) <= ulps * np.spacing(abs(lp[0])))
            mon.count("pool.drawn_rows_checked")
            if bad_l:
                mon.violation("drawn-pool-point-logL!=model:" +
                              type(self).__name__,
                              f"handed out logL {row['logL'][0]!r}, model "
                              f"{ll[0]!r}")
            if bad_p:
                mon.violation("drawn-pool-point-logP!=model:" +
                              type(self).__name__,
                              f"handed out logP {row['logP'][0]!r}, model "
                              f"{lp[0]!r}")
            if last[0] in self.indices:
                mon.violation("pool-index-handed-out-twice:" +
                              type(self).__name__, "")

    wrap(AnalyticProposal, "draw", before_draw, after_draw)
    wrap(FlowProposal, "draw", before_draw, after_draw)

    # --- importance sampler draws
    def before_ifp(self, n, *a, **k):
        return n

    def after_ifp(self, n, result):
        samples, log_q = result
        V = mon.violation
        mon.count("pool.populations")
        mon.classes.add("pool:ImportanceFlowProposal")
        if samples.size != n or log_q.shape[0] != n:
            V("pool-size!=requested:ImportanceFlowProposal",
              f"{samples.size} vs {n}")
        x = np.asarray(model.unstructured_view(samples), float)
        if np.any(x < 0) or np.any(x > 1):
            V("pool-point-out-of-bounds:ImportanceFlowProposal", "")
        phys = model.from_unit_hypercube(samples)
        with model.quiet():
            lp = np.asarray(model.log_prior(phys), dtype=float)
        mon.count("pool.rows", int(samples.size))
        if not np.all(np.isfinite(lp)):
            V("pool-point-outside-prior-support:ImportanceFlowProposal",
              f"{int((~np.isfinite(lp)).sum())} of {samples.size}")
        stored = np.asarray(samples["logP"], float)
        ulps = 0 if getattr(model, "exact", True) else 4
        with np.errstate(invalid="ignore"):
            ok = (stored == lp) | (
                np.abs(stored - lp) <= ulps * np.spacing(np.abs(lp)))
        if not ok.all():
            V("pool-logP!=model:ImportanceFlowProposal",
              f"{int((~ok).sum())} of {samples.size}")

    wrap(ImportanceFlowProposal, "draw", before_ifp, after_ifp)


INSTALLERS["pool"] = install_pool


def _post_support(mon, fs, job):
    """C09 part C: every point the user's likelihood was called on lies in
    the prior support (bounds + finite log-prior)."""
    model = mon.model
    log = model.call_log or []
    n = 0
    bad_b = bad_p = 0
    for x in log:
        n += x.size
        inb = model.ref_in_bounds(x)
        bad_b += int((~inb).sum())
        with model.quiet():
            lp = np.asarray(model.log_prior(x), dtype=float)
        bad_p += int((~np.isfinite(lp)).sum())
    mon.count("support.points", n)
    mon.count("support.calls", len(log))
    if bad_b:
        mon.violation("likelihood-called-outside-bounds",
                      f"{bad_b} of {n} points")
    if bad_p:
        mon.violation("likelihood-called-outside-prior-support",
                      f"{bad_p} of {n} points have log-prior -inf/NaN")


POST["support"] = _post_support


def _post_calib(mon, fs, job):
    """Numbers needed by the calibration check (C06)."""
    ns = fs.ns
    model = mon.model
    nested = np.asarray(fs.nested_samples)
    if job.get("ins"):
        src = np.asarray(ns.final_samples)
        lw = np.asarray(ns.final_log_posterior_weights, dtype=float)
        pval = None
    else:
        src = nested
        lw = np.asarray(ns.state.log_posterior_weights, dtype=float)
        pval = ns.final_p_value
    w = np.exp(lw - lw.max())
    w /= w.sum()
    ess = float(1.0 / np.sum(w ** 2))
    means, variances = [], []
    for n in model.names:
        x = np.asarray(src[n], dtype=float)
        m = float(np.sum(w * x))
        means.append(m)
        variances.append(float(np.sum(w * (x - m) ** 2)))
    mon.data["calib"] = {
        "log_evidence": float(fs.log_evidence),
        "log_evidence_error": float(fs.log_evidence_error),
        "true_log_evidence": float(model.true_log_evidence),
        "ess": ess, "means": means, "variances": variances,
        "p_value": None if pval is None else float(pval),
        "finalised": bool(ns.finalised),
        "iterations": int(ns.iteration),
    }


POST["calib"] = _post_calib
