"""C19: read a saved dictionary back and compare it, value by value, with the
in-memory dictionary - using only the documented decodings.

Shared by the in-process encoder part of vf.checks.c19 and by the post-run
analyser `saved_results` (executed in the driver after FlowSampler.run).

Documented decodings (nothing else is applied):
  JSON  None <-> null; str <-> string; numbers are IEEE doubles (a NumPy
        longdouble reads back as one of the two doubles that bracket it);
        arrays <-> nested lists; structured arrays <-> list of rows, each row
        the values in field order (no field names are stored); NaN/+-inf are
        the NaN/Infinity/-Infinity literals of Python's json module.
  HDF5  None <-> the string "__none__"; str <-> byte string (UTF-8);
        dict <-> group; list of numbers / of equal-shape arrays <-> dataset;
        structured arrays <-> compound datasets (field names kept).
Equality is exact: a == b, NaN matches NaN (payload/sign of a NaN is not
kept by JSON), the sign of a zero is kept.
"""
import json
import math
import os

import numpy as np

NONE_STR = "__none__"


# ------------------------------------------------------------------ readers
def read_json(path):
    with open(path) as f:
        return json.load(f)


def read_hdf5(path):
    import h5py

    def rd(g):
        out = {}
        for k, v in g.items():
            out[k] = rd(v) if isinstance(v, h5py.Group) else v[()]
        return out

    with h5py.File(path, "r") as f:
        return rd(f)


def read_back(path, fmt):
    return read_json(path) if fmt == "json" else read_hdf5(path)


def fmt_of(ext):
    return "json" if ext == "json" else "hdf5"


# ------------------------------------------------------------------ type tags
def scalar_tag(v):
    if v is None:
        return "NoneType"
    return type(v).__name__


def type_tags(v, out=None, path="", examples=None):
    """Set of value-type tags occurring in v (the alphabet of C19)."""
    if out is None:
        out = set()

    def add(t):
        out.add(t)
        if examples is not None:
            examples.setdefault(t, path)

    if isinstance(v, dict):
        add("dict")
        for k, x in v.items():
            type_tags(x, out, f"{path}/{k}", examples)
    elif isinstance(v, np.ndarray):
        add("ndarray[struct]" if v.dtype.names else f"ndarray[{v.dtype.name}]")
    elif isinstance(v, (list, tuple)):
        base = type(v).__name__
        if len(v) == 0:
            add(f"{base}[]")
        for x in v:
            if isinstance(x, np.ndarray):
                add(f"{base}[ndarray[{x.dtype.name}]]")
            elif isinstance(x, (list, tuple, dict)):
                add(f"{base}[{type(x).__name__}]")
                type_tags(x, out, path, examples)
            else:
                add(f"{base}[{scalar_tag(x)}]")
    else:
        add(scalar_tag(v))
    return out


# ------------------------------------------------------------------ comparer
def _is_bool(x):
    return isinstance(x, (bool, np.bool_))


def _is_int(x):
    return isinstance(x, (int, np.integer)) and not _is_bool(x)


def _is_float(x):
    return isinstance(x, (float, np.floating))


def _is_num(x):
    return _is_int(x) or _is_float(x)


def _ld(x):
    return np.longdouble(x)


def float_matches(e, g, fmt):
    """Does the number g (read back) represent the float e exactly?

    For JSON an extended-precision e may come back as either neighbouring
    double."""
    if not _is_num(g):
        return False
    e_l = _ld(e)
    if np.isnan(e_l):
        return _is_float(g) and bool(np.isnan(_ld(g)))
    if _is_int(g):
        # never produced for floats by either writer; value equality suffices
        return bool(np.isfinite(e_l)) and e_l == _ld(int(g)) and \
            int(e_l) == int(g)
    g_l = _ld(g)
    if np.isnan(g_l):
        return False
    if g_l == e_l:
        if e_l == 0:
            return bool(np.signbit(g_l)) == bool(np.signbit(e_l))
        return True
    if fmt == "json" and isinstance(e, np.floating) and \
            np.finfo(type(e)).bits > 64:
        # extended precision: either neighbouring double is a correct
        # rounding ("longdouble rounds to double in JSON")
        gd = float(g)
        big = _ld(np.finfo(np.float64).max)
        if gd == math.inf:
            return bool(e_l > big)
        if gd == -math.inf:
            return bool(e_l < -big)
        lo = _ld(np.nextafter(gd, -math.inf))
        hi = _ld(np.nextafter(gd, math.inf))
        return bool(lo < e_l) and bool(e_l < hi)
    return False


def int_matches(e, g):
    if not _is_num(g):
        return False
    e = int(e)
    if _is_int(g):
        return int(g) == e
    g_l = _ld(g)
    if not np.isfinite(g_l):
        return False
    return bool(g_l == np.floor(g_l)) and int(g_l) == e


class Comparer:
    """Collects differences between an in-memory value and what was read
    back. Each difference: (path, tag, what, message)."""

    MAX = 40

    def __init__(self, fmt):
        self.fmt = fmt
        self.diffs = []
        self.leaves = 0
        self.unhandled = []

    def diff(self, path, tag, what, msg):
        if len(self.diffs) < self.MAX:
            self.diffs.append((path, tag, what, str(msg)[:300]))

    # -- scalars
    def scalar(self, e, g, path, tag=None):
        self.leaves += 1
        tag = tag or scalar_tag(e)
        if e is None:
            if self.fmt == "json":
                ok = g is None
            else:
                if isinstance(g, bytes):
                    g = g.decode("utf-8", "replace")
                ok = isinstance(g, str) and g == NONE_STR
            if not ok:
                self.diff(path, tag, "none-not-restored",
                          f"None read back as {g!r}")
        elif isinstance(e, str):
            if self.fmt == "hdf5" and isinstance(g, bytes):
                try:
                    g = g.decode("utf-8")
                except UnicodeDecodeError:
                    pass
            if not (isinstance(g, str) and g == e):
                self.diff(path, tag, "string", f"{e!r} read back as {g!r}")
        elif _is_bool(e):
            if not (_is_bool(g) and bool(g) == bool(e)):
                self.diff(path, tag, "bool", f"{e!r} read back as {g!r}")
        elif _is_int(e):
            if not _is_num(g):
                self.diff(path, tag, "not-a-number",
                          f"{e!r} read back as {type(g).__name__} {g!r}")
            elif not int_matches(e, g):
                self.diff(path, tag, "value", f"{e!r} read back as {g!r}")
        elif _is_float(e):
            if not _is_num(g):
                self.diff(path, tag, "not-a-number",
                          f"{e!r} read back as {type(g).__name__} {g!r}")
            elif not float_matches(e, g, self.fmt):
                self.diff(path, tag, "value", f"{e!r} read back as {g!r}")
        else:
            self.unhandled.append((path, type(e).__name__))

    # -- arrays
    def _array_hdf5(self, e, g, path, tag):
        if not isinstance(g, np.ndarray):
            self.diff(path, tag, "not-an-array",
                      f"read back as {type(g).__name__}")
            return
        if g.shape != e.shape:
            self.diff(path, tag, "shape", f"{e.shape} read back as {g.shape}")
            return
        if e.dtype.names:
            if g.dtype.names is None or set(g.dtype.names) != set(
                    e.dtype.names):
                self.diff(path, tag, "field-names",
                          f"{e.dtype.names} read back as {g.dtype.names}")
                return
            for n in e.dtype.names:
                self._array_hdf5(e[n], g[n], path, tag + ":field")
            return
        self.leaves += int(e.size)
        if e.dtype.kind == "f":
            if g.dtype.kind != "f":
                self.diff(path, tag, "dtype-kind",
                          f"{e.dtype} read back as {g.dtype}")
                return
            a = e.astype(np.longdouble)
            b = g.astype(np.longdouble)
            ok = ((a == b) & (np.signbit(a) == np.signbit(b))) | (
                np.isnan(a) & np.isnan(b))
        elif e.dtype.kind in "iu":
            if g.dtype.kind not in "iu":
                self.diff(path, tag, "dtype-kind",
                          f"{e.dtype} read back as {g.dtype}")
                return
            ok = e.astype(object) == g.astype(object)
            ok = np.asarray(ok, dtype=bool)
        elif e.dtype.kind == "b":
            ok = (g.dtype.kind == "b") & (e == g)
            ok = np.broadcast_to(np.asarray(ok, dtype=bool), e.shape)
        else:
            self.unhandled.append((path, str(e.dtype)))
            return
        if not ok.all():
            i = np.unravel_index(int(np.argmin(ok)), e.shape)
            self.diff(path, tag, "value",
                      f"{int((~ok).sum())} entries differ, first at {i}: "
                      f"{e[i]!r} read back as {g[i]!r}")

    def _elem(self, e, g, path, tag):
        """element of a (nested) list read from JSON against a numpy value"""
        self.scalar(e, g, path, tag)

    def _array_json(self, e, g, path, tag):
        if e.dtype.names:
            if not isinstance(g, list) or len(g) != e.shape[0] or e.ndim != 1:
                self.diff(path, tag, "rows",
                          f"{e.shape} rows read back as "
                          f"{type(g).__name__} of length "
                          f"{len(g) if hasattr(g, '__len__') else '-'}")
                return
            names = e.dtype.names
            for i in range(e.shape[0]):
                row = g[i]
                if not isinstance(row, list) or len(row) != len(names):
                    self.diff(path, tag, "row-length",
                              f"row {i}: {len(names)} fields read back as "
                              f"{row!r}")
                    return
                n0 = len(self.diffs)
                for j, n in enumerate(names):
                    self._elem(e[n][i], row[j], path, tag)
                if len(self.diffs) > n0:
                    # one report per array is enough
                    self.diffs[n0:] = [(path, tag, "field-value",
                                        f"row {i}: {e[i]!r} read back as "
                                        f"{row!r}")]
                    return
            return
        if e.ndim == 0:
            self._elem(e[()], g, path, tag)
            return
        if not isinstance(g, list) or len(g) != e.shape[0]:
            self.diff(path, tag, "shape",
                      f"axis of length {e.shape[0]} read back as "
                      f"{type(g).__name__} of length "
                      f"{len(g) if hasattr(g, '__len__') else '-'}")
            return
        n0 = len(self.diffs)
        for i in range(e.shape[0]):
            self._array_json(e[i], g[i], path, tag)
            if len(self.diffs) > n0:
                return

    def array(self, e, g, path, tag=None):
        tag = tag or ("ndarray[struct]" if e.dtype.names
                      else f"ndarray[{e.dtype.name}]")
        if self.fmt == "json":
            self._array_json(e, g, path, tag)
        else:
            self._array_hdf5(e, g, path, tag)

    # -- lists
    def sequence(self, e, g, path):
        base = type(e).__name__
        n = len(e)
        if self.fmt == "json":
            if not isinstance(g, list) or len(g) != n:
                self.diff(path, f"{base}", "length",
                          f"{n} entries read back as {type(g).__name__} of "
                          f"length {len(g) if hasattr(g, '__len__') else '-'}")
                return
            for x, y in zip(e, g):
                n0 = len(self.diffs)
                self.value(x, y, path, in_list=base)
                if len(self.diffs) > n0:
                    return
            if n == 0:
                self.leaves += 1
            return
        # HDF5: one dataset
        if not isinstance(g, np.ndarray) or g.ndim == 0:
            self.diff(path, f"{base}", "not-an-array",
                      f"{n} entries read back as {type(g).__name__} {g!r}")
            return
        if g.shape[0] != n:
            self.diff(path, f"{base}", "length",
                      f"{n} entries read back as {g.shape[0]}")
            return
        if n == 0:
            self.leaves += 1
            return
        for i, x in enumerate(e):
            n0 = len(self.diffs)
            y = g[i]
            if isinstance(x, (list, tuple)):
                x = np.asarray(x)
            if isinstance(x, np.ndarray):
                self._array_hdf5(x, np.asarray(y), path,
                                 f"{base}[ndarray[{x.dtype.name}]]")
            else:
                if isinstance(y, np.ndarray):
                    self.diff(path, f"{base}[{scalar_tag(x)}]", "shape",
                              f"scalar entry read back with shape {y.shape}")
                else:
                    self.scalar(x, y, path, f"{base}[{scalar_tag(x)}]")
            if len(self.diffs) > n0:
                return

    # -- anything
    def value(self, e, g, path, in_list=None):
        if isinstance(e, dict):
            self.mapping(e, g, path)
        elif isinstance(e, np.ndarray):
            tag = None
            if in_list:
                tag = f"{in_list}[ndarray[{e.dtype.name}]]"
            self.array(e, g, path, tag)
        elif isinstance(e, (list, tuple)):
            self.sequence(e, g, path)
        else:
            self.scalar(e, g, path,
                        f"{in_list}[{scalar_tag(e)}]" if in_list else None)

    def mapping(self, e, g, path):
        if not isinstance(g, dict):
            self.diff(path, "dict", "not-a-dict",
                      f"dictionary read back as {type(g).__name__}")
            return
        for k in e:
            p = f"{path}/{k}" if path else str(k)
            if k not in g:
                self.diff(p, "dict", "missing-key",
                          f"key {k!r} is not in the file (file has "
                          f"{sorted(g)[:12]})")
                continue
            self.value(e[k], g[k], p)
        for k in g:
            if k not in e:
                p = f"{path}/{k}" if path else str(k)
                self.diff(p, "dict", "extra-key",
                          f"file has key {k!r} that the dictionary lacks")


def columns(a):
    """Structured array -> {field: column}: the documented JSON form of the
    posterior samples (FlowSampler.save_results)."""
    return {n: a[n] for n in a.dtype.names}


# ------------------------------------------------------------------ analyser
def _same_memory(a, b):
    """Do two in-memory views hold the same value? (only used to decide
    whether a FlowSampler attribute may stand for the dictionary entry)"""
    if isinstance(a, np.ndarray) or isinstance(b, np.ndarray):
        a = np.asarray(a)
        b = np.asarray(b)
        return a.dtype == b.dtype and a.shape == b.shape and \
            a.tobytes() == b.tobytes()
    if a is None or b is None:
        return a is b
    try:
        return bool(a == b) or (a != a and b != b)
    except Exception:  # noqa: BLE001
        return False


def saved_results(mon, fs, job):
    """Post analyser (driver): result.<ext> and config.json read back."""
    import inspect

    V = mon.violation
    ext = fs.result_extension
    fmt = fmt_of(ext)
    info = mon.data.setdefault("c19", {})
    info.update({"ext": ext, "fmt": fmt})
    mon.classes.add(f"ext:{ext}")
    out = fs.output

    # ---- config.json: must parse with the standard reader
    cpath = os.path.join(out, "config.json")
    try:
        cfg = read_json(cpath)
    except Exception as e:  # noqa: BLE001
        V(f"config.json:json.load:{type(e).__name__}", str(e)[:300])
    else:
        named = set(inspect.signature(type(fs).__init__).parameters)
        want = [k for k in job.get("kwargs", {}) if k not in named]
        want += ["eps", "torch_dtype", "importance_sampler"]
        if not isinstance(cfg, dict):
            V("config.json:not-a-dict", type(cfg).__name__)
        else:
            miss = [k for k in want if k not in cfg]
            if miss:
                V("config.json:keys-missing", f"{miss}")
            info["config_keys"] = len(cfg)
            mon.classes.add("config.json-read")
            if any(isinstance(v, dict) and "__pool__" in v
                   for v in job.get("kwargs", {}).values()):
                mon.classes.add("config.json-with-pool")

    # ---- result file
    path = os.path.join(out, "result." + ext)
    if not os.path.exists(path):
        V(f"result.{ext}:file-missing", f"{sorted(os.listdir(out))}")
        return
    try:
        got = read_back(path, fmt)
    except Exception as e:  # noqa: BLE001
        V(f"result.{ext}:read-back:{type(e).__name__}", str(e)[:300])
        return
    try:
        d = fs.ns.get_result_dictionary()
    except Exception as e:  # noqa: BLE001
        V(f"get_result_dictionary:{type(e).__name__}", str(e)[:300])
        return
    exp = dict(d)
    post = fs.posterior_samples
    exp["posterior_samples"] = columns(post) if fmt == "json" else post
    if hasattr(fs, "initial_posterior_samples"):
        exp["initial_posterior_samples"] = fs.initial_posterior_samples
        mon.classes.add("has-initial-posterior")

    examples = {}
    type_tags(exp, path="", examples=examples)
    info["types"] = examples

    c = Comparer(fmt)
    c.mapping(exp, got, "")
    if fmt == "json" and isinstance(got, dict) and not isinstance(
            got.get("posterior_samples"), dict):
        # reported once, with a name of its own
        c.diffs = [x for x in c.diffs if not x[0].startswith(
            "posterior_samples")]
        V(f"result.{ext}:posterior_samples:not-a-dictionary-of-fields",
          f"read back as {type(got.get('posterior_samples')).__name__}")

    # ---- FlowSampler / sampler attributes (where they are the same
    # in-memory value as the dictionary entry; otherwise C05's business)
    ns = fs.ns
    attrs = {
        "log_evidence": fs.log_evidence,
        "log_evidence_error": fs.log_evidence_error,
        "history": ns.history,
    }
    if job.get("ins"):
        attrs["samples"] = fs.nested_samples
        attrs["log_posterior_weights"] = ns.final_log_posterior_weights
    else:
        attrs["nested_samples"] = fs.nested_samples
        attrs["insertion_indices"] = ns.insertion_indices
        attrs["log_posterior_weights"] = ns.state.log_posterior_weights
    c2 = Comparer(fmt)
    differ = []
    for k, v in attrs.items():
        if k not in d or not isinstance(got, dict) or k not in got:
            continue
        scalar = k in ("log_evidence", "log_evidence_error")
        if k != "history" and not scalar and not _same_memory(d[k], v):
            # a different array object: whether the two agree is decided by
            # C05 (dictionary vs sampler object)
            differ.append(k)
            continue
        # the evidence the FlowSampler reports *is* the in-memory result the
        # file is read against
        c2.value(v, got[k], k)
    info["views_differ"] = differ
    seen = set((p, t, w) for p, t, w, _ in c.diffs)
    for p, t, w, m in c.diffs:
        V(f"result.{ext}:{p}:{t}:{w}", m)
    for p, t, w, m in c2.diffs:
        if (p, t, w) not in seen:
            V(f"result.{ext}:{p}:{t}:{w}:vs-attribute", m)
    info["leaves"] = int(c.leaves)
    info["keys"] = len(exp)
    info["unhandled"] = [list(u) for u in (c.unhandled + c2.unhandled)][:10]
    info["diffs"] = len(c.diffs) + len(c2.diffs)
    mon.count("c19.leaves", int(c.leaves))
    mon.count("c19.files", 1)
    # value kinds that make the comparison non-trivial
    for t in examples:
        if t in ("NoneType", "list[longdouble]", "ndarray[struct]", "dict",
                 "list[]"):
            mon.classes.add("has:" + t)
    def nonfinite(v):
        if isinstance(v, dict):
            return any(nonfinite(x) for x in v.values())
        if isinstance(v, np.ndarray):
            if v.dtype.names:
                return any(nonfinite(v[n]) for n in v.dtype.names)
            return v.dtype.kind == "f" and not np.isfinite(v).all()
        if isinstance(v, (list, tuple)):
            return any(nonfinite(x) for x in v)
        return _is_float(v) and not np.isfinite(_ld(v))

    if nonfinite(exp):
        mon.classes.add("has:non-finite")
