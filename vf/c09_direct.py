"""C09 part A2: structural pool invariants on directly driven proposals over
generated *histories* (train on wide data, populate, re-train on compact
data, populate again ...), which real runs reach only rarely: the contour of
a later pool differs from the contour of an earlier one.

The oracle is the passive pool monitor (vf.monitors.install_pool): bounds,
logP/logL == model, pool size, index permutation, and - for radially
truncated latent priors with deterministic reparameterisations - no pool
point outside the latent contour r*fuzz that the proposal reports.
"""
import logging
import shutil
import tempfile

import numpy as np
from hypothesis import strategies as st

from .core import Outcome, Violation, jhash
from .hyp import run_given


@st.composite
def histories(draw):
    model = draw(st.sampled_from([
        {"name": "gauss_uniform", "dims": 2, "lo": [-5.0, 10.0],
         "hi": [5.0, 20.0], "mu": [0.0, 15.0]},
        {"name": "gauss_uniform", "dims": 3, "lo": -6.0, "hi": 6.0},
        {"name": "gauss_gauss", "dims": 2},
    ]))
    lp = draw(st.sampled_from(["truncated_gaussian", "truncated_gaussian",
                               "uniform_nball", "uniform_nsphere"]))
    kw = {"latent_prior": lp,
          "constant_volume_mode": draw(st.sampled_from([False, False, True])),
          "compute_radius_with_all": draw(st.booleans()),
          "expansion_fraction": None,
          "fuzz": draw(st.sampled_from([1.0, 1.0, 1.05])),
          "poolsize": draw(st.sampled_from([100, 300])),
          "drawsize": draw(st.sampled_from([200, 1000])),
          "accumulate_weights": draw(st.booleans()),
          "update_poolsize": False}
    rep = draw(st.sampled_from([None, "default", "logit", "zscore"]))
    if model["name"] == "gauss_uniform" and draw(st.integers(0, 3)) == 0:
        # prior declared uniform for every parameter: candidates are
        # rejected on the prior evaluated in the reparameterised space
        rep = draw(st.sampled_from([
            {"default": {"parameters": ["x.*"], "prior": "uniform"}},
            {"default": {"parameters": ["x.*"], "prior": "uniform",
                         "rescale_bounds": [0, 1]}},
            {"rescaletobounds": {"parameters": ["x.*"], "prior": "uniform",
                                 "rescale_bounds": [-2, 3],
                                 "update_bounds": False}},
        ]))
    if rep is not None:
        kw["reparameterisations"] = rep
    if draw(st.integers(0, 3)) == 0:
        kw["truncate_log_q"] = True
    steps = []
    for _ in range(draw(st.integers(2, 3))):
        steps.append({
            "spread": draw(st.sampled_from([0.3, 0.6, 1.5, 3.0])),
            "n_train": draw(st.sampled_from([60, 200, 400])),
            "outlier": draw(st.booleans()),
            "populations": draw(st.integers(1, 2)),
        })
    return {"model": model, "kwargs": kw, "steps": steps,
            "small_cap": draw(st.booleans()),
            "seed": draw(st.integers(0, 2**31 - 1)),
            "flow": {"ftype": draw(st.sampled_from(["realnvp", "maf"])),
                     "n_blocks": 2, "n_neurons": 8},
            "epochs": draw(st.integers(8, 20))}


MAX_BATCHES = 3000


class _Degenerate(Exception):
    """A population that discards every batch (see run_history)."""


def run_history(case):
    """Execute one history; returns list of (key, msg) violations."""
    import torch
    from nessai.livepoint import numpy_array_to_live_points
    from nessai.proposal import FlowProposal
    from . import monitors as M
    from .models import make_model

    tmp = tempfile.mkdtemp(prefix="vf-c09d-")
    mon = M.Mon({"hdir": tmp})
    try:
        np.random.seed(case["seed"] % (2**32 - 1))
        torch.manual_seed(case["seed"] % (2**31 - 1))
        model = make_model(case["model"])
        mon.model = model
        # wrap the classes for this case only
        from nessai.proposal.flowproposal import FlowProposal as FP
        from nessai.proposal.analytic import AnalyticProposal as AP
        from nessai.proposal.rejection import RejectionProposal as RP
        from nessai.proposal.importance import ImportanceFlowProposal as IP
        saved = [(c, n, c.__dict__.get(n)) for c, n in (
            (FP, "populate"), (FP, "draw"), (AP, "populate"), (AP, "draw"),
            (RP, "populate"), (IP, "draw"))]
        M.install_pool(mon)
        try:
            prop = FlowProposal(
                model, output=tmp, plot=False,
                flow_config=dict(case["flow"]),
                training_config={"max_epochs": case["epochs"],
                                 "patience": 5, "batch_size": 100},
                **case["kwargs"])
            prop.initialise()
            # The population loop has no bound of its own when every draw of
            # a batch is discarded (truncate_log_q with an unlucky synthetic
            # training set: `if not len(x): continue`).  Such a degenerate
            # cell says nothing about the pool; count the batches (no clock)
            # and give it up.
            calls = [0]
            draw_latent = prop.draw_latent_prior

            def counted(n):
                calls[0] += 1
                if calls[0] > MAX_BATCHES:
                    raise _Degenerate()
                return draw_latent(n)

            prop.draw_latent_prior = counted
            lo = np.array([model.bounds[n][0] for n in model.names])
            hi = np.array([model.bounds[n][1] for n in model.names])
            centre = 0.5 * (lo + hi)
            for stp in case["steps"]:
                x = centre + stp["spread"] * np.random.randn(
                    stp["n_train"], model.dims)
                if stp["outlier"]:
                    x[0] = lo + 0.02 * (hi - lo)
                x = np.clip(x, lo + 1e-6 * (hi - lo), hi - 1e-6 * (hi - lo))
                data = numpy_array_to_live_points(x, model.names)
                with model.quiet():
                    data["logP"] = model.log_prior(data)
                    data["logL"] = model._log_l(data)
                data = np.sort(data, order="logL")
                prop.train(data, plot=False)
                for _ in range(stp["populations"]):
                    calls[0] = 0
                    # max_samples: documented argument of populate (cap on
                    # the proposals of the accumulate-weights loop); a small
                    # value keeps degenerate cells fast
                    # ... or, without weight accumulation (where the cap
                    # does not apply), one that is smaller than the number of
                    # proposals the pool needs
                    cap = 50_000
                    if not case["kwargs"].get("accumulate_weights") and \
                            case.get("small_cap"):
                        cap = max(1, prop.poolsize // 2)
                    prop.populate(data[0], N=prop.poolsize, plot=False,
                                  max_samples=cap)
                    # hand out a few points like the sampler does
                    for _ in range(5):
                        prop.draw(data[0])
        finally:
            for c, n, orig in saved:
                if orig is not None:
                    setattr(c, n, orig)
        return [(v["key"], v["msg"]) for v in mon.violations], mon.counters
    finally:
        shutil.rmtree(tmp, ignore_errors=True)


def shard(seed, n):
    logging.getLogger("nessai").setLevel(logging.CRITICAL)
    import warnings

    warnings.filterwarnings("ignore")
    from .core import Ctx

    ctx = Ctx("C09", "quick", seed)
    out = Outcome()

    def body(case):
        try:
            viols, counters = run_history(case)
        except _Degenerate:
            out.stats.inconclusive += 1
            out.stats.classes["direct:degenerate-population"] += 1
            return
        except Exception as e:  # noqa: BLE001
            import traceback

            tb = traceback.extract_tb(e.__traceback__)
            where = [f for f in tb if "/nessai/" in f.filename]
            key = "direct:exception:%s@%s" % (
                type(e).__name__, where[-1].name if where else "harness")
            if not where:
                raise
            viols, counters = [(key, str(e)[:300])], {}
        nt = counters.get("pool.radius_checks", 0) >= 2
        out.stats.case(
            {"direct": True, "model": case["model"],
             "kwargs": case["kwargs"], "steps": case["steps"]},
            nontrivial=nt,
            classes=["direct-history",
                     "direct:latent:" + case["kwargs"]["latent_prior"],
                     "direct:radius_with_all:%s" % case["kwargs"][
                         "compute_radius_with_all"]],
            key=jhash(case))
        for key, msg in viols:
            if ctx.known(key):
                out.stats.excluded_known[key] += 1
                continue
            raise Violation(key, msg, dict(case, kind="direct-history"))

    for v in run_given(body, histories(), seed, n, shrink=False):
        out.add(v)
    return out


def run_cells(ctx):
    from .par import run_shards

    n = 3 if ctx.quick else 40
    return run_shards("vf.c09_direct", "shard", [
        dict(seed=ctx.seed * 1000 + 500 + i, n=n) for i in range(16)])


def replay_cell(ctx, case):
    logging.getLogger("nessai").setLevel(logging.CRITICAL)
    case = {k: v for k, v in case.items() if k != "kind"}
    try:
        viols, _ = run_history(case)
    except _Degenerate:
        return []
    return [Violation(k, m, dict(case, kind="direct-history"))
            for k, m in viols]
