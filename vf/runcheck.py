"""Shared logic of the checks that decide a property on real sampler runs:
collect cases -> execute histories in fresh processes -> bucket outcomes."""
from .core import HarnessError, Outcome, Violation, jhash
from . import runs


def known_cases(prop):
    """Replay cases of recorded known findings (replays/known/<ID>-*.json);
    executed on every run so that the KNOWN-FINDING line is printed."""
    import glob
    import json
    import os

    from .core import ROOT

    out = []
    for sub in ("known", "regress"):
        for p in sorted(glob.glob(os.path.join(ROOT, "replays", sub,
                                               f"{prop}-*.json"))):
            c = json.load(open(p))["case"]
            c = {k: v for k, v in c.items() if k != "extra"}
            c["labels"] = list(c.get("labels", [])) + [f"{sub}-case"]
            out.append(c)
    return out


def known_elsewhere(props):
    """Predicate: key is a recorded known finding of one of `props` (used by
    checks that re-use the invariants of other properties, so that a defect
    recorded there is not reported a second time under this property)."""
    from .core import Findings

    f = Findings()

    def pred(key):
        return any(f.match(p, key) for p in props)

    return pred


def exc_key(rep):
    return "exception:%s@%s" % (rep.get("exc_type"), rep.get("exc_where"))


def brief(case):
    d = {"model": case["model"], "ins": case.get("ins", False),
         "kills": case.get("kills", []),
         "kwargs": {k: v for k, v in case["kwargs"].items()}}
    return d


def execute_cases(ctx, tag, cases, make_history, judge, keep=False):
    """Run every case (a generated dict) as a history and judge it.

    make_history(case) -> history dict for vf.runs
    judge(case, reports, add_violation, stats) -> (nontrivial: bool,
            classes: list[str], evaluations: int)
       add_violation(key, msg, extra=None)
    Exceptions raised by nessai are *not* judged here (see each check);
    harness exceptions abort with exit 2.
    """
    out = Outcome()
    histories = [make_history(c) for c in cases]
    results = runs.run_histories(tag, histories, keep=keep)
    for case, reports in zip(cases, results):
        for rep in reports:
            if rep.get("status") == "exception" and rep.get("exc_in_harness"):
                raise HarnessError(
                    "harness exception in driver:\n" + rep.get("traceback", "")
                )
            if rep.get("status") in ("no-report",):
                raise HarnessError("driver produced no report: %r" % rep)
        viols = []

        def add(key, msg, extra=None, _case=case, _v=viols):
            c = dict(_case)
            if extra:
                c["extra"] = extra
            _v.append(Violation(key, msg, c))

        nontrivial, classes, evals = judge(case, reports, add, out.stats)
        timed_out = any(r.get("timed_out") for r in reports)
        if timed_out:
            out.stats.inconclusive += 1
            classes = list(classes) + ["timeout-backstop"]
            tails = [r.get("log_tail", "")[-700:] for r in reports
                     if r.get("timed_out")]
            out.stats.extra.setdefault("timeouts", []).append(
                {"case": brief(case), "where": tails})
        for v in viols:
            if ctx.known(v.key):
                out.stats.excluded_known[v.key] += 1
            out.add(v)
        out.stats.case(brief(case), nontrivial=nontrivial and not timed_out,
                       classes=classes, key=jhash(brief(case)), n=max(1, evals))
    return out


def monitor_violations(reports, add, prefix="", skip=None):
    """Forward the violations recorded by the monitors of every step."""
    for i, rep in enumerate(reports):
        for v in rep.get("violations", []) or []:
            if skip is not None and skip(v["key"]):
                continue
            add(prefix + v["key"], f"step {i}: {v['msg']} (x{v['count']})",
                {"step": i})


def replay_case(ctx, tag, case, make_history, judge):
    out = execute_cases(ctx, tag, [case], make_history, judge)
    return out
