"""Dispatcher: ./check <ID> [--tier quick|thorough] [--replay FILE]

Exit protocol
  0  property held on everything explored (KNOWN-FINDING lines allowed)
  1  VIOLATION property=<id> replay=<path>   (not listed in KNOWN_FINDINGS.txt)
  2  harness error (never a violation, never a pass)
"""
import argparse
import importlib
import json
import os
import sys
import time
import traceback


def main(argv=None):
    ap = argparse.ArgumentParser()
    ap.add_argument("prop")
    ap.add_argument("--tier", default=os.environ.get("VERIF_TIER") or "quick")
    ap.add_argument("--replay", default=None)
    ap.add_argument("--seed", type=int, default=None)
    args = ap.parse_args(argv)
    if args.tier not in ("quick", "thorough"):
        args.tier = "quick"
    seed = args.seed
    if seed is None:
        try:
            seed = int(os.environ.get("VERIF_SEED", "1"))
        except ValueError:
            seed = 1
    prop = args.prop.upper()
    # wall-clock backstop of a single real run (inconclusive when hit)
    os.environ.setdefault(
        "VERIF_RUN_BACKSTOP", "150" if args.tier == "quick" else "600")

    repo = os.environ.get("VERIF_REPO")
    if repo:
        sys.path.insert(0, repo)

    from .core import Ctx, Outcome, Violation, write_evidence, save_replay, ROOT

    t0 = time.time()
    try:
        mod = importlib.import_module(f"vf.checks.{prop.lower()}")
        ctx = Ctx(prop, args.tier, seed)
        if args.replay:
            path = args.replay
            if not os.path.isabs(path) and not os.path.exists(path):
                path = os.path.join(ROOT, path)
            rec = json.load(open(path))
            out = Outcome()
            res = mod.replay(ctx, rec["case"])
            if isinstance(res, Outcome):
                out = res
            else:
                for v in res or []:
                    out.add(v)
                out.stats.case(rec["case"], nontrivial=True)
        else:
            out = mod.run(ctx)
            # replay tier: saved regression inputs (shrunk failures of
            # repaired defects) are re-executed on every run, bypassing the
            # generators.  Run-based checks fold them into their case list
            # themselves (USES_KNOWN_CASES).
            if not getattr(mod, "USES_KNOWN_CASES", False):
                import glob

                for rp in sorted(glob.glob(os.path.join(
                        ROOT, "replays", "regress", f"{prop}-*.json"))):
                    rec = json.load(open(rp))
                    res = mod.replay(ctx, rec["case"])
                    if isinstance(res, Outcome):
                        out.violations.extend(res.violations)
                    else:
                        for v in res or []:
                            out.add(v)
                    out.stats.classes["regression-replays"] += 1
    except Exception:
        traceback.print_exc()
        print(f"HARNESS-ERROR property={prop}")
        return 2

    wall = time.time() - t0
    # classify
    seen_known = {}
    new = {}
    for v in out.violations:
        if isinstance(v, Violation):
            v = v.as_dict()
        k = ctx.known(v["key"])
        if k is not None:
            seen_known.setdefault(k[1], (k, v))
        else:
            new.setdefault(v["key"], v)
    for _, (k, v) in sorted(seen_known.items()):
        print(f"KNOWN-FINDING: property={prop} key={k[1]} {k[2]}")
    # generator health
    health = getattr(mod, "health", None)
    problems = []
    if health is not None and not args.replay:
        problems = health(ctx, out.stats) or []

    if not args.replay:
        try:
            write_evidence(
                prop,
                args.tier,
                seed,
                mod.LEVEL,
                mod.RULE,
                out.stats,
                getattr(mod, "ASSUMPTIONS", []),
                wall,
                len(new),
                extra={
                    "generator_health": problems,
                    "known_findings_observed": sorted(seen_known),
                    "exhaustive": bool(
                        out.stats.extra.get("exhaustive", False)
                    ),
                },
            )
        except Exception:
            traceback.print_exc()
            print(f"HARNESS-ERROR property={prop} (evidence)")
            return 2

    if new:
        for key, v in sorted(new.items()):
            path = save_replay(prop, v) if not args.replay else args.replay
            print(f"  {v['key']}: {v['msg']}"[:2000])
            print(f"VIOLATION property={prop} replay={path}")
        return 1
    if problems:
        # A starved class of generated cases is a defect of the generator,
        # not of nessai.  Thorough tier: exit 2.  Quick tier: the case counts
        # are small, so an under-filled class is reported (stdout + evidence)
        # but only the absence of non-trivial cases is fatal.
        fatal = args.tier != "quick" or len(out.stats.nontrivial) < 2 \
            or os.environ.get("VERIF_STRICT_HEALTH") == "1"
        for p in problems:
            print(("HARNESS-ERROR" if fatal else "GENERATOR-HEALTH") +
                  f" property={prop} generator: {p}")
        if fatal:
            return 2
    s = out.stats
    print(
        f"OK property={prop} tier={args.tier} seed={seed} "
        f"evaluations={s.evaluations} nontrivial={len(s.nontrivial)} "
        f"excluded_known={sum(s.excluded_known.values())} "
        f"inconclusive={s.inconclusive} wall={wall:.1f}s"
    )
    return 0


if __name__ == "__main__":
    sys.exit(main())
