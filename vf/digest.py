"""Canonical field-by-field digest of a sampler (C11-C13).

flat(obj) -> dict path -> token, where a token is a primitive repr or a hash
of array contents (hashlib, never hash()).  Excluded: non-observable caches
that nessai rebuilds before their next use, wall-clock stamps, the model, the
torch modules (compared through their weights) and the pool.
"""
import collections
import datetime
import hashlib

import numpy as np

EXCLUDE_NAMES = {
    # re-attached on resume / not part of the sampler's result-bearing state
    "model", "pool", "checkpoint_callback",
    # wall clock
    "sampling_start_time", "_last_checkpoint", "_last_log",
    "sampling_time", "training_time", "population_time",
    "draw_samples_time", "add_and_update_samples_time",
    "draw_final_samples_time", "likelihood_evaluation_time",
    # pickling helpers / caches rebuilt before next use
    "_draw_func", "_populate_dist", "resume_populated", "mask",
    "weights_file", "_previous_likelihood_evaluations",
    "_previous_likelihood_evaluation_time", "resumed", "_optimiser",
    "info_enabled", "debug_enabled", "_resume_n_models",
    # FlowModel training scratch, set at the start of every training
    "_batch_size",
    # history entries that are time stamps
}
EXCLUDE_PATHS = {
    # 'initialised' is a stray pickling key shadowed by the property
    "_flow_proposal.initialised", "_uninformed_proposal.initialised",
    "proposal.initialised",
    "history.sampling_time",
}


def _h(b):
    return hashlib.sha1(b).hexdigest()[:16]


def _is_torch(o):
    try:
        import torch

        return isinstance(o, (torch.nn.Module, torch.Tensor, torch.device,
                              torch.optim.Optimizer))
    except Exception:
        return False


def flat(obj, path="", out=None, depth=0, seen=None):
    if out is None:
        out = {}
    if seen is None:
        seen = set()
    if path in EXCLUDE_PATHS:
        return out
    if obj is None or isinstance(obj, (bool, int, str)):
        out[path] = repr(obj)
    elif isinstance(obj, float):
        out[path] = repr(obj)
    elif isinstance(obj, np.generic):
        out[path] = repr(obj.item()) if obj.dtype.kind != "V" else \
            "row:" + _h(obj.tobytes())
    elif isinstance(obj, np.ndarray):
        a = np.ascontiguousarray(obj)
        if a.dtype == object:
            for i, v in enumerate(a.ravel().tolist()):
                flat(v, f"{path}[{i}]", out, depth + 1, seen)
        else:
            out[path] = f"arr:{a.dtype.str if a.dtype.names is None else 'struct'}:{a.shape}:{_h(a.tobytes())}"
    elif isinstance(obj, (datetime.timedelta, datetime.datetime)):
        return out
    elif isinstance(obj, (list, tuple, collections.deque)):
        seq = list(obj)
        if seq and all(isinstance(v, (int, float, np.floating, np.integer))
                       for v in seq):
            arr = np.array(seq, dtype=float)
            out[path] = f"list:{len(seq)}:{_h(arr.tobytes())}"
        elif seq and all(isinstance(v, np.void) or (
                isinstance(v, np.ndarray) and v.dtype.names)
                for v in seq):
            out[path] = f"rows:{len(seq)}:" + _h(
                b"".join(np.ascontiguousarray(v).tobytes() for v in seq))
        else:
            out[path + ".__len__"] = str(len(seq))
            for i, v in enumerate(seq):
                flat(v, f"{path}[{i}]", out, depth + 1, seen)
    elif isinstance(obj, dict):
        out[path + ".__keys__"] = repr(sorted(map(repr, obj.keys())))
        for k in sorted(obj.keys(), key=repr):
            if k in EXCLUDE_NAMES:
                continue
            flat(obj[k], f"{path}.{k}" if path else str(k), out, depth + 1,
                 seen)
    elif _is_torch(obj) or callable(obj) and not hasattr(obj, "__dict__"):
        return out
    elif hasattr(obj, "__dict__") and type(obj).__module__.startswith(
            "nessai"):
        if id(obj) in seen or depth > 12:
            out[path] = f"<ref {type(obj).__name__}>"
            return out
        seen.add(id(obj))
        out[path + ".__class__"] = type(obj).__name__
        for k in sorted(vars(obj)):
            if k in EXCLUDE_NAMES:
                continue
            flat(vars(obj)[k], f"{path}.{k}" if path else k, out, depth + 1,
                 seen)
    else:
        # foreign objects (functools.partial, torch distributions, ...):
        # only their type is observable here
        out[path] = f"<{type(obj).__name__}>"
    return out


def flow_weights(flowmodel):
    """Hash of the torch weights of a FlowModel / ImportanceFlowModel."""
    out = {}
    try:
        models = getattr(flowmodel, "models", None)
        if models is not None and len(models):
            items = list(enumerate(models))
        elif getattr(flowmodel, "model", None) is not None:
            items = [(0, flowmodel.model)]
        else:
            items = []
        for i, m in items:
            hsh = hashlib.sha1()
            for k, v in sorted(m.state_dict().items()):
                hsh.update(k.encode())
                hsh.update(v.detach().cpu().numpy().tobytes())
            out[f"flow[{i}]"] = hsh.hexdigest()[:16]
    except Exception as e:  # pragma: no cover
        out["error"] = repr(e)
    return out


def diff(a, b, ignore=()):
    keys = sorted(set(a) | set(b))
    out = []
    for k in keys:
        if any(k.startswith(p) or p in k for p in ignore):
            continue
        if a.get(k) != b.get(k):
            out.append((k, a.get(k), b.get(k)))
    return out
