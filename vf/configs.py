"""Hypothesis strategies for real-run configurations (documented values only).

Construction, not rejection: dependent options are generated together.
Each strategy returns a JSON-able *job* (see vf.driver) plus labels.
"""
from hypothesis import strategies as st

from .hyp import make_settings
import hypothesis
from hypothesis import given


def collect(strategy, seed, n, key=None):
    """Collect n distinct cases from a strategy (all random choices stay
    inside Hypothesis; the list is a function of the seed)."""
    from .core import jhash

    out, seen = [], set()

    @hypothesis.seed(seed)
    @make_settings(max_examples=n * 6, shrink=False)
    @given(strategy)
    def gather(case):
        k = jhash(key(case) if key else case)
        if k not in seen and len(out) < 3 * n:
            seen.add(k)
            out.append(case)

    gather()
    # Hypothesis mutates earlier examples: take a stride through the
    # distinct cases to reduce near-duplicates
    if len(out) > n:
        stride = len(out) // n
        out = out[::stride][:n]
    return out


# ------------------------------------------------------------------ models
def std_models(include_quantised=True):
    opts = [
        st.builds(lambda d, lo, hi: {"name": "gauss_uniform", "dims": d,
                                     "lo": lo, "hi": hi},
                  st.integers(2, 4), st.sampled_from([-5.0, -4.0, -8.0]),
                  st.sampled_from([5.0, 6.0, 8.0])),
        # parameters with different ranges and likelihood centres: a mix-up
        # of parameters is visible in bounds / likelihood values
        st.just({"name": "gauss_uniform", "dims": 2, "lo": [-5.0, 10.0],
                 "hi": [5.0, 20.0], "mu": [0.0, 15.0]}),
        st.just({"name": "gauss_uniform", "dims": 3, "lo": [-4.0, 0.0, -20.0],
                 "hi": [6.0, 3.0, -10.0], "mu": [1.0, 1.5, -15.0]}),
        # ... and a bounds dictionary whose keys are in an order of their own
        # (bounds are looked up by name: the order is free input)
        st.sampled_from([
            {"name": "gauss_uniform", "dims": 2, "lo": [-5.0, -2.0],
             "hi": [5.0, 12.0], "mu": [0.0, 8.0],
             "bounds_order": "reversed"},
            # the likelihood peaks beyond a bound: the posterior piles up
            # against the edge and the flow keeps proposing points outside
            {"name": "gauss_uniform", "dims": 2, "lo": [-1.0, -10.0],
             "hi": [1.0, 10.0], "mu": [1.5, 0.0],
             "bounds_order": "reversed"},
            {"name": "gauss_uniform", "dims": 3, "lo": [-4.0, 0.0, -6.0],
             "hi": [6.0, 3.0, 2.0], "mu": [1.0, 1.5, -2.0],
             "bounds_order": "reversed"}]),
        st.just({"name": "gauss_gauss", "dims": 2}),
        st.just({"name": "gauss_hole", "dims": 2}),
        # likelihood that is exactly zero on part of the prior volume
        st.sampled_from([{"name": "gauss_cut", "dims": 2},
                         # ... on most of it (draws are rejected while the
                         # initial live set is being filled)
                         {"name": "gauss_cut", "dims": 2, "cut": -6.0}]),
        st.just({"name": "periodic", "dims": 2}),
        st.just({"name": "gw_named"}),
        # a parameter with one finite and one infinite prior bound
        st.just({"name": "half_bounded"}),
    ]
    if include_quantised:
        opts.append(st.just({"name": "quantised", "dims": 2}))
    return st.one_of(opts)


def _fix_flow(cfg):
    # MaskedAutoregressiveFlow has no `linear_transform` argument
    if cfg["ftype"] == "maf":
        cfg = {k: v for k, v in cfg.items()
               if k not in ("linear_transform", "distribution")}
    if cfg.get("distribution", "") is None:
        cfg = {k: v for k, v in cfg.items() if k != "distribution"}
    return cfg


def flow_cfg(max_epochs=(10, 50), ftypes=("realnvp", "maf", "nsf")):
    return st.fixed_dictionaries(
        {
            "flow_config": st.fixed_dictionaries(
                {
                    "ftype": st.sampled_from(list(ftypes)),
                    "n_blocks": st.integers(1, 2),
                    "n_neurons": st.sampled_from([4, 8, 16]),
                    "n_layers": st.integers(1, 2),
                },
                optional={
                    "linear_transform": st.sampled_from(
                        [None, "permutation", "lu"]),
                    "batch_norm_between_layers": st.booleans(),
                    # base distribution with a learnt acceptance network
                    # whose normalisation is re-estimated when a training
                    # is finalised
                    "distribution": st.sampled_from([None, None, "lars"]),
                },
            ).map(_fix_flow),
            "training_config": st.fixed_dictionaries(
                {
                    "max_epochs": st.integers(*max_epochs),
                    "patience": st.sampled_from([5, 10]),
                    "batch_size": st.sampled_from([50, 100, 1000]),
                },
                optional={"lr": st.sampled_from([1e-3, 5e-3])},
            ),
        }
    )


@st.composite
def latent_options(draw):
    lp = draw(st.sampled_from(
        ["truncated_gaussian", "truncated_gaussian", "gaussian",
         "uniform_nsphere", "uniform_nball", "flow"]))
    out = {"latent_prior": lp}
    if lp in ("truncated_gaussian", "uniform_nsphere", "uniform_nball"):
        cvm = draw(st.booleans())
    else:
        cvm = False
    out["constant_volume_mode"] = cvm
    if cvm:
        out["volume_fraction"] = draw(st.sampled_from([0.9, 0.95, 0.99]))
    else:
        kind = draw(st.sampled_from(["fuzz", "expansion", "default"]))
        if kind == "fuzz":
            out["fuzz"] = draw(st.sampled_from([1.0, 1.1, 1.3]))
            out["expansion_fraction"] = None
        elif kind == "expansion":
            out["expansion_fraction"] = draw(st.sampled_from([1.0, 4.0]))
        if draw(st.booleans()):
            out["max_radius"] = draw(st.sampled_from([10.0, 50.0]))
        if draw(st.booleans()):
            out["min_radius"] = draw(st.sampled_from([0.5, 1.0]))
        if draw(st.integers(0, 5)) == 0 and lp != "flow":
            out["fixed_radius"] = draw(st.sampled_from([2.0, 3.0]))
        if draw(st.integers(0, 4)) == 0:
            out["compute_radius_with_all"] = True
    return out


def reparam_options(model):
    """Reparameterisation choices valid for the model (by construction)."""
    name = model["name"]
    general = [
        None,
        "default",
        "rescaletobounds",
        "zscore",
        "logit",
        "none",
        "inversion",
        "inversion-duplicate",
        "offset",
    ]
    choices = [st.sampled_from(general)]
    if name == "half_bounded":
        # reparameterisations that need a bounded prior only for x0
        return st.sampled_from([None, None, "zscore", "none",
                                {"x0": "default"}, {"x0": "logit"}])
    if name == "periodic":
        choices.append(st.sampled_from([
            {"phi": "angle-2pi"},
            {"angle-2pi": {"parameters": ["phi"]}},
            {"phi": {"reparameterisation": "angle", "scale": 1.0}},
        ]))
    if name == "gauss_uniform":
        choices.append(st.sampled_from([
            {"x0": "default", "x1": "logit"},
            # listed in an order different from the model's
            {"x1": "default", "x0": "logit"},
            {"x1": {"reparameterisation": "default"},
             "x0": {"reparameterisation": "default"}},
            {"x1": "logit"},
            {"default": {"parameters": ["x1", "x0"]}},
            {"default": {"parameters": ["x.*"], "rescale_bounds": [0, 1]}},
            # prior declared uniform for every parameter: the proposal then
            # evaluates the prior in the reparameterised space
            {"default": {"parameters": ["x.*"], "prior": "uniform"}},
            {"default": {"parameters": ["x.*"], "prior": "uniform",
                         "rescale_bounds": [0, 1]}},
            {"rescaletobounds": {"parameters": ["x.*"], "prior": "uniform",
                                 "rescale_bounds": [-2, 3],
                                 "update_bounds": False}},
            # several regular-expression patterns (matched in listed order)
            {"default": {"parameters": ["x[1-9]", "x0"]}},
            {"rescaletobounds": {"parameters": ["x[13579]", "x[02468]"]}},
            {"zscore": {"parameters": ["x[2-9]", "x1", "x0"]}},
            {"x0": {"reparameterisation": "default",
                    "update_bounds": False}},
            {"x0": {"reparameterisation": "inversion",
                    "detect_edges": True}},
            {"rescaletobounds": {"parameters": ["x0", "x1"],
                                 "boundary_inversion": ["x0"]}},
        ]))
    return st.one_of(choices)


@st.composite
def standard_job(draw, nlive=(20, 200), resume_cycles=(0, 0),
                 include_quantised=True, proposal_classes=None,
                 max_epochs=(10, 50), allow_ckpt_on_training=False,
                 iteration_checkpoints=True):
    model = draw(std_models(include_quantised))
    kw = {"seed": draw(st.integers(0, 2**31 - 1)),
          "nlive": draw(st.integers(*nlive)), "plot": False}
    kw.update(draw(flow_cfg(max_epochs)))
    labels = ["model:" + model["name"], "ftype:" +
              kw["flow_config"]["ftype"]]
    if kw["flow_config"].get("distribution"):
        labels.append("base-dist:" + kw["flow_config"]["distribution"])
    if model.get("bounds_order"):
        labels.append("bounds-dict-order:" + model["bounds_order"])
    # proposal class
    pcs = proposal_classes or ["flowproposal"] * 6 + [
        "augmentedflowproposal", "clusteringflowproposal"]
    if model["name"] == "gw_named":
        pc = draw(st.sampled_from(["gwflowproposal", "flowproposal"]))
    else:
        pc = draw(st.sampled_from(pcs))
    if pc != "flowproposal" or draw(st.booleans()):
        kw["flow_proposal_class"] = pc
    labels.append("proposal:" + pc)
    if pc == "augmentedflowproposal":
        # the augmented proposal configures a custom mask, which only the
        # RealNVP flow accepts
        kw["flow_config"]["ftype"] = "realnvp"
        kw["flow_config"].pop("linear_transform", None)
        labels[1] = "ftype:realnvp"
        if draw(st.booleans()):
            kw["augment_dims"] = draw(st.sampled_from([1, 2]))
        if draw(st.booleans()):
            kw["generate_augment"] = draw(
                st.sampled_from(["gaussian", "zeros"]))
    lat = draw(latent_options())
    if pc == "clusteringflowproposal" and lat["latent_prior"] in (
            "uniform_nsphere", "uniform_nball"):
        # the experimental clustering flow model cannot use an alternative
        # latent distribution (raises a bare RuntimeError); not generated
        lat = {"latent_prior": "truncated_gaussian",
               "constant_volume_mode": lat["constant_volume_mode"],
               **{k: v for k, v in lat.items() if k == "volume_fraction"}}
    kw.update(lat)
    labels.append("latent:" + lat["latent_prior"])
    labels.append("cvm:%s" % lat["constant_volume_mode"])
    if pc == "gwflowproposal":
        rp = draw(st.sampled_from([None, None, "default"]))
    else:
        rp = draw(reparam_options(model))
    if rp is not None:
        kw["reparameterisations"] = rp
    labels.append("reparam:" + (rp if isinstance(rp, str) else
                                "dict" if rp else "fallback"))
    # uninformed phase
    mu = draw(st.sampled_from(["default", "default", "small", "tiny"]))
    if mu == "small":
        kw["maximum_uninformed"] = draw(st.integers(kw["nlive"] // 2,
                                                    kw["nlive"]))
    elif mu == "tiny":
        kw["maximum_uninformed"] = draw(st.integers(1, 10))
    labels.append("uninformed:" + mu)
    if model["name"] == "gauss_gauss" and draw(st.booleans()):
        model = dict(model, analytic_new_point=True)
        kw["analytic_priors"] = True
        labels.append("analytic_priors")
    # pool / draw sizes and training policy
    if draw(st.booleans()):
        kw["poolsize"] = draw(st.integers(20, 400))
    if draw(st.booleans()):
        kw["drawsize"] = draw(st.integers(50, 2000))
    for name, vals in (
        ("update_poolsize", [True, False]),
        ("accumulate_weights", [True, False]),
        ("truncate_log_q", [True, False]),
        ("check_acceptance", [True, False]),
        ("train_on_empty", [True, False]),
        ("reset_weights", [False, True, 2]),
        ("reset_permutations", [False, True, 2]),
        ("reset_flow", [False, True, 3]),
        ("retrain_acceptance", [True, False]),
        ("reset_acceptance", [True, False]),
        ("cooldown", [10, 50, 200]),
        ("training_frequency", [None, 50, 100]),
        ("memory", [False, 50]),
        ("shrinkage_expectation", ["logt", "t"]),
        ("acceptance_threshold", [0.01, 0.05]),
    ):
        if draw(st.integers(0, 3)) == 0:
            kw[name] = draw(st.sampled_from(vals))
            labels.append(f"{name}:{kw[name]}")
    if pc == "clusteringflowproposal":
        # experimental class: its population loop with accumulated weights
        # is pathologically slow (decided by C20/C09, not here)
        kw.pop("accumulate_weights", None)
    if not kw.get("train_on_empty", True) and "training_frequency" not in kw:
        kw["training_frequency"] = 50
    # stopping
    if model["name"] == "quantised" or draw(st.integers(0, 2)) == 0:
        kw["max_iteration"] = draw(st.integers(kw["nlive"] * 2,
                                               kw["nlive"] * 6))
        labels.append("max_iteration")
    if draw(st.integers(0, 3)) == 0:
        kw["stopping"] = draw(st.sampled_from([0.5, 1.0, 0.01]))
    # checkpointing
    if iteration_checkpoints:
        kw["checkpointing"] = True
        if draw(st.integers(0, 3)) == 0:
            # time-triggered with a zero interval: a checkpoint at every
            # opportunity (every iteration boundary, and directly after a
            # training with checkpoint_on_training)
            kw["checkpoint_on_iteration"] = False
            kw["checkpoint_interval"] = 0
            labels.append("checkpoint:time-0")
        else:
            kw["checkpoint_on_iteration"] = True
            kw["checkpoint_interval"] = draw(st.integers(1, kw["nlive"]))
    if allow_ckpt_on_training and draw(st.integers(0, 2)) == 0:
        kw["checkpoint_on_training"] = True
        labels.append("checkpoint_on_training")
    n_cycles = draw(st.integers(*resume_cycles))
    kills = []
    for i in range(n_cycles):
        # fractions of the number of likelihood evaluations of the
        # uninterrupted (probe) run: kills land anywhere in the run; or a
        # structural event (k-th pool population / k-th training start),
        # which reaches the boundaries a random instant rarely hits (first
        # population after the switch, between training and population)
        which = draw(st.integers(0, 3))
        if which == 0:
            kills.append({"event": draw(st.sampled_from(
                ["population", "population", "training"])),
                "k": draw(st.integers(1, 3))})
        elif which == 3:
            # between two iterations, some way into flow sampling (kills at
            # likelihood calls all fall at the start of a population)
            kills.append({"event": "iteration",
                          "k": kw["nlive"] + draw(st.integers(5, 250))})
        else:
            kills.append(draw(st.floats(0.02, 0.97 if i == 0 else 0.6)))
    if kills:
        labels.append(f"kills:{len(kills)}")
    return {"model": model, "ins": False, "kwargs": kw, "kills": kills,
            "labels": labels}


def history_from(case, monitors, post=(), call_log=False, extra=None):
    """Turn a generated case into a history: killed steps then a final
    resume to completion."""
    steps = []
    base = {"model": case["model"], "ins": case["ins"],
            "kwargs": case["kwargs"], "monitors": list(monitors),
            "post": list(post), "call_log": call_log,
            "run_kwargs": case.get("run_kwargs", {})}
    if extra:
        base.update(extra)
    if case.get("mid_ckpt_kill"):
        steps.append(dict(base, kill_after_mid_checkpoint=True))
    for k in case.get("kills", []):
        if isinstance(k, dict):
            steps.append(dict(base, kill_event=k))
        else:
            steps.append(dict(base, kill_frac=k))
    steps.append(dict(base))
    return {"steps": steps, "until_completed": True,
            "probe": any(not isinstance(k, dict)
                         for k in case.get("kills", []))}


# ------------------------------------------------------------------ INS
def ins_models():
    return st.one_of(
        st.builds(lambda d: {"name": "gauss_uniform", "dims": d},
                  st.integers(2, 4)),
        # parameters with different ranges, bounds dictionary in an order of
        # its own
        st.sampled_from([
            {"name": "gauss_uniform", "dims": 2, "lo": [-5.0, -2.0],
             "hi": [5.0, 12.0], "mu": [0.0, 8.0],
             "bounds_order": "reversed"},
            {"name": "gauss_uniform", "dims": 2, "lo": [-1.0, -10.0],
             "hi": [1.0, 10.0], "mu": [1.5, 0.0],
             "bounds_order": "reversed"}]),
        # an unnormalised likelihood: log-evidence far outside the range of
        # exp in double precision
        st.sampled_from([
            {"name": "gauss_uniform", "dims": 2, "offset": -1000.0},
            {"name": "gauss_uniform", "dims": 2, "offset": 600.0}]),
        # log_prior without a test of the bounds (the plain density)
        st.just({"name": "gauss_uniform", "dims": 2,
                 "prior_bounds_check": False}),
        st.just({"name": "gauss_gauss", "dims": 2}),
        st.just({"name": "rosenbrock", "dims": 2}),
        st.just({"name": "gauss_hole", "dims": 2}),
        st.just({"name": "gauss_hole", "dims": 2, "cut": -1.0}),
        # likelihood that is exactly zero on part of the prior volume
        st.just({"name": "gauss_cut", "dims": 2}),
        # prior that is not uniform on the unit hypercube (the model
        # overrides log_prior_unit_hypercube)
        st.just({"name": "gauss_affine", "dims": 2}),
    )


@st.composite
def ins_job(draw, resume_cycles=(0, 0), nlive=(100, 500),
            criteria=False):
    model = draw(ins_models())
    n = draw(st.integers(*nlive))
    kw = {"seed": draw(st.integers(0, 2**31 - 1)), "nlive": n,
          "plot": False,
          "min_samples": draw(st.integers(10, max(10, n // 2))),
          "max_iteration": draw(st.integers(3, 12))}
    labels = ["model:" + model["name"]]
    kw["flow_config"] = {
        "ftype": draw(st.sampled_from(["realnvp", "nsf", "maf"])),
        "n_blocks": draw(st.integers(1, 2)),
        "n_neurons": draw(st.sampled_from([8, 16])),
    }
    labels.append("ftype:" + kw["flow_config"]["ftype"])
    if kw["flow_config"]["ftype"] != "maf" and \
            draw(st.integers(0, 5)) == 0:
        # base distribution given as an object with learnable parameters
        # (every level builds its flow from this one configuration)
        kw["flow_config"]["distribution"] = {"__dist__": draw(
            st.sampled_from(["learnable-instance", "learnable-class"]))}
        labels.append("base-dist:learnable-object")
    elif kw["flow_config"]["ftype"] != "maf" and \
            draw(st.integers(0, 5)) == 0:
        # base distribution whose normalisation is re-estimated when a
        # training is finalised
        kw["flow_config"]["distribution"] = "lars"
        labels.append("base-dist:lars")
    kw["training_config"] = {
        "max_epochs": draw(st.integers(100, 200)),
        "patience": draw(st.sampled_from([10, 20])),
    }
    if draw(st.booleans()):
        kw["n_initial"] = draw(st.integers(n // 2, 2 * n))
    rep = draw(st.sampled_from(["logit", "logit", None]))
    kw["reparameterisation"] = rep
    labels.append(f"reparam:{rep}")
    strict = draw(st.booleans())
    kw["strict_threshold"] = strict
    labels.append(f"strict:{strict}")
    if draw(st.integers(0, 3)) == 0:
        kw["replace_all"] = True
        labels.append("replace_all")
    dc = draw(st.booleans())
    kw["draw_constant"] = dc
    labels.append(f"draw_constant:{dc}")
    iid = draw(st.sampled_from([True, True, False]))
    kw["draw_iid_live"] = iid
    labels.append(f"iid:{iid}")
    tm = draw(st.sampled_from(["entropy", "quantile"]))
    kw["threshold_method"] = tm
    labels.append("threshold:" + tm)
    if tm == "entropy":
        tk = {"q": draw(st.sampled_from([0.3, 0.5, 0.7]))}
        if draw(st.booleans()):
            tk["include_likelihood"] = draw(st.booleans())
        if draw(st.booleans()):
            tk["use_log_weights"] = draw(st.booleans())
    else:
        tk = {"q": draw(st.sampled_from([0.5, 0.8, 0.9]))}
        if draw(st.booleans()):
            tk["include_likelihood"] = draw(st.booleans())
    if draw(st.booleans()):
        kw["threshold_kwargs"] = tk
    for name, vals in (
        ("weighted_kl", [True, False]),
        ("reset_flow", [True, False, 2]),
        ("clip", [True, False]),
        ("save_log_q", [True, False]),
        ("min_remove", [1, 5, 20]),
        ("save_existing_checkpoint", [True, False]),
    ):
        if draw(st.integers(0, 2)) == 0:
            kw[name] = draw(st.sampled_from(vals))
            labels.append(f"{name}:{kw[name]}")
    if dc and draw(st.integers(0, 3)) == 0:
        # a loose cap, or one tighter than nlive + min_samples (the cap then
        # pushes the threshold above the point where min_samples live
        # samples remain)
        kw["max_samples"] = draw(st.one_of(
            st.integers(2 * n + 1, 6 * n),
            st.integers(n + 1, n + max(2, kw["min_samples"]))))
        labels.append("max_samples" if kw["max_samples"] > 2 * n
                      else "max_samples:tight")
    kw["checkpointing"] = True
    kw["checkpoint_on_iteration"] = True
    kw["checkpoint_interval"] = draw(st.integers(1, 3))
    n_cycles = draw(st.integers(*resume_cycles))
    if n_cycles and kw["checkpoint_interval"] == 3:
        # with 6-12 iterations a first checkpoint after the third one leaves
        # most kills without anything to resume from
        kw["checkpoint_interval"] = 1
    kills = []
    for i in range(n_cycles):
        if draw(st.integers(0, 3)) == 0:
            # the k-th level is drawn in iteration k: later than the first
            # checkpoint, so that the next process resumes
            # (the event counts ImportanceFlowProposal.draw calls: two per
            # iteration with draw_iid_live)
            dpi = 2 if kw["draw_iid_live"] else 1
            kills.append({"event": "level",
                          "k": dpi * (kw["checkpoint_interval"]
                                      + draw(st.integers(0, 2)))
                          + draw(st.integers(1, dpi))})
        else:
            kills.append(draw(st.floats(0.3, 0.97 if i == 0 else 0.6)))
    if kills:
        labels.append(f"kills:{len(kills)}")
        kw["max_iteration"] = max(kw["max_iteration"], 6)
    return {"model": model, "ins": True, "kwargs": kw, "kills": kills,
            "labels": labels}


# ------------------------------------------------------------------ C15
@st.composite
def stop_job(draw):
    """Small runs that exercise the stopping rules of both samplers; a
    quarter of them with a process kill between the last checkpoint of the
    sampling loop and the checkpoint of the finalised run."""
    case = draw(_stop_job())
    if draw(st.sampled_from([False, False, False, True])):
        case["kill_at_finalise"] = True
        case["labels"].append("history:kill-at-finalise")
        # a checkpoint at every iteration boundary, so that the one of the
        # stopping iteration exists
        case["kwargs"]["checkpoint_on_iteration"] = True
        case["kwargs"]["checkpoint_interval"] = 1
    return case


@st.composite
def _stop_job(draw):
    if draw(st.booleans()):
        model = draw(st.sampled_from([
            {"name": "gauss_uniform", "dims": 2},
            {"name": "gauss_uniform", "dims": 3},
            {"name": "gauss_gauss", "dims": 2},
        ]))
        n = draw(st.integers(30, 150))
        kw = {"seed": draw(st.integers(0, 2**31 - 1)), "nlive": n,
              "plot": False,
              "stopping": draw(st.sampled_from([0.01, 0.1, 0.5, 1.0, 5.0])),
              "flow_config": {"n_blocks": 2, "n_neurons": 8},
              "training_config": {"max_epochs": draw(st.integers(10, 40)),
                                  "patience": 5},
              "checkpointing": True, "checkpoint_on_iteration": True,
              "checkpoint_interval": draw(st.integers(10, 100))}
        labels = ["sampler:standard", f"stopping:{kw['stopping']}"]
        if draw(st.integers(0, 2)) == 0:
            kw["max_iteration"] = draw(st.integers(n, 5 * n))
            labels.append("with-cap")
        if draw(st.booleans()):
            kw["shrinkage_expectation"] = draw(st.sampled_from(["t", "logt"]))
        if draw(st.integers(0, 7)) == 0:
            # the run finishes as soon as the initial live points have been
            # drawn and consumed
            kw["prior_sampling"] = True
            labels.append("prior_sampling")
        return {"model": model, "ins": False, "kwargs": kw, "kills": [],
                "labels": labels}
    model = draw(st.sampled_from([
        {"name": "gauss_uniform", "dims": 2},
        {"name": "gauss_gauss", "dims": 2},
    ]))
    n = draw(st.integers(100, 400))
    crits = {
        "ratio": [0.0, -1.0, 1.0], "ratio_all": [0.0], "ratio_ns": [0.0, 2.0],
        "Z_err": [1.05, 1.2], "evidence_error": [1.1],
        "log_dZ": [0.05, 0.5], "log_evidence": [0.1],
        "ess": [500.0, 5000.0], "fractional_error": [0.02, 0.1],
    }
    k = draw(st.sampled_from([1, 1, 2, 3]))
    names = draw(st.lists(st.sampled_from(sorted(crits)), min_size=k,
                          max_size=k, unique=True))
    tols = [draw(st.sampled_from(crits[c])) for c in names]
    kw = {"seed": draw(st.integers(0, 2**31 - 1)), "nlive": n, "plot": False,
          "min_samples": draw(st.integers(20, n // 2)),
          "flow_config": {"n_blocks": 2, "n_neurons": 8,
                          "ftype": draw(st.sampled_from(["realnvp", "nsf"]))},
          "training_config": {"max_epochs": draw(st.integers(100, 200)),
                              "patience": 10},
          "max_iteration": draw(st.integers(4, 14)),
          "checkpointing": True, "checkpoint_on_iteration": True,
          "checkpoint_interval": 1}
    if k == 1 and draw(st.booleans()):
        kw["stopping_criterion"] = names[0]
        kw["tolerance"] = tols[0]
    else:
        kw["stopping_criterion"] = names
        kw["tolerance"] = tols
        kw["check_criteria"] = draw(st.sampled_from(["any", "all"]))
    if draw(st.booleans()):
        kw["min_iteration"] = draw(st.integers(0, 6))
    if draw(st.integers(0, 2)) == 0:
        kw["draw_iid_live"] = False
    labels = ["sampler:ins"] + ["criterion:" + c for c in names] + \
        [f"n_criteria:{k}", "check:" + kw.get("check_criteria", "any")]
    if model["name"] == "gauss_uniform" and draw(st.integers(0, 3)) == 0:
        # unnormalised likelihood: a constant offset of the log-likelihood
        # must not change any criterion except through logZ itself
        model = dict(model, offset=draw(st.sampled_from(
            [-800.0, -3000.0, 500.0])))
        labels.append("loglikelihood-offset:%g" % model["offset"])
    return {"model": model, "ins": True, "kwargs": kw, "kills": [],
            "labels": labels}
