"""Finite-difference Jacobians for C07 (no nessai import).

Five-node stencils (central, or one-sided next to a fold / cut / box edge)
with weights computed from the *actual* node offsets, so that rounding of
x + k*h does not enter the derivative.  Steps never reach an obstacle:

    kind SING : the map is singular there (logit/log bound, pole, origin);
                the step is limited to room/32 so the stencil spans at most
                room/8 and the function varies by O(1) over it.
    kind CUT  : the map is smooth up to the obstacle but must not be crossed
                (fold of an inversion, branch cut, box edge); a one-sided
                stencil pointing away is used when there is no room for a
                central one.
"""
import numpy as np

CUT, SING = 0, 1
_CENTRAL = np.array([-2.0, -1.0, 0.0, 1.0, 2.0])
_PLUS = np.array([0.0, 1.0, 2.0, 3.0, 4.0])


def plan_stencils(X0, hpref, room, kind):
    """Choose step and node multipliers.

    X0 (M,d), hpref (M,d), room (M,d,2) [minus, plus], kind (M,d,2).
    Returns h (M,d), mult (M,d,5), ok (M,d).
    """
    X0 = np.asarray(X0, dtype=float)
    M, d = X0.shape
    with np.errstate(all="ignore"):
        sing = np.where(kind == SING, room, np.inf).min(axis=2)
        h = np.minimum(hpref, sing / 32.0)
        cut = np.where(kind == CUT, room, np.inf)
        rm, rp = cut[..., 0], cut[..., 1]
        central = (rm >= 2.5 * h) & (rp >= 2.5 * h)
        plus = ~central & (rp >= 4.5 * h) & (rp >= rm)
        minus = ~central & ~plus & (rm >= 4.5 * h)
        # no room for a one-sided stencil at the preferred step: shrink
        rest = ~central & ~plus & ~minus
        big = np.maximum(rm, rp)
        h = np.where(rest, big / 4.5, h)
        plus = plus | (rest & (rp >= rm))
        minus = minus | (rest & (rp < rm))
    mult = np.empty((M, d, 5))
    mult[:] = _CENTRAL
    mult[plus] = _PLUS
    mult[minus] = -_PLUS
    hmin = 256.0 * np.spacing(np.maximum(np.abs(X0), np.finfo(float).tiny))
    ok = np.isfinite(h) & (h > 0) & (h >= hmin)
    h = np.where(ok, h, 0.0)
    return h, mult, ok


def _weights(tau):
    """First-derivative weights at 0 for nodes tau (M,5) (normalised)."""
    V = np.stack([tau ** p for p in range(5)], axis=1)  # (M,5,5)
    rhs = np.zeros((tau.shape[0], 5, 1))
    rhs[:, 1, 0] = 1.0
    return np.linalg.solve(V, rhs)[..., 0]


def jacobians(func, X0, h, mult, ok):
    """func: (M,d) -> (B,M,d).  Returns J (B,M,d,d) and valid (M,)."""
    X0 = np.asarray(X0, dtype=float)
    M, d = X0.shape
    J = None
    valid = ok.all(axis=1)
    for j in range(d):
        Ys, ts = [], []
        for k in range(5):
            X = X0.copy()
            X[:, j] = X0[:, j] + np.where(valid, mult[:, j, k] * h[:, j], 0.0)
            Y = np.asarray(func(X), dtype=float)
            Ys.append(Y)
            ts.append(X[:, j] - X0[:, j])
        t = np.stack(ts, axis=1)  # (M,5)
        hj = np.where(valid, h[:, j], 1.0)
        tau = np.where(valid[:, None], t / hj[:, None], _CENTRAL[None, :])
        # coincident nodes (unresolvable step) -> invalid
        srt = np.sort(tau, axis=1)
        bad = (np.diff(srt, axis=1) < 0.25).any(axis=1)
        valid = valid & ~bad
        tau = np.where(bad[:, None], _CENTRAL[None, :], tau)
        w = _weights(tau) / hj[:, None]  # (M,5)
        Y = np.stack(Ys, axis=0)  # (5,B,M,d)
        col = np.einsum("mk,kbmo->bmo", w, Y)
        if J is None:
            J = np.zeros(col.shape + (d,))
        J[..., j] = col
    return J, valid


def fd_logdet(func, X0, hpref, room, kind):
    """log|det dfunc/dX| with an error estimate from two step sizes.

    Returns ld (B,M), est (B,M), valid (M,), n_onesided.
    """
    h, mult, ok = plan_stencils(X0, hpref, room, kind)
    out = []
    valid = None
    for hh in (h, h / 2.0):
        J, v = jacobians(func, X0, hh, mult, ok)
        with np.errstate(all="ignore"):
            sign, ld = np.linalg.slogdet(np.where(np.isfinite(J), J, 0.0))
        fin = np.isfinite(J).all(axis=(2, 3)) & (sign != 0)
        ld = np.where(fin, ld, np.nan)
        out.append(ld)
        valid = v if valid is None else (valid & v)
    with np.errstate(all="ignore"):
        est = np.abs(out[0] - out[1])
        # both are O(h^4): extrapolate the truncation term away
        ld = out[1] + (out[1] - out[0]) / 15.0
    onesided = int(((mult[..., 0] == 0).any(axis=1) & valid).sum())
    return ld, est, valid, onesided


def ray_rooms(px, py, phis):
    """Distance along the two coordinate axes from (px,py) to the rays from
    the origin at angles `phis`.  Returns room (M,2,2) [coord, side]."""
    px = np.asarray(px, dtype=float)
    py = np.asarray(py, dtype=float)
    M = px.size
    room = np.full((M, 2, 2), np.inf)
    for phi in phis:
        dx, dy = np.cos(phi), np.sin(phi)
        # snap the exact axes (cos/sin of pi are not exact)
        if abs(dx) < 1e-15:
            dx = 0.0
        if abs(dy) < 1e-15:
            dy = 0.0
        cross = px * dy - py * dx
        for j, exd in ((0, dy), (1, -dx)):
            if exd == 0.0:
                # moving parallel to the ray: on it only if cross == 0,
                # which is continuous along the ray
                continue
            t = -cross / exd
            qx = px + (t if j == 0 else 0.0)
            qy = py + (t if j == 1 else 0.0)
            hit = (qx * dx + qy * dy) >= 0
            pos = hit & (t > 0)
            neg = hit & (t < 0)
            zero = hit & (t == 0)
            room[pos, j, 1] = np.minimum(room[pos, j, 1], t[pos])
            room[neg, j, 0] = np.minimum(room[neg, j, 0], -t[neg])
            room[zero, j, 0] = 0.0
            room[zero, j, 1] = 0.0
    return room
