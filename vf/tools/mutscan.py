"""Systematic sensitivity scan: generate first-order source mutants of a
nessai file (restricted to named scopes), discard those the pinned unit tests
already reject, and run a property's check against each of the rest.

  python -m vf.tools.mutscan C04 nessai/samplers/importancesampler.py \
      --scope 'OrderedSamples\\.' --tests tests/test_samplers/test_importance_nested_sampler \
      [--max 80] [--seed 1] [--jobs 16] [--checkjobs 1] [--out notes/mutscan]

Mutation operators (one change per mutant, applied to the exact source range
reported by `ast`): comparison swaps (< <= > >= == != is/is not), arithmetic
swaps (+ - * /), boolean swaps (and/or, dropped `not`), small integer
constants +-1, True/False, min/max, np.min/np.max..., `side=` of searchsorted,
deleted statement (expression statements, augmented assignments and
assignments to attributes / subscripts -> `pass`), `break`<->`continue` is
not generated (non-termination).

Every mutant lives in its own scratch copy under /tmp (removed afterwards);
the check runs through VERIF_REPO with evidence redirected (VERIF_OUT).
Result: JSON report {killed_by_tests, killed_by_check, survived, harness}
with the diff of every survivor; survivors have to be triaged by hand
(equivalent / outside the property / genuinely missed).
"""
import argparse
import ast
import concurrent.futures as cf
import difflib
import hashlib
import json
import os
import random
import re
import shutil
import subprocess
import sys
import tempfile
import time

ROOT = os.path.dirname(os.path.dirname(os.path.dirname(
    os.path.abspath(__file__))))

CMP = {ast.Lt: "<=", ast.LtE: "<", ast.Gt: ">=", ast.GtE: ">",
       ast.Eq: "!=", ast.NotEq: "==", ast.Is: "is not", ast.IsNot: "is"}
BIN = {ast.Add: "-", ast.Sub: "+", ast.Mult: "/", ast.Div: "*",
       ast.FloorDiv: "/"}
NAME_SWAP = {"min": "max", "max": "min", "any": "all", "all": "any",
             "floor": "ceil", "ceil": "floor", "argmin": "argmax",
             "argmax": "argmin", "minimum": "maximum", "maximum": "minimum",
             "cumsum": "cumprod", "logaddexp": "logsubexp"}


class Collector(ast.NodeVisitor):
    def __init__(self, src, scope_re):
        self.src = src
        self.lines = src.splitlines(keepends=True)
        self.offs = [0]
        for ln in self.lines:
            self.offs.append(self.offs[-1] + len(ln))
        self.scope_re = re.compile(scope_re) if scope_re else None
        self.stack = []
        self.muts = []  # (start, end, replacement, description, qualname)

    def pos(self, lineno, col):
        # ast columns are utf-8 byte offsets; sources are ASCII here
        return self.offs[lineno - 1] + col

    def rng(self, node):
        return (self.pos(node.lineno, node.col_offset),
                self.pos(node.end_lineno, node.end_col_offset))

    def in_scope(self):
        q = ".".join(self.stack)
        if not self.stack:
            return False
        return self.scope_re is None or self.scope_re.search(q + ".")

    def add(self, start, end, repl, desc):
        if self.in_scope():
            self.muts.append((start, end, repl, desc, ".".join(self.stack)))

    def visit_ClassDef(self, node):
        self.stack.append(node.name)
        self.generic_visit(node)
        self.stack.pop()

    def visit_FunctionDef(self, node):
        self.stack.append(node.name)
        # skip the docstring
        body = node.body
        if body and isinstance(body[0], ast.Expr) and isinstance(
                getattr(body[0], "value", None), ast.Constant) and isinstance(
                body[0].value.value, str):
            body = body[1:]
        for d in node.decorator_list:
            pass
        for a in body:
            self.visit(a)
        self.stack.pop()

    visit_AsyncFunctionDef = visit_FunctionDef

    def between(self, left, right):
        """source range between two sibling nodes (the operator)"""
        s = self.rng(left)[1]
        e = self.rng(right)[0]
        return s, e

    def visit_Compare(self, node):
        left = node.left
        for op, right in zip(node.ops, node.comparators):
            if type(op) in CMP:
                s, e = self.between(left, right)
                seg = self.src[s:e]
                # parentheses may sit between operand and operator
                tok = {ast.Lt: "<", ast.LtE: "<=", ast.Gt: ">", ast.GtE: ">=",
                       ast.Eq: "==", ast.NotEq: "!=", ast.Is: "is",
                       ast.IsNot: "is not"}[type(op)]
                m = re.search(r"is\s+not" if tok == "is not" else
                              (r"\bis\b" if tok == "is" else re.escape(tok)),
                              seg)
                if m:
                    self.add(s + m.start(), s + m.end(), CMP[type(op)],
                             f"cmp {tok} -> {CMP[type(op)]}")
            left = right
        self.generic_visit(node)

    def visit_BinOp(self, node):
        if type(node.op) in BIN:
            # skip string formatting / concatenation of literals
            if not (isinstance(node.left, ast.Constant) and isinstance(
                    node.left.value, str)) and not isinstance(
                    node.left, ast.JoinedStr) and not isinstance(
                    node.right, ast.JoinedStr) and not (
                    isinstance(node.right, ast.Constant) and isinstance(
                        node.right.value, str)):
                s, e = self.between(node.left, node.right)
                seg = self.src[s:e]
                tok = {ast.Add: "+", ast.Sub: "-", ast.Mult: "*",
                       ast.Div: "/", ast.FloorDiv: "//"}[type(node.op)]
                i = seg.find(tok)
                if i >= 0:
                    self.add(s + i, s + i + len(tok), BIN[type(node.op)],
                             f"binop {tok} -> {BIN[type(node.op)]}")
        self.generic_visit(node)

    def visit_BoolOp(self, node):
        tok = "and" if isinstance(node.op, ast.And) else "or"
        new = "or" if tok == "and" else "and"
        for a, b in zip(node.values, node.values[1:]):
            s, e = self.between(a, b)
            m = re.search(r"\b%s\b" % tok, self.src[s:e])
            if m:
                self.add(s + m.start(), s + m.end(), new,
                         f"bool {tok} -> {new}")
        self.generic_visit(node)

    def visit_UnaryOp(self, node):
        if isinstance(node.op, ast.Not):
            s, e = self.rng(node)
            os_, _ = self.rng(node.operand)
            self.add(s, os_, "", "drop not")
        elif isinstance(node.op, ast.USub) and not isinstance(
                node.operand, ast.Constant):
            s, e = self.rng(node)
            os_, _ = self.rng(node.operand)
            self.add(s, os_, "", "drop unary minus")
        self.generic_visit(node)

    def visit_Constant(self, node):
        v = node.value
        s, e = self.rng(node)
        if isinstance(v, bool):
            self.add(s, e, str(not v), f"const {v} -> {not v}")
        elif isinstance(v, int) and -3 <= v <= 64 and self.src[s:e].isdigit():
            self.add(s, e, str(v + 1), f"const {v} -> {v + 1}")
            if v >= 1:
                self.add(s, e, str(v - 1), f"const {v} -> {v - 1}")
        elif isinstance(v, str) and v in ("left", "right"):
            new = "right" if v == "left" else "left"
            self.add(s, e, repr(new), f"const {v!r} -> {new!r}")

    def visit_Name(self, node):
        if node.id in NAME_SWAP and isinstance(node.ctx, ast.Load):
            s, e = self.rng(node)
            self.add(s, e, NAME_SWAP[node.id],
                     f"name {node.id} -> {NAME_SWAP[node.id]}")

    def visit_Attribute(self, node):
        if node.attr in NAME_SWAP and isinstance(node.ctx, ast.Load):
            s, e = self.rng(node)
            self.add(e - len(node.attr), e, NAME_SWAP[node.attr],
                     f"attr .{node.attr} -> .{NAME_SWAP[node.attr]}")
        self.generic_visit(node)

    def _del_stmt(self, node, what):
        s, e = self.rng(node)
        self.add(s, e, "pass", f"delete {what}")

    def visit_Expr(self, node):
        if isinstance(node.value, ast.Call):
            f = node.value.func
            name = getattr(f, "attr", getattr(f, "id", ""))
            if name not in ("debug", "info", "warning", "critical", "error",
                            "warn", "print", "set_postfix", "update",
                            "set_description"):
                self._del_stmt(node, f"call {name}")
        self.generic_visit(node)

    def visit_AugAssign(self, node):
        self._del_stmt(node, "augassign")
        self.generic_visit(node)

    def visit_Assign(self, node):
        if any(isinstance(t, (ast.Attribute, ast.Subscript))
               for t in node.targets):
            self._del_stmt(node, "assign")
        self.generic_visit(node)

    def visit_Raise(self, node):
        return  # messages / error paths are not mutated

    def visit_Assert(self, node):
        return

    def visit_JoinedStr(self, node):
        return

    def visit_If(self, node):
        # negate the condition
        s, e = self.rng(node.test)
        self.add(s, e, "not (" + self.src[s:e] + ")", "negate if")
        self.generic_visit(node)


def mutants_of(path, scope_re):
    src = open(path).read()
    tree = ast.parse(src)
    c = Collector(src, scope_re)
    c.visit(tree)
    out = []
    seen = set()
    for s, e, repl, desc, q in c.muts:
        new = src[:s] + repl + src[e:]
        h = hashlib.sha1(new.encode()).hexdigest()
        if h in seen or new == src:
            continue
        seen.add(h)
        try:
            compile(new, path, "exec")
        except SyntaxError:
            continue
        line = src.count("\n", 0, s) + 1
        out.append({"id": h[:10], "desc": desc, "scope": q, "line": line,
                    "new_src": new})
    return src, out


def diff_of(src, new, rel):
    return "".join(difflib.unified_diff(
        src.splitlines(keepends=True), new.splitlines(keepends=True),
        "a/" + rel, "b/" + rel, n=2))


def make_copy(repo, rel, new_src):
    tmp = tempfile.mkdtemp(prefix="vfms-")
    shutil.copytree(os.path.join(repo, "nessai"), os.path.join(tmp, "nessai"),
                    ignore=shutil.ignore_patterns("__pycache__"))
    with open(os.path.join(tmp, rel), "w") as f:
        f.write(new_src)
    return tmp


def run_tests(repo, tmp, tests, timeout=900):
    env = dict(os.environ, PYTHONPATH=tmp, MPLBACKEND="Agg",
               PYTHONDONTWRITEBYTECODE="1", OMP_NUM_THREADS="1",
               MKL_NUM_THREADS="1")
    cmd = ["/venv/bin/python", "-m", "pytest", "-x", "-q", "-p",
           "no:cacheprovider", "--timeout=600",
           "--deselect", "tests/test_plot.py::test_corner_plot_w_include_and_truths",
           "-o", "addopts=", ] + tests
    try:
        r = subprocess.run(cmd, cwd=repo, env=env, capture_output=True,
                           text=True, timeout=timeout)
    except subprocess.TimeoutExpired:
        return "timeout", ""
    tail = (r.stdout + r.stderr).strip().splitlines()[-3:]
    return ("pass" if r.returncode == 0 else "fail"), " | ".join(tail)


def run_check(check, tmp, seed, tier, nproc=None, timeout=3600):
    out = os.path.join(tmp, "out")
    env = dict(os.environ, VERIF_REPO=tmp, VERIF_OUT=out, VERIF_SEED=str(seed))
    if nproc:
        env["VERIF_NPROC"] = str(nproc)
    t0 = time.time()
    try:
        r = subprocess.run([os.path.join(ROOT, "check"), check, "--tier",
                            tier], env=env, capture_output=True, text=True,
                           timeout=timeout)
        rc = r.returncode
        lines = (r.stdout + r.stderr).strip().splitlines()
    except subprocess.TimeoutExpired:
        rc, lines = -1, ["check timed out"]
    keys = [ln.strip()[:300] for ln in lines
            if ln.startswith("  ") and ":" in ln][:4]
    tail = lines[-3:]
    return rc, keys, tail, round(time.time() - t0, 1)


def main():
    ap = argparse.ArgumentParser()
    ap.add_argument("check")
    ap.add_argument("file")
    ap.add_argument("--scope", default=None,
                    help="regex searched in 'Class.function.' qualnames")
    ap.add_argument("--tests", nargs="*", default=[])
    ap.add_argument("--max", type=int, default=60)
    ap.add_argument("--seed", type=int, default=1)
    ap.add_argument("--tier", default="quick")
    ap.add_argument("--jobs", type=int, default=16)
    ap.add_argument("--checkjobs", type=int, default=1)
    ap.add_argument("--checknproc", type=int, default=None)
    ap.add_argument("--repo", default="/repo")
    ap.add_argument("--out", default=os.path.join(ROOT, "notes", "mutscan"))
    ap.add_argument("--list", action="store_true")
    ap.add_argument("--checks", nargs="*", default=None,
                    help="further checks to run on survivors")
    a = ap.parse_args()
    path = os.path.join(a.repo, a.file)
    src, muts = mutants_of(path, a.scope)
    rnd = random.Random(a.seed)  # selection of mutants only (tooling)
    rnd.shuffle(muts)
    muts = muts[: a.max]
    muts.sort(key=lambda m: m["line"])
    print(f"[mutscan] {len(muts)} mutants of {a.file} scope={a.scope}")
    if a.list:
        for m in muts:
            print(m["id"], m["line"], m["scope"], m["desc"])
        return 0
    os.makedirs(a.out, exist_ok=True)
    report = {"check": a.check, "file": a.file, "scope": a.scope,
              "tests": a.tests, "seed": a.seed, "tier": a.tier, "mutants": []}

    def stage1(m):
        tmp = make_copy(a.repo, a.file, m["new_src"])
        if a.tests:
            res, tail = run_tests(a.repo, tmp, a.tests)
        else:
            res, tail = "pass", "(no tests given)"
        if res != "pass":
            shutil.rmtree(tmp, ignore_errors=True)
            tmp = None
        return m, tmp, res, tail

    survivors1 = []
    with cf.ThreadPoolExecutor(a.jobs) as ex:
        for m, tmp, res, tail in ex.map(stage1, muts):
            rec = {k: m[k] for k in ("id", "desc", "scope", "line")}
            rec["tests"] = res
            if tmp is None:
                rec["result"] = "killed-by-tests"
                report["mutants"].append(rec)
            else:
                survivors1.append((m, tmp, rec))
    print(f"[mutscan] {len(survivors1)} of {len(muts)} pass the unit tests")

    def stage2(item):
        m, tmp, rec = item
        try:
            rc, keys, tail, wall = run_check(a.check, tmp, a.seed, a.tier,
                                             a.checknproc)
            rec["check_exit"] = rc
            rec["check_wall_s"] = wall
            rec["keys"] = keys
            rec["result"] = {1: "killed-by-check", 0: "SURVIVED"}.get(
                rc, "harness-error")
            if rc != 1:
                rec["diff"] = diff_of(src, m["new_src"], a.file)
                rec["tail"] = tail
                for other in a.checks or []:
                    rc2, keys2, _, _ = run_check(other, tmp, a.seed, a.tier,
                                                 a.checknproc)
                    rec.setdefault("other_checks", {})[other] = rc2
        finally:
            shutil.rmtree(tmp, ignore_errors=True)
        print(f"[mutscan] {rec['id']} L{rec['line']} {rec['scope']} "
              f"{rec['desc']}: {rec['result']} "
              f"{(rec.get('keys') or [''])[0][:120]}", flush=True)
        return rec

    with cf.ThreadPoolExecutor(a.checkjobs) as ex:
        for rec in ex.map(stage2, survivors1):
            report["mutants"].append(rec)
    summ = {}
    for r in report["mutants"]:
        summ[r["result"]] = summ.get(r["result"], 0) + 1
    report["summary"] = summ
    tag = re.sub(r"[^A-Za-z0-9]+", "_", a.file + "_" + (a.scope or "all"))
    outp = os.path.join(a.out, f"{a.check}-{tag}.json")
    json.dump(report, open(outp, "w"), indent=1)
    print("[mutscan] summary", summ, "->", outp)
    for r in report["mutants"]:
        if r["result"] in ("SURVIVED", "harness-error"):
            print("----", r["result"], r["id"], r["scope"], r["desc"])
            print(r.get("diff", ""))
    return 0


if __name__ == "__main__":
    sys.exit(main())
