#!/bin/sh
# run the pinned baseline suite against every seeded change that has no
# "full_suite" record yet (scratch copies, N at a time, low priority)
N=${1:-5}
ls -d /verif/seeded/C*/ | while read d; do
  grep -q '"full_suite"' $d/meta.json || echo $d
done | xargs -P $N -I{} sh -c '
  d={}; id=$(basename $d)
  w=/tmp/fs-$id; rm -rf $w; mkdir $w
  cp -r /repo/nessai /repo/tests /repo/pyproject.toml /repo/README.md $w/ 2>/dev/null
  [ -f /repo/conftest.py ] && cp /repo/conftest.py $w/
  (cd $w && patch -p1 -s -i $d/patch.diff) || { echo "$id patch failed"; exit 0; }
  (cd $w && PYTHONPATH=$w OMP_NUM_THREADS=1 nice -n 15 /venv/bin/python -m pytest -q -p no:cacheprovider --timeout=900 --continue-on-collection-errors -x --deselect tests/test_plot.py::test_corner_plot_w_include_and_truths > $w/out.txt 2>&1)
  tail -1 $w/out.txt > /tmp/fs-$id.result
  /venv/bin/python - <<PY
import json
p="$d/meta.json"; m=json.load(open(p))
m["full_suite"]={"command":"pytest -q -p no:cacheprovider --timeout=900 --continue-on-collection-errors -x (scratch copy of /repo with patch.diff applied; the two pinned tests/test_plot.py baseline failures deselected)","summary":open("/tmp/fs-$id.result").read().strip()}
json.dump(m,open(p,"w"),indent=1)
PY
  echo "$id: $(cat /tmp/fs-$id.result)"
  rm -rf $w /tmp/fs-$id.result
'
