"""Regenerates /verif/MANIFEST.json from the table below (single source).

  /venv/bin/python -m vf.tools.gen_manifest
"""
import json
import os

ROOT = os.path.dirname(os.path.dirname(os.path.dirname(os.path.abspath(__file__))))

TRUST = (
    "CPython 3.12, NumPy, SciPy, mpmath, torch/glasflow as installed; "
    "Hypothesis 6.168; the harness observes nessai from outside (run-time "
    "wrappers, no source hooks)."
)

# id -> (category, technique, level text, level note, design ref)
RUNS = (
    "Real seeded sampler runs in fresh processes (vf.driver) with passive "
    "run-time monitors; configurations/histories come from Hypothesis "
    "strategies (collect-then-execute), failures are bucketed by signature "
    "and the failing configuration is the replay file. "
)

CHECKS = {
    "C01": (
        "exploration",
        "property-based testing over generated configurations and "
        "kill/resume histories; per-iteration invariant monitor + shadow "
        "history",
        RUNS + "Every iteration of every run is checked (live-set size and "
        "order, removed point is the minimum and recorded/integrated once, "
        "other live points bit-identical, new point in bounds / finite prior "
        "/ strictly above / equal to the model, insertion index). Quick 32 "
        "runs (~10k iterations), thorough 400 runs.",
        "Monitors are passive; exact model arithmetic.",
        "DESIGN.md section 4, C01",
    ),
    "C02": (
        "exploration",
        "Hypothesis property test, differential against an mpmath reference "
        "+ metamorphic shift",
        "Generated-input search: ~4k (quick) / ~80k (thorough) generated "
        "sequences and live-count schedules; incremental integrator, one-pass "
        "weights and a 60-digit mpmath evaluation of the documented "
        "quadrature must agree within a stated floating-point bound; shrunk "
        "counterexample becomes the replay file. Does not establish absence.",
        "mpmath reference; stated tolerance bound (see evidence assumptions).",
        "DESIGN.md section 4, C02",
    ),
    "C03": (
        "exploration",
        "property-based testing over generated importance-sampler "
        "configurations and kill/resume histories; density re-evaluation "
        "oracle",
        RUNS + "After every iteration, after finalise and after every resume "
        "both sample stores are checked row by row against the saved flows "
        "(independent logit/Jacobian), the sample fractions, the log-mixture "
        "and the model. Quick 24 runs (~4e5 rows), thorough 300 runs.",
        "float32 tolerance on flow densities (stated in evidence).",
        "DESIGN.md section 4, C03",
    ),
    "C04": (
        "exploration",
        "bounded exhaustive enumeration of operation sequences + Hypothesis "
        "rule-based state machine against a list-of-records reference model",
        "All protocol-valid operation sequences up to a bounded depth over a "
        "3-value likelihood alphabet and small batches, for the four "
        "strict x replace_all modes (exhaustive flag in the evidence), plus "
        "long random sequences with large batches; reference model with "
        "unique ids decides every clause after every call.",
        "Reference model written from the property text; protocol "
        "preconditions read from the only caller.",
        "DESIGN.md section 4, C04",
    ),
    "C05": (
        "exploration",
        "property-based testing over generated configurations of both "
        "samplers; recomputation of the estimators from returned results "
        "(mpmath reference)",
        RUNS + "After FlowSampler.run the evidence, uncertainty and weights "
        "are recomputed from the returned samples alone, counts/order/"
        "faithfulness to the model/birth likelihoods and the agreement of "
        "result dictionary, FlowSampler and sampler are checked. Quick 32 "
        "runs, thorough 400.",
        "mpmath reference for the quadrature; exact model arithmetic.",
        "DESIGN.md section 4, C05",
    ),
    "C07": (
        "exploration",
        "Hypothesis property tests: round trip, Jacobian consistency, "
        "finite-difference Jacobian oracle, prime-prior consistency",
        "Every registered reparameterisation name (general and "
        "gravitational-wave), generated options/bounds/batches incl. points "
        "1e-12*range from the bounds, before and after update(), at object "
        "level and through FlowProposal; 2400 cases quick / 48000 thorough.",
        "Finite-difference Jacobian with adaptive stencils; conditioning-"
        "aware tolerances (evidence assumptions).",
        "DESIGN.md section 4, C07",
    ),
    "C12": (
        "fault_enumeration",
        "generated kill/resume schedules against real runs; field-by-field "
        "digest of the sampler at checkpoint vs after resume; independent "
        "evaluation tally",
        RUNS + "Kills are placed at generated fractions of the run inside "
        "likelihood calls, followed by downtime and a resume in a fresh "
        "process; the restored sampler must equal the recorded checkpoint "
        "digest, counters/timings must continue cumulatively and the "
        "finished run must satisfy the C01/C03/C05 invariants. Quick 24 "
        "histories, thorough 300.",
        "Digest exclusions listed in vf/digest.py; kills never land inside "
        "a checkpoint write (C11 does that).",
        "DESIGN.md section 4, C12",
    ),
    "C14": (
        "exploration",
        "property-based differential testing: digests of seeded runs across "
        "processes and parallelisation settings",
        RUNS + "Groups of 4 runs of one generated configuration that differ "
        "only in pool / chunk-size / parallel-prior settings (real fork "
        "pools), plus a repeat in the same process; nested samples, "
        "evidence, weights and evaluation counts must be bit-identical. "
        "Quick 8 groups, thorough 60.",
        "Models with exactly rounded arithmetic; fork start method.",
        "DESIGN.md section 4, C14",
    ),
    "C15": (
        "exploration",
        "property-based testing over generated stopping configurations and "
        "run / run-again / resume-after-finish histories; per-iteration "
        "criterion monitor with independent recomputation",
        RUNS + "The compared value is recorded after every iteration and "
        "recomputed independently; the stop iteration must be the first one "
        "the rule allows; history must report the compared values; digests "
        "before/after a second run and a resume from the final checkpoint "
        "must be equal with no likelihood evaluation. Quick 24 histories, "
        "thorough 300.",
        "Readings the property leaves open are all accepted (evidence "
        "assumptions).",
        "DESIGN.md section 4, C15",
    ),
    "C17": (
        "exploration",
        "Hypothesis property tests on the real threshold methods and "
        "weighted_quantile (SciPy Harrell-Davis oracle)",
        "Generated live sets, weights and limits; the real "
        "determine_log_likelihood_threshold / quantile / entropy methods are "
        "called on a bare instance; clauses are asserted in the direction "
        "ties allow. 4000 cases quick / 80000 thorough. The 'every proposal "
        "is trained on >= min_samples' clause is decided on the real runs of "
        "C03's generator (training-set sizes recorded by the run monitor).",
        "scipy.stats.mstats.hdquantiles as the quantile reference.",
        "DESIGN.md section 4, C17",
    ),
}

NOT_YET = {}

NOT_APPLICABLE = {}


def main():
    props = [
        json.loads(line)["id"]
        for line in open(os.path.join(ROOT, "properties.jsonl"))
    ]
    checks = []
    for pid in props:
        if pid not in CHECKS:
            continue
        cat, tech, text, note, ref = CHECKS[pid]
        checks.append(
            {
                "property_id": pid,
                "quick_cmd": f"./check {pid} --tier quick",
                "thorough_cmd": f"./check {pid} --tier thorough",
                "evidence_file": f"evidence/{pid}.json",
                "replay_cmd_template": f"./check {pid} --replay {{path}}",
                "engine": "vf",
                "level_claimed": {
                    "category": cat,
                    "text": text,
                    "design_ref": ref,
                },
                "level_note": note + " " + TRUST,
                "technique": tech,
            }
        )
    na = []
    for pid in props:
        if pid in CHECKS:
            continue
        reason = NOT_APPLICABLE.get(pid) or NOT_YET.get(pid) or (
            "check not built yet in this tree (planned with property-based "
            "testing, see DESIGN.md section 4); not claimed until it is"
        )
        na.append({"property_id": pid, "reason": reason})
    manifest = {
        "version": 1,
        "setup_cmd": "./setup.sh",
        "hooks": {
            "guard": "NESSAI_VERIF",
            "enable": "no source hooks: checks import nessai from /repo's "
            "working tree (editable install in /venv) and observe it "
            "through run-time wrappers installed by the harness",
            "baseline_off_cmd": "cd /repo && /venv/bin/python -m pytest -ra "
            "-q -p no:cacheprovider --timeout=900 "
            "--continue-on-collection-errors",
            "source_commits": [],
            "add_only": True,
        },
        "engines": [
            {
                "name": "vf",
                "path": "vf/",
                "serves_properties": sorted(CHECKS),
                "kind_free_text": "property-based testing / fuzzing "
                "framework: Hypothesis strategies and rule-based state "
                "machines, bounded exhaustive enumeration, generated "
                "fault/kill/signal schedules against real sampler runs, "
                "explicit oracles, shrinking to replay files",
            }
        ],
        "checks": checks,
        "not_applicable": na,
        "notes": "All checks: ./check <ID> [--tier quick|thorough] "
        "[--replay FILE]; exit 0 held / 1 VIOLATION / 2 harness error. "
        "Known findings: KNOWN_FINDINGS.txt. Design: DESIGN.md.",
    }
    with open(os.path.join(ROOT, "MANIFEST.json"), "w") as f:
        json.dump(manifest, f, indent=1)
        f.write("\n")
    # validate
    try:
        import jsonschema

        schema = json.load(open("/root/.vp/MANIFEST.schema.json"))
        jsonschema.validate(manifest, schema)
        print("manifest valid;", len(checks), "checks,", len(na), "unclaimed")
    except ImportError:
        print("manifest written (jsonschema not available to validate)")


if __name__ == "__main__":
    main()
