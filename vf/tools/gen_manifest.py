"""Regenerates /verif/MANIFEST.json from the table below (single source).

  /venv/bin/python -m vf.tools.gen_manifest
"""
import json
import os

ROOT = os.path.dirname(os.path.dirname(os.path.dirname(os.path.abspath(__file__))))

TRUST = (
    "CPython 3.12, NumPy, SciPy, mpmath, torch/glasflow as installed; "
    "Hypothesis 6.168; the harness observes nessai from outside (run-time "
    "wrappers, no source hooks)."
)

# id -> (category, technique, level text, level note, design ref)
CHECKS = {
    "C02": (
        "exploration",
        "Hypothesis property test, differential against an mpmath reference "
        "+ metamorphic shift",
        "Generated-input search: ~4k (quick) / ~80k (thorough) generated "
        "sequences and live-count schedules; incremental integrator, one-pass "
        "weights and a 60-digit mpmath evaluation of the documented "
        "quadrature must agree within a stated floating-point bound; shrunk "
        "counterexample becomes the replay file. Does not establish absence.",
        "mpmath reference; stated tolerance bound (see evidence assumptions).",
        "DESIGN.md section 4, C02",
    ),
}

NOT_YET = {}

NOT_APPLICABLE = {}


def main():
    props = [
        json.loads(line)["id"]
        for line in open(os.path.join(ROOT, "properties.jsonl"))
    ]
    checks = []
    for pid in props:
        if pid not in CHECKS:
            continue
        cat, tech, text, note, ref = CHECKS[pid]
        checks.append(
            {
                "property_id": pid,
                "quick_cmd": f"./check {pid} --tier quick",
                "thorough_cmd": f"./check {pid} --tier thorough",
                "evidence_file": f"evidence/{pid}.json",
                "replay_cmd_template": f"./check {pid} --replay {{path}}",
                "engine": "vf",
                "level_claimed": {
                    "category": cat,
                    "text": text,
                    "design_ref": ref,
                },
                "level_note": note + " " + TRUST,
                "technique": tech,
            }
        )
    na = []
    for pid in props:
        if pid in CHECKS:
            continue
        reason = NOT_APPLICABLE.get(pid) or NOT_YET.get(pid) or (
            "check not built yet in this tree (planned with property-based "
            "testing, see DESIGN.md section 4); not claimed until it is"
        )
        na.append({"property_id": pid, "reason": reason})
    manifest = {
        "version": 1,
        "setup_cmd": "./setup.sh",
        "hooks": {
            "guard": "NESSAI_VERIF",
            "enable": "no source hooks: checks import nessai from /repo's "
            "working tree (editable install in /venv) and observe it "
            "through run-time wrappers installed by the harness",
            "baseline_off_cmd": "cd /repo && /venv/bin/python -m pytest -ra "
            "-q -p no:cacheprovider --timeout=900 "
            "--continue-on-collection-errors",
            "source_commits": [],
            "add_only": True,
        },
        "engines": [
            {
                "name": "vf",
                "path": "vf/",
                "serves_properties": sorted(CHECKS),
                "kind_free_text": "property-based testing / fuzzing "
                "framework: Hypothesis strategies and rule-based state "
                "machines, bounded exhaustive enumeration, generated "
                "fault/kill/signal schedules against real sampler runs, "
                "explicit oracles, shrinking to replay files",
            }
        ],
        "checks": checks,
        "not_applicable": na,
        "notes": "All checks: ./check <ID> [--tier quick|thorough] "
        "[--replay FILE]; exit 0 held / 1 VIOLATION / 2 harness error. "
        "Known findings: KNOWN_FINDINGS.txt. Design: DESIGN.md.",
    }
    with open(os.path.join(ROOT, "MANIFEST.json"), "w") as f:
        json.dump(manifest, f, indent=1)
        f.write("\n")
    # validate
    try:
        import jsonschema

        schema = json.load(open("/root/.vp/MANIFEST.schema.json"))
        jsonschema.validate(manifest, schema)
        print("manifest valid;", len(checks), "checks,", len(na), "unclaimed")
    except ImportError:
        print("manifest written (jsonschema not available to validate)")


if __name__ == "__main__":
    main()
