"""Regenerates /verif/MANIFEST.json from the table below (single source).

  /venv/bin/python -m vf.tools.gen_manifest
"""
import json
import os

ROOT = os.path.dirname(os.path.dirname(os.path.dirname(os.path.abspath(__file__))))

TRUST = (
    "CPython 3.12, NumPy, SciPy, mpmath, torch/glasflow as installed; "
    "Hypothesis 6.168; the harness observes nessai from outside (run-time "
    "wrappers, no source hooks)."
)

# id -> (category, technique, level text, level note, design ref)
RUNS = (
    "Real seeded sampler runs in fresh processes (vf.driver) with passive "
    "run-time monitors; configurations/histories come from Hypothesis "
    "strategies (collect-then-execute), failures are bucketed by signature "
    "and the failing configuration is the replay file. "
)

CHECKS = {
    "C01": (
        "exploration",
        "property-based testing over generated configurations and "
        "kill/resume histories; per-iteration invariant monitor + shadow "
        "history",
        RUNS + "Every iteration of every run is checked (live-set size and "
        "order, removed point is the minimum and recorded/integrated once, "
        "other live points bit-identical, new point in bounds / finite prior "
        "/ strictly above / equal to the model, insertion index). Quick 32 "
        "runs (~10k iterations), thorough 400 runs.",
        "Monitors are passive; exact model arithmetic.",
        "DESIGN.md section 4, C01",
    ),
    "C02": (
        "exploration",
        "Hypothesis property test, differential against an mpmath reference "
        "+ metamorphic shift",
        "Generated-input search: ~4k (quick) / ~80k (thorough) generated "
        "sequences and live-count schedules; incremental integrator, one-pass "
        "weights and a 60-digit mpmath evaluation of the documented "
        "quadrature must agree within a stated floating-point bound; shrunk "
        "counterexample becomes the replay file. Does not establish absence.",
        "mpmath reference; stated tolerance bound (see evidence assumptions).",
        "DESIGN.md section 4, C02",
    ),
    "C03": (
        "exploration",
        "property-based testing over generated importance-sampler "
        "configurations and kill/resume histories; density re-evaluation "
        "oracle",
        RUNS + "After every iteration, after finalise and after every resume "
        "both sample stores are checked row by row against the saved flows "
        "(independent logit/Jacobian), the sample fractions, the log-mixture "
        "and the model. Quick 24 runs (~4e5 rows), thorough 300 runs.",
        "float32 tolerance on flow densities (stated in evidence).",
        "DESIGN.md section 4, C03",
    ),
    "C04": (
        "exploration",
        "bounded exhaustive enumeration of operation sequences + Hypothesis "
        "rule-based state machine against a list-of-records reference model",
        "All protocol-valid operation sequences up to a bounded depth over a "
        "3-value likelihood alphabet and small batches, for the four "
        "strict x replace_all modes (exhaustive flag in the evidence), plus "
        "long random sequences with large batches; reference model with "
        "unique ids decides every clause after every call.",
        "Reference model written from the property text; protocol "
        "preconditions read from the only caller.",
        "DESIGN.md section 4, C04",
    ),
    "C05": (
        "exploration",
        "property-based testing over generated configurations of both "
        "samplers; recomputation of the estimators from returned results "
        "(mpmath reference)",
        RUNS + "After FlowSampler.run the evidence, uncertainty and weights "
        "are recomputed from the returned samples alone, counts/order/"
        "faithfulness to the model/birth likelihoods and the agreement of "
        "result dictionary, FlowSampler and sampler are checked; histories "
        "include kill/resume cycles and, for a third of the cases, a fresh "
        "process that resumes the finished run and calls run() again. Quick "
        "24 histories + boundary cases, thorough 400.",
        "mpmath reference for the quadrature; exact model arithmetic.",
        "DESIGN.md section 4, C05",
    ),
    "C06": (
        "exploration",
        "seeds x configuration cells of real runs against closed-form "
        "evidences and posteriors; fixed thresholds from Student-t / "
        "chi-square / binomial tail bounds (false alarm < 1e-9)",
        RUNS + "Cells = (analytic model, algorithmic configuration) of both "
        "samplers, S Hypothesis-drawn seeds per cell; mean error of log Z vs "
        "zero, spread of errors vs reported uncertainty, pooled posterior "
        "moments vs analytic values, insertion-index p-values; two cells "
        "are killed and resumed. Quick 33 of 34 cells (20 seeds for about twelve of them, "
        "rotating with the seed, 12 for the others), thorough 34 x 100.",
        "Normal-theory tail bounds; resolution stated in the evidence "
        "(defects moving log Z of the standard sampler by < ~0.5 with 20 "
        "seeds / ~1.3 with 12 / ~0.12 thorough pass unless they move the "
        "posterior moments).",
        "DESIGN.md section 4, C06",
    ),
    "C07": (
        "exploration",
        "Hypothesis property tests: round trip, Jacobian consistency, "
        "finite-difference Jacobian oracle, prime-prior consistency",
        "Every registered reparameterisation name (general and "
        "gravitational-wave), generated options/bounds/batches incl. points "
        "1e-12*range from the bounds, before and after update(), at object "
        "level and through FlowProposal; 2400 cases quick / 48000 thorough.",
        "Finite-difference Jacobian with adaptive stencils; conditioning-"
        "aware tolerances (evidence assumptions).",
        "DESIGN.md section 4, C07",
    ),
    "C12": (
        "fault_enumeration",
        "generated kill/resume schedules against real runs; field-by-field "
        "digest of the sampler at checkpoint vs after resume; independent "
        "evaluation tally",
        RUNS + "Kills are placed at generated fractions of the run inside "
        "likelihood calls, at structural events (k-th population / "
        "training) and between two iterations, followed by downtime and a "
        "resume in a fresh process (from the resume file or through "
        "resume_data); the restored sampler must equal the recorded "
        "checkpoint digest, the weights file a training leaves must hold "
        "the flow in memory, counters/timings must continue cumulatively "
        "(sampling time bounded by construction-to-end of the processes), a "
        "resumed process that raises is decided against the uninterrupted "
        "run, a third of the histories resume the final checkpoint and run "
        "again, and the finished run must satisfy the C01/C03/C05 "
        "invariants. Quick 14 histories + 12 boundary / known cases, "
        "thorough 300.",
        "Digest exclusions listed in vf/digest.py; kills never land inside "
        "a checkpoint write (C11 does that).",
        "DESIGN.md section 4, C12",
    ),
    "C14": (
        "exploration",
        "property-based differential testing: digests of seeded runs across "
        "processes and parallelisation settings",
        RUNS + "Groups of 4 runs of one generated configuration that differ "
        "only in pool / chunk-size / parallel-prior settings (real fork "
        "pools) and in the string-hash seed of their process, plus a repeat "
        "in the same process; nested samples, "
        "evidence, weights and evaluation counts must be bit-identical. "
        "Quick 8 groups, thorough 60.",
        "Models with exactly rounded arithmetic; fork start method.",
        "DESIGN.md section 4, C14",
    ),
    "C15": (
        "exploration",
        "property-based testing over generated stopping configurations and "
        "run / run-again / resume-after-finish histories; per-iteration "
        "criterion monitor with independent recomputation",
        RUNS + "The compared value is recorded after every iteration and "
        "recomputed independently of the likelihood's magnitude "
        "(log-likelihood offsets are generated); the stop iteration must be the first one "
        "the rule allows; history must report the compared values; digests "
        "before/after a second run and a resume from the final checkpoint "
        "must be equal with no likelihood evaluation. Quick 24 histories, "
        "thorough 300.",
        "Readings the property leaves open are all accepted (evidence "
        "assumptions).",
        "DESIGN.md section 4, C15",
    ),
    "C08": (
        "exploration",
        "Hypothesis property tests over flow / proposal configurations: "
        "round trip, sample-density consistency, array-vs-torch differential, "
        "2-D normalisation by quadrature, forward/backward proposal density",
        "Generated flow configurations (type, blocks, layers, linear "
        "transforms, batch norm, masks, base distributions, float32/64, "
        "fresh/trained/reset weights) and FlowProposal / "
        "ImportanceFlowProposal configurations; 339 cases quick / ~6000 "
        "thorough with conditioning-aware tolerances.",
        "Tolerances derived from the floating-point type and a measured "
        "local Lipschitz constant (evidence assumptions).",
        "DESIGN.md section 4, C08",
    ),
    "C09": (
        "exploration",
        "passive pool monitor + likelihood call log on generated real runs; "
        "Hypothesis-generated train/populate histories on directly driven "
        "proposals; two-sample tests against brute-force prior-in-contour "
        "sampling; metamorphic rank test of marginalised densities",
        RUNS + "Every pool population and draw of every proposal class is "
        "checked (bounds against the model's own reference, logP/logL == "
        "model for the pool and for every row handed out, size, index "
        "permutation, latent contour, bounded number of latent draws per "
        "population), every likelihood argument must lie in the prior "
        "support; direct-drive histories re-train and re-populate with "
        "changing contours; the distributional part compares 12000-point "
        "pools with prior-in-contour references (chi-square / KS, p < 1e-9); "
        "with marginalise_augment the density of a candidate inside a mixed "
        "batch must fall in the range of 199 estimates of the same candidate "
        "(all 6 probes outside = violation, exact bound 1e-13).",
        "Contour check only for deterministic reparameterisations; "
        "statistical resolution fixed at 12000 vs 12000 points.",
        "DESIGN.md section 4, C09",
    ),
    "C10": (
        "exploration",
        "bounded exhaustive grid + Hypothesis + real fork pools against a "
        "pure-Python pointwise reference",
        "Exhaustive grid batch size x chunk size x fake pool size x "
        "vectorisation kind x return kind x unit-cube mode (14560 cells), "
        "Hypothesis for larger shapes, real multiprocessing pools of 1-4 "
        "processes; exact equality, call log and counter accounting.",
        "Models with exactly rounded arithmetic.",
        "DESIGN.md section 4, C10",
    ),
    "C11": (
        "fault_enumeration",
        "enumeration of file-system crash points of real checkpoint and "
        "weights writes (operation boundaries + generated byte prefixes), "
        "then resume",
        RUNS + "For 13 scenarios the operations of safe_file_dump / "
        "save_weights are listed by a probe run; the writer is killed before "
        "each operation, after the last, and after generated prefix lengths "
        "of the stream; a fresh process must resume to a state equal to the "
        "previous or new checkpoint digest and finish; once a checkpoint "
        "has completed, a killed later write must not make the next process "
        "start afresh. Quick 92 crash "
        "points, thorough all (~400).",
        "Process death, not power loss; names os/shutil/open/torch are "
        "substituted only in the namespaces of nessai.utils.io and "
        "nessai.flowmodel.base.",
        "DESIGN.md section 4, C11",
    ),
    "C13": (
        "fault_enumeration",
        "enumeration of signal instants (source line x k-th execution x "
        "signal) via sys.monitoring against real runs, then resume",
        RUNS + "Lines of the iteration-level functions of both samplers are "
        "read from the code objects, a probe run counts executions, the "
        "process signals itself just before the chosen execution; exit "
        "status, resumability and count/shadow invariants are checked, and "
        "the resumed process must continue from the iteration of the signal "
        "(importance sampler: from its last iteration-boundary checkpoint); "
        "a sixth of the schedules run with two FlowSampler objects created "
        "up front. Quick 60 schedules, thorough all (~1100).",
        "Line granularity; handler runs before the target line.",
        "DESIGN.md section 4, C13",
    ),
    "C16": (
        "exploration",
        "Hypothesis property tests with exact binomial bounds on selection "
        "frequencies (false-alarm budget 1e-9)",
        "Generated weight vectors (length 1..1e5, -inf entries, 700-nat "
        "dynamic range, shifts), both methods and the alias; membership / "
        "index / count clauses exact, frequencies against exact binomial "
        "intervals; ESS against an fsum reference. 7k cases quick / 138k "
        "thorough.",
        "NumPy's global generator is seeded from Hypothesis-drawn integers.",
        "DESIGN.md section 4, C16",
    ),
    "C18": (
        "exploration",
        "Hypothesis rule-based state machine over the global extra-field "
        "registry with a reference registry model",
        "Rules add/reset extra fields and convert generated data between "
        "arrays, dictionaries, data frames and live-point arrays; every "
        "array is compared with the model registry (names, order, dtypes, "
        "NaN-aware values, defaults); zero-copy view checks. 57k steps "
        "quick / 940k thorough.",
        "Reference registry written from the documentation.",
        "DESIGN.md section 4, C18",
    ),
    "C19": (
        "exploration",
        "Hypothesis round-trip tests of the JSON / HDF5 encoders + read-back "
        "of real result files against the in-memory results",
        "Generated dictionaries over every value type real results contain "
        "(type alphabet collected from real runs and enforced in the "
        "generator health check) written with save_to_json / "
        "save_dict_to_hdf5 and FlowSampler.save_results / save_kwargs, read "
        "back with json / h5py and compared value by value with the "
        "documented decodings only; real runs of both samplers x "
        "{hdf5,h5,json} compared field by field. ~3600 cases + 9 runs quick, "
        "33000 + 60 thorough.",
        "Documented decodings only (\"__none__\", bytes, rows for JSON "
        "structured arrays, longdouble rounding in JSON).",
        "DESIGN.md section 4, C19",
    ),
    "C20": (
        "exploration",
        "property-based configuration testing: single-option table + "
        "Hypothesis-drawn option combinations, outcome classification of "
        "bounded real runs",
        RUNS + "Every documented option value alone (thorough; a seeded "
        "third in quick) and generated 2-4 option combinations for both "
        "samplers; outcome must be rejected-up-front or completed with "
        "valid results; late exceptions and unbounded pool populations "
        "(> 2e6 latent draws in one population) are violations keyed by call "
        "site; all pairs of option values inside five option groups "
        "(contour, training, flow, optimisation, levels: 707 pairs) are enumerated, a "
        "third per quick run; importance-sampler cases carry the "
        "configured-stopping-rule monitor. Quick ~350 runs, thorough ~1150.",
        "Iteration cap on every case; wall-clock backstop = inconclusive.",
        "DESIGN.md section 4, C20",
    ),
    "C17": (
        "exploration",
        "Hypothesis property tests on the real threshold methods and "
        "weighted_quantile (SciPy Harrell-Davis oracle)",
        "Generated live sets, weights and limits; the real "
        "determine_log_likelihood_threshold / quantile / entropy methods are "
        "called on a bare instance; clauses are asserted in the direction "
        "ties allow. 4000 cases quick / 80000 thorough. The 'every proposal "
        "is trained on >= min_samples' clause is decided on the real runs of "
        "C03's generator (training-set sizes recorded by the run monitor).",
        "scipy.stats.mstats.hdquantiles as the quantile reference.",
        "DESIGN.md section 4, C17",
    ),
}

NOT_YET = {}

NOT_APPLICABLE = {}


def main():
    props = [
        json.loads(line)["id"]
        for line in open(os.path.join(ROOT, "properties.jsonl"))
    ]
    checks = []
    for pid in props:
        if pid not in CHECKS:
            continue
        cat, tech, text, note, ref = CHECKS[pid]
        checks.append(
            {
                "property_id": pid,
                "quick_cmd": f"./check {pid} --tier quick",
                "thorough_cmd": f"./check {pid} --tier thorough",
                "evidence_file": f"evidence/{pid}.json",
                "replay_cmd_template": f"./check {pid} --replay {{path}}",
                "engine": "vf",
                "level_claimed": {
                    "category": cat,
                    "text": text,
                    "design_ref": ref,
                },
                "level_note": note + " " + TRUST,
                "technique": tech,
            }
        )
    na = []
    for pid in props:
        if pid in CHECKS:
            continue
        reason = NOT_APPLICABLE.get(pid) or NOT_YET.get(pid) or (
            "check not built yet in this tree (planned with property-based "
            "testing, see DESIGN.md section 4); not claimed until it is"
        )
        na.append({"property_id": pid, "reason": reason})
    manifest = {
        "version": 1,
        "setup_cmd": "./setup.sh",
        "hooks": {
            "guard": "NESSAI_VERIF",
            "enable": "no source hooks: checks import nessai from /repo's "
            "working tree (editable install in /venv) and observe it "
            "through run-time wrappers installed by the harness",
            "baseline_off_cmd": "cd /repo && /venv/bin/python -m pytest -ra "
            "-q -p no:cacheprovider --timeout=900 "
            "--continue-on-collection-errors",
            "source_commits": [],
            "add_only": True,
        },
        "engines": [
            {
                "name": "vf",
                "path": "vf/",
                "serves_properties": sorted(CHECKS),
                "kind_free_text": "property-based testing / fuzzing "
                "framework: Hypothesis strategies and rule-based state "
                "machines, bounded exhaustive enumeration, generated "
                "fault/kill/signal schedules against real sampler runs, "
                "explicit oracles, shrinking to replay files",
            }
        ],
        "checks": checks,
        "not_applicable": na,
        "notes": "All checks: ./check <ID> [--tier quick|thorough] "
        "[--replay FILE]; exit 0 held / 1 VIOLATION / 2 harness error. "
        "Known findings: KNOWN_FINDINGS.txt. Design: DESIGN.md.",
    }
    with open(os.path.join(ROOT, "MANIFEST.json"), "w") as f:
        json.dump(manifest, f, indent=1)
        f.write("\n")
    # validate
    try:
        import jsonschema

        schema = json.load(open("/root/.vp/MANIFEST.schema.json"))
        jsonschema.validate(manifest, schema)
        print("manifest valid;", len(checks), "checks,", len(na), "unclaimed")
    except ImportError:
        print("manifest written (jsonschema not available to validate)")


if __name__ == "__main__":
    main()
