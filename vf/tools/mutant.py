"""Sensitivity tooling: run a check against a mutated scratch copy of nessai.

  python -m vf.tools.mutant C02 nessai/evidence.py 'OLD' 'NEW' [--nth K] [--tier quick]
  python -m vf.tools.mutant C02 --patch file.diff

The copy lives under /tmp and is removed afterwards; evidence/replays of the
mutant run go to a temporary directory (VERIF_OUT), never to /verif/evidence.
Exit status: 0 if the check FAILED on the mutant (mutant killed), 1 if the
mutant survived, 2 on error.
"""
import argparse
import os
import shutil
import subprocess
import sys
import tempfile

ROOT = os.path.dirname(os.path.dirname(os.path.dirname(os.path.abspath(__file__))))


def main():
    ap = argparse.ArgumentParser()
    ap.add_argument("check")
    ap.add_argument("file", nargs="?")
    ap.add_argument("old", nargs="?")
    ap.add_argument("new", nargs="?")
    ap.add_argument("--nth", type=int, default=None)
    ap.add_argument("--patch")
    ap.add_argument("--tier", default="quick")
    ap.add_argument("--seed", default="1")
    ap.add_argument("--repo", default="/repo")
    a = ap.parse_args()
    tmp = tempfile.mkdtemp(prefix="vfmut-")
    try:
        shutil.copytree(
            os.path.join(a.repo, "nessai"),
            os.path.join(tmp, "nessai"),
            ignore=shutil.ignore_patterns("__pycache__"),
        )
        if a.patch:
            r = subprocess.run(
                ["patch", "-p1", "-d", tmp, "-i", os.path.abspath(a.patch)],
                capture_output=True, text=True,
            )
            if r.returncode:
                print(r.stdout, r.stderr)
                return 2
        else:
            path = os.path.join(tmp, a.file)
            src = open(path).read()
            n = src.count(a.old)
            if n == 0:
                print("pattern not found")
                return 2
            if n > 1 and a.nth is None:
                print(f"pattern occurs {n} times; use --nth")
                return 2
            if a.nth is None:
                src = src.replace(a.old, a.new)
            else:
                parts = src.split(a.old)
                src = a.old.join(parts[: a.nth + 1]) + a.new + a.old.join(parts[a.nth + 1:])
            open(path, "w").write(src)
        out = os.path.join(tmp, "out")
        env = dict(os.environ, VERIF_REPO=tmp, VERIF_OUT=out, VERIF_SEED=a.seed)
        r = subprocess.run(
            [os.path.join(ROOT, "check"), a.check, "--tier", a.tier],
            env=env, capture_output=True, text=True,
        )
        tail = "\n".join((r.stdout + r.stderr).strip().splitlines()[-6:])
        print(tail)
        print(f"[mutant] check exit={r.returncode} ->",
              "KILLED" if r.returncode == 1 else
              ("SURVIVED" if r.returncode == 0 else "HARNESS-ERROR"))
        return {1: 0, 0: 1}.get(r.returncode, 2)
    finally:
        shutil.rmtree(tmp, ignore_errors=True)


if __name__ == "__main__":
    sys.exit(main())
