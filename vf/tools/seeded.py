"""Record and evaluate an independently written property-breaking change.

  python -m vf.tools.seeded record C04 /tmp/wt/C04 "what it needs to manifest"
      -> seeded/C04/{patch.diff,demo.py,meta.json}; verifies the demo fails
         with the change and passes without it (in the worktree)
  python -m vf.tools.seeded check C04 [CHECK ...] [--apply]
      -> runs the listed checks (default: the property's own) against the
         change; default via VERIF_REPO=<scratch copy with the patch>,
         with --apply via `git -C /repo apply` + `git checkout -- .`
"""
import json
import os
import shutil
import subprocess
import sys
import tempfile

ROOT = os.path.dirname(os.path.dirname(os.path.dirname(os.path.abspath(__file__))))


def sh(cmd, **kw):
    return subprocess.run(cmd, shell=True, capture_output=True, text=True,
                          **kw)


def record(pid, wt, needs, patch=None, demo=None):
    """patch/demo given: the worktree holds the pristine sources plus the
    named patch and demonstration files (two changes per worktree)."""
    d = os.path.join(ROOT, "seeded", pid)
    os.makedirs(d, exist_ok=True)
    if patch:
        sh("git checkout -- nessai", cwd=wt)
        r = sh(f"git apply {patch}", cwd=wt)
        if r.returncode:
            print("patch does not apply:", r.stderr)
            return 2
    diff = sh("git diff -- nessai", cwd=wt).stdout
    if not diff.strip():
        print("no change in worktree")
        return 2
    open(os.path.join(d, "patch.diff"), "w").write(diff)
    shutil.copy(os.path.join(wt, demo or "demo.py"),
                os.path.join(d, "demo.py"))
    if demo:
        shutil.copy(os.path.join(wt, demo), os.path.join(wt, "demo.py"))
    env = dict(os.environ, PYTHONPATH=wt, MPLBACKEND="Agg")
    with_change = subprocess.run(["/venv/bin/python", "demo.py"], cwd=wt,
                                 env=env, capture_output=True, text=True)
    # (git stash is shared between worktrees of one repository: use the
    # saved diff instead)
    sh("git checkout -- nessai", cwd=wt)
    try:
        without = subprocess.run(["/venv/bin/python", "demo.py"], cwd=wt,
                                 env=env, capture_output=True, text=True)
    finally:
        if not patch:
            sh(f"git apply {os.path.join(d, 'patch.diff')}", cwd=wt)
    meta = {
        "property": pid[:3],
        "needs_to_manifest": needs,
        "demo_with_change_exit": with_change.returncode,
        "demo_with_change_tail": (with_change.stdout + with_change.stderr)[
            -600:],
        "demo_without_change_exit": without.returncode,
        "base_commit": sh("git rev-parse --short HEAD", cwd=wt).stdout.strip(),
        "checks": {},
    }
    json.dump(meta, open(os.path.join(d, "meta.json"), "w"), indent=1)
    print(pid, "demo with change exit", with_change.returncode,
          "| without", without.returncode)
    return 0 if (with_change.returncode != 0 and without.returncode == 0) \
        else 1


def check(pid, checks, apply=False, tier="quick"):
    d = os.path.join(ROOT, "seeded", pid)
    meta = json.load(open(os.path.join(d, "meta.json")))
    patch = os.path.join(d, "patch.diff")
    tmp = tempfile.mkdtemp(prefix="vfseed-")
    env = dict(os.environ, VERIF_OUT=os.path.join(tmp, "out"))
    try:
        if apply:
            r = sh(f"git -C /repo apply {patch}")
            if r.returncode:
                print("patch does not apply:", r.stderr)
                return 2
            how = "git -C /repo apply seeded/%s/patch.diff" % pid
        else:
            shutil.copytree("/repo/nessai", os.path.join(tmp, "nessai"),
                            ignore=shutil.ignore_patterns("__pycache__"))
            r = sh(f"patch -p1 -d {tmp} -i {patch}")
            if r.returncode:
                print("patch does not apply:", r.stdout, r.stderr)
                return 2
            env["VERIF_REPO"] = tmp
            how = "VERIF_REPO=<copy of /repo/nessai with patch.diff applied>"
        for c in checks:
            r = subprocess.run([os.path.join(ROOT, "check"), c, "--tier",
                                tier], env=env, capture_output=True,
                               text=True)
            lines = [ln for ln in (r.stdout + r.stderr).splitlines()
                     if ln.startswith(("VIOLATION", "  ", "OK", "HARNESS"))]
            keys = [ln.strip()[:300] for ln in lines if ln.startswith("  ")]
            meta["checks"][c] = {
                "exit": r.returncode, "tier": tier, "how": how,
                "detected": r.returncode == 1,
                "violation_keys": keys[:6],
            }
            print(pid, c, "exit", r.returncode, "->",
                  "DETECTED" if r.returncode == 1 else "missed")
            for k in keys[:4]:
                print("   ", k[:200])
    finally:
        if apply:
            sh("git -C /repo checkout -- .")
        shutil.rmtree(tmp, ignore_errors=True)
    json.dump(meta, open(os.path.join(d, "meta.json"), "w"), indent=1)
    return 0


if __name__ == "__main__":
    if sys.argv[1] == "record":
        sys.exit(record(*sys.argv[2:7]))
    else:
        args = [a for a in sys.argv[2:] if not a.startswith("--")]
        pid = args[0]
        checks = args[1:] or [pid[:3]]
        tier = "thorough" if "--thorough" in sys.argv else "quick"
        sys.exit(check(pid, checks, apply="--apply" in sys.argv, tier=tier))
