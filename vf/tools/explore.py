"""Debug helper: run the cases of a run-based check and print exception buckets.
  python -m vf.tools.explore c01 [n] [seed]
"""
import importlib, sys, collections
from vf.core import Ctx
from vf import configs, runs

def main():
    name = sys.argv[1]; n = int(sys.argv[2]) if len(sys.argv) > 2 else 16
    seed = int(sys.argv[3]) if len(sys.argv) > 3 else 1
    mod = importlib.import_module(f"vf.checks.{name}")
    ctx = Ctx(name.upper(), "quick", seed)
    cases = configs.collect(mod.strategy(ctx), seed, n)
    res = runs.run_histories(name + "x", [mod.make_history(c) for c in cases])
    buckets = collections.defaultdict(list)
    for c, reps in zip(cases, res):
        for r in reps:
            if r["status"] == "exception":
                buckets[(r["exc_type"], r["exc_where"])].append((c, r))
            for v in (r.get("violations") or [])[:1]:
                buckets[("VIOL", v["key"])].append((c, r))
    for c, reps in zip(cases, res):
        w = sum(r.get("wall_s", 0) or 0 for r in reps)
        if w > 60 or any(r.get("timed_out") for r in reps):
            print("SLOW", round(w), [r["status"] for r in reps], c["kwargs"], c["model"], c.get("kills"))
    for k, items in buckets.items():
        print("=" * 100); print(k, len(items))
        c, r = items[0]
        print(c["kwargs"]); print(c["model"], c.get("kills"))
        print(r.get("traceback", "")[-1800:])
        for v in (r.get("violations") or [])[:3]: print(v)
main()
