#!/bin/sh
# run the pinned baseline suite against every seeded change (scratch copy), record the outcome in meta.json
for d in /verif/seeded/C*/; do
  id=$(basename $d)
  if grep -q '"full_suite"' $d/meta.json; then continue; fi
  w=/tmp/fs-$id; rm -rf $w; mkdir $w
  cp -r /repo/nessai /repo/tests /repo/pyproject.toml /repo/README.md $w/ 2>/dev/null
  [ -f /repo/conftest.py ] && cp /repo/conftest.py $w/
  (cd $w && patch -p1 -s -i $d/patch.diff) || { echo "$id patch failed"; continue; }
  (cd $w && PYTHONPATH=$w nice -n 10 /venv/bin/python -m pytest -q -p no:cacheprovider --timeout=900 --continue-on-collection-errors -x --deselect tests/test_plot.py::test_corner_plot_w_include_and_truths > $w/out.txt 2>&1)
  tail -1 $w/out.txt > /tmp/fs-$id.result
  /venv/bin/python - <<PY
import json
p="$d/meta.json"; m=json.load(open(p))
m["full_suite"]={"command":"pytest -q -p no:cacheprovider --timeout=900 --continue-on-collection-errors -x (scratch copy of /repo with patch.diff applied; the two pinned tests/test_plot.py baseline failures deselected)","summary":open("/tmp/fs-$id.result").read().strip()}
json.dump(m,open(p,"w"),indent=1)
PY
  echo "$id: $(cat /tmp/fs-$id.result)"
  rm -rf $w
done
