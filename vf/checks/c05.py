"""C05 - returned results are mutually consistent and faithful to the model.

Generator : the C01 and C03 configuration strategies (both samplers), with
            iteration caps that cut runs short and 0-2 kill/resume cycles.
Oracle    : vf.post.results - evidence, uncertainty and posterior weights
            recomputed from the returned samples alone (mpmath quadrature for
            the standard sampler, log-mean-exp for the importance sampler),
            sample counts, ordering, stored logL/logP == model, birth
            likelihoods, agreement of result dictionary / FlowSampler / sampler.
"""
from hypothesis import strategies as st

from .. import configs, runcheck

USES_KNOWN_CASES = True
LEVEL = "exploration"
RULE = (
    "Real runs of both samplers through FlowSampler.run (configurations from "
    "the C01 and C03 Hypothesis strategies, iteration caps, 0-2 kill/resume "
    "cycles); after the run the returned objects are analysed. evaluations = "
    "returned samples examined. Non-trivial: completed run, finalised with "
    ">= 2 flow trainings (standard) / >= 2 levels (importance); distinct by "
    "configuration hash."
)
ASSUMPTIONS = [
    "mpmath (60 digits) evaluation of the documented quadrature is the "
    "reference for the standard sampler's evidence and weights (tolerance as "
    "in C02)",
    "the information H is compared with its closed form sum(w_i/Z log L_i) - "
    "log Z over rectangle weights; the recurrence's treatment of the first "
    "dead point (log w_1 instead of log L_1) is accepted as well",
    "runs that end in a nessai exception before results exist are not judged "
    "here (C20) unless the exception comes from building the results",
]
MONITORS = []
POST = ["results"]


def make_history(case):
    h = configs.history_from(case, MONITORS, post=POST)
    if case.get("resume_after_finish"):
        # the finished run is resumed from its final checkpoint by a fresh
        # process (a resubmitted job) and run() is called again: the results
        # it returns are judged like those of any other run
        h["steps"].append(dict(h["steps"][-1], final_resume=True))
    return h


def judge(case, reports, add, stats):
    runcheck.monitor_violations(reports, add)
    last = reports[-1]
    classes = list(case.get("labels", []))
    classes.append("sampler:ins" if case.get("ins") else "sampler:standard")
    for r in reports:
        classes.extend(r.get("classes") or [])
        if r.get("status") == "exception":
            classes.append("errored:" + runcheck.exc_key(r))
    completed = last.get("status") == "completed"
    data = (last.get("data") or {}).get("results") or {}
    res = last.get("result") or {}
    if completed:
        classes.append("completed")
    if last.get("status") == "exception" and last.get("phase") == "run" and \
            (last.get("exc_where") or "").endswith(
                ("get_result_dictionary", "final_samples")):
        add("results:exception:%s@%s" % (last.get("exc_type"),
                                         last.get("exc_where")),
            last.get("exc_msg", ""))
    if case.get("ins"):
        nt = completed and data.get("levels", 0) >= 2
    else:
        nt = completed and data.get("finalised") and \
            res.get("n_trainings", 0) >= 2
    if any((r.get("counters") or {}).get("ns.resumes", 0) for r in reports) \
            or len(reports) > 1:
        classes.append("resumed-run")
    return bool(nt), classes, int(data.get("N", 0))


def strategy(ctx):
    return st.one_of(
        configs.standard_job(nlive=(20, 200), resume_cycles=(0, 2)),
        configs.standard_job(nlive=(20, 200), resume_cycles=(0, 0)),
        configs.ins_job(resume_cycles=(0, 1)),
    )


def run(ctx):
    n = 24 if ctx.quick else 400
    cases = configs.collect(strategy(ctx), ctx.seed, n)
    for i, c in enumerate(cases):
        if i % 3 == 0 and not c.get("kills"):
            c["resume_after_finish"] = True
            c["labels"] = list(c.get("labels", [])) + [
                "history:resumed-after-finish"]
    cases += runcheck.known_cases("C05")
    return runcheck.execute_cases(ctx, "c05", cases, make_history, judge)


def health(ctx, stats):
    need = {"completed": 8, "sampler:ins": 2, "sampler:standard": 4,
            "finalised": 2, "stopped-by-cap": 1}
    if not ctx.quick:
        need = {"completed": 200, "sampler:ins": 60, "sampler:standard": 120,
                "finalised": 80, "stopped-by-cap": 30, "resumed-run": 30}
    return [f"class {k}: {stats.classes.get(k, 0)} < {v}"
            for k, v in need.items() if stats.classes.get(k, 0) < v]


def replay(ctx, case):
    case = {k: v for k, v in case.items() if k != "extra"}
    return runcheck.replay_case(ctx, "c05r", case, make_history, judge)
