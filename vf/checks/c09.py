"""C09 - proposal pools follow the prior inside the contour and never leave
the prior.

Four parts.
 A structural : passive monitor on every pool population / draw in real runs
                of both samplers (vf.monitors.install_pool).
 B distribution: vf.c09_dist - pools of directly driven proposals compared
                with brute-force rejection from the prior restricted to the
                same contour (two-sample chi-square / KS, p < 1e-9).
 C support     : the call log of the model in every real run - each argument
                of log_likelihood is in bounds with a finite log-prior.
 D marginalised: vf.c09_marg - AugmentedFlowProposal(marginalise_augment):
                the Monte-Carlo density a candidate is weighted with is an
                estimate for that candidate (exact rank bound).
"""
from hypothesis import strategies as st

from .. import configs, runcheck
from ..core import Outcome

USES_KNOWN_CASES = True
LEVEL = "exploration"
RULE = (
    "(A,C) real runs of both samplers from the C01/C03 Hypothesis strategies "
    "(every proposal class incl. augmented, gravitational-wave and "
    "clustering, latent priors, radius options, weight accumulation, log-q "
    "truncation, reparameterisations, pool/draw sizes) with a passive pool "
    "monitor and a likelihood call log; evaluations = pool rows + likelihood "
    "arguments examined. (B) generated proposal cells compared with "
    "brute-force prior-in-contour samples of equal size (12000). "
    "Non-trivial: a run with at least one pool drawn from a trained flow "
    "with population acceptance < 1, or a distribution cell with a trained "
    "flow; distinct by configuration hash. "
)
from .. import c09_marg as _m  # noqa: E402

RULE = RULE + _m.RULE_C.replace("(C)", "(D)")
ASSUMPTIONS = [
    "exact model arithmetic: pool logP/logL must equal the model bit for bit",
    "latent-contour membership is checked only for deterministic "
    "reparameterisations (no inversion / angle / augment randomness), with a "
    "float32 slack of 1e-3*max(1,r)+1e-3 on the radius",
    "statistical part: fixed sample size 12000 vs 12000 and a Bonferroni-"
    "corrected threshold p < 1e-9; smaller deviations pass",
]
ASSUMPTIONS += _m.ASSUMPTIONS_C
# "draws": a pool population that needs more than 2e6 latent draws is
# stopped (exit status 21): it never delivers a pool of the requested size
MONITORS = ["pool", "draws"]


def make_history(case):
    return configs.history_from(case, MONITORS, post=["support"],
                                call_log=True)


def judge(case, reports, add, stats):
    runcheck.monitor_violations(reports, add)
    classes = list(case.get("labels", []))
    classes.append("sampler:ins" if case.get("ins") else "sampler:standard")
    rows = 0
    for r in reports:
        classes.extend(r.get("classes") or [])
        c = r.get("counters") or {}
        rows += c.get("pool.rows", 0) + c.get("support.points", 0)
        if r.get("status") == "exception":
            classes.append("errored:" + runcheck.exc_key(r))
    for i, r in enumerate(reports):
        if r.get("returncode") == 21:
            db = (r.get("data") or {}).get("draw_bound") or {}
            add("population-draw-bound@%s" % db.get("proposal"),
                f"step {i}: more than {db.get('draws')} latent draws "
                f"({db.get('batches')} batches of {db.get('drawsize')}) in "
                f"one pool population", {"step": i})
            classes.append("population-never-ends")
    last = reports[-1]
    ok = last.get("status") == "completed"
    if ok:
        classes.append("completed")
    nt = ok and ("pool:acceptance<1" in (last.get("classes") or []) or
                 case.get("ins"))
    return bool(nt), classes, rows


@st.composite
def gw_or_aug(draw):
    c = draw(configs.standard_job(
        nlive=(30, 120), include_quantised=False,
        proposal_classes=["augmentedflowproposal", "flowproposal",
                          "clusteringflowproposal"]))
    return c


def strategy(ctx):
    return st.one_of(
        configs.standard_job(nlive=(30, 150), include_quantised=False),
        gw_or_aug(),
        configs.ins_job(nlive=(100, 300)),
    )


def run(ctx):
    n = 18 if ctx.quick else 300
    cases = configs.collect(strategy(ctx), ctx.seed, n)
    known = runcheck.known_cases("C09")
    cases += [c for c in known if c.get("kind") not in (
        "direct-history", "dist-cell", "marg-cell")]
    out = runcheck.execute_cases(ctx, "c09", cases, make_history, judge)
    from .. import c09_direct

    out.merge(c09_direct.run_cells(ctx))
    from .. import c09_marg

    out.merge(c09_marg.run_cells(ctx))
    for c in known:
        if c.get("kind") in ("direct-history", "dist-cell", "marg-cell"):
            c = {k: v for k, v in c.items() if k != "labels"}
            for v in replay(ctx, c):
                out.add(v)
    try:
        from .. import c09_dist
    except ImportError:
        out.stats.extra["distribution_part"] = "not available"
    else:
        if getattr(c09_dist, "READY", False):
            out.merge(c09_dist.run_cells(ctx))
        else:
            out.stats.extra["distribution_part"] = "not enabled"
    return out


def health(ctx, stats):
    c = stats.classes
    flow_pools = sum(v for k, v in c.items()
                     if k.startswith("pool:") and k.endswith("FlowProposal"))
    probs = []
    need = {"completed": 6, "direct-history": 20}
    if not ctx.quick:
        need = {"completed": 150, "direct-history": 400}
    for k, v in need.items():
        if c.get(k, 0) < v:
            probs.append(f"class {k}: {c.get(k, 0)} < {v}")
    if c.get("marg:densities-differ", 0) < (6 if ctx.quick else 150):
        probs.append("marginalised-augment cells with differing densities: "
                     f"{c.get('marg:densities-differ', 0)}")
    if flow_pools < (4 if ctx.quick else 100):
        probs.append(f"only {flow_pools} histories with flow-based pools")
    try:
        from .. import c09_dist

        if getattr(c09_dist, "READY", False):
            probs += list(c09_dist.health_cells(ctx, stats) or [])
    except ImportError:
        pass
    return probs


def replay(ctx, case):
    if case.get("kind") == "direct-history":
        from .. import c09_direct

        return c09_direct.replay_cell(ctx, case)
    if case.get("kind") == "marg-cell":
        from .. import c09_marg

        return c09_marg.replay_cell(ctx, case)
    if case.get("kind") == "dist-cell":
        from .. import c09_dist

        return c09_dist.replay_cell(ctx, case)
    case = {k: v for k, v in case.items() if k != "extra"}
    return runcheck.replay_case(ctx, "c09r", case, make_history, judge)
