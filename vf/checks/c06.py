"""C06 - evidence estimates and posteriors are calibrated against analytic
truths.

Generator : seeds (Hypothesis) x analytic models x a matrix of algorithmic
            configurations ("cells") of both samplers.
Oracle    : per cell over its S seeds, with thresholds fixed by tail bounds
            (Student-t / chi-square / binomial at a total false-alarm
            probability < 1e-9 per check run, Bonferroni over all tests):
            evidence and uncertainty finite and positive; mean error
            compatible with zero; spread of errors compatible with the
            reported uncertainties; pooled weighted posterior mean/variance
            equal to the analytic values; insertion-index p-values not
            concentrated near zero.
"""
import math

import numpy as np
from hypothesis import strategies as st
from scipy import stats as sst

from .. import configs, runs
from ..core import HarnessError, Outcome, Violation, jhash

LEVEL = "exploration"
RULE = (
    "Cells = (analytic model, algorithmic configuration) of the standard and "
    "the importance sampler; each cell is run with S Hypothesis-drawn seeds "
    "(quick: 33 of the 34 cells, 20 seeds for about twelve of them - rotating through the "
    "matrix with VERIF_SEED - and 12 for the others; thorough: 100 seeds "
    "each); two cells are killed once and resumed. evaluations = completed "
    "runs. Non-trivial cell: at least 80% of its runs completed and were "
    "judged; distinct by cell name."
)
ASSUMPTIONS = [
    "errors of log Z are treated as approximately normal: the mean-error "
    "test uses the Student-t quantile for S-1 degrees of freedom at "
    "1e-9/(number of tests), plus mean(sigma)^2 for the Jensen bias of the "
    "log of an (almost) unbiased estimator",
    "the spread test uses the chi-square interval at 1e-9/(tests) widened by "
    "a factor [0.5, 1.6]: the reported uncertainties are themselves "
    "approximations (sqrt(H/n) ignores proposal imperfection; the "
    "importance-sampler estimate is conservative); measured on the unchanged "
    "tree 0.63-1.35",
    "posterior moments: pooled Kish effective sample size, normal "
    "approximation, 6.5 standard errors + 1% of the posterior standard "
    "deviation (finite-sample bias of self-normalised weights)",
    "decisions use fixed thresholds: a defect that moves the mean of log Z by "
    "less than ~0.5 (20 seeds) / ~1.3 (12 seeds) / ~0.12 (thorough) passes unless it moves the posterior moments or the insertion indices",
]

STD_BASE = {
    "nlive": 100, "plot": False, "checkpointing": False,
    "flow_config": {"n_blocks": 2, "n_neurons": 8},
    "training_config": {"max_epochs": 50, "patience": 10},
}
INS_BASE = {
    "nlive": 300, "plot": False, "checkpointing": False, "min_samples": 100,
    "max_iteration": 20,
    "flow_config": {"n_blocks": 2, "n_neurons": 16},
    "training_config": {"max_epochs": 200, "patience": 20},
}
G2 = {"name": "gauss_uniform", "dims": 2}
G4 = {"name": "gauss_uniform", "dims": 4, "lo": -4.0, "hi": 4.0}
GG = {"name": "gauss_gauss", "dims": 2}
GGA = {"name": "gauss_gauss", "dims": 2, "analytic_new_point": True}
PER = {"name": "periodic", "dims": 2}
GAF = {"name": "gauss_affine", "dims": 2}

CELLS = [
    ("std/default", G2, False, {}),
    ("std/no-uninformed", G2, False, {"maximum_uninformed": False}),
    ("std/short-uninformed", G2, False, {"maximum_uninformed": 20}),
    ("std/analytic-priors", GGA, False, {"analytic_priors": True}),
    ("std/nonuniform-prior", GG, False, {}),
    ("std/maf", G2, False, {"flow_config": {"n_blocks": 2, "n_neurons": 8,
                                            "ftype": "maf"}}),
    ("std/nsf", G2, False, {"flow_config": {"n_blocks": 2, "n_neurons": 8,
                                            "ftype": "nsf"}}),
    ("std/rescaletobounds", G2, False, {"reparameterisations": "default"}),
    ("std/logit", G2, False, {"reparameterisations": "logit"}),
    ("std/inversion", G2, False, {"reparameterisations": "inversion"}),
    ("std/angle", PER, False, {"reparameterisations": {"phi": "angle-2pi"}}),
    ("std/shrinkage-t", G2, False, {"shrinkage_expectation": "t"}),
    ("std/uniform-nball", G2, False, {"latent_prior": "uniform_nball"}),
    ("std/no-constant-volume", G2, False, {"constant_volume_mode": False}),
    ("std/accumulate-weights", G2, False, {"accumulate_weights": True,
                                           "constant_volume_mode": False}),
    ("std/augmented", G2, False,
     {"flow_proposal_class": "augmentedflowproposal"}),
    ("std/4d", G4, False, {}),
    # the augment parameters are marginalised out of the proposal density
    # by Monte Carlo
    ("std/augmented-marginalised", G4, False,
     {"flow_proposal_class": "augmentedflowproposal",
      "marginalise_augment": True, "n_marg": 50}),
    ("ins/default", G2, True, {}),
    ("ins/strict", G2, True, {"strict_threshold": True}),
    ("ins/replace-all", G2, True, {"replace_all": True}),
    ("ins/variable-draws", G2, True, {"draw_constant": False}),
    ("ins/quantile", G2, True, {"threshold_method": "quantile",
                                "threshold_kwargs": {"q": 0.8}}),
    ("ins/no-iid", G2, True, {"draw_iid_live": False}),
    ("ins/no-logit", GG, True, {"reparameterisation": None}),
    # more initial prior samples than live points: the prior level's share of
    # the meta-proposal is n_initial / N, not nlive / N
    ("ins/n-initial", G2, True, {"n_initial": 900}),
    ("ins/nsf", G2, True, {"flow_config": {"n_blocks": 2, "n_neurons": 16,
                                           "ftype": "nsf"}}),
    ("ins/maf", G2, True, {"flow_config": {"n_blocks": 2, "n_neurons": 16,
                                           "ftype": "maf"}}),
    # prior that is not uniform on the unit hypercube (logU != 0)
    ("ins/nonuniform-unit-prior", GAF, True, {}),
    ("std/uniform-nsphere", G2, False, {"latent_prior": "uniform_nsphere"}),
    ("std/gaussian-latent", G2, False, {"latent_prior": "gaussian",
                                        "constant_volume_mode": False}),
    # runs that are killed once (between two iterations of flow sampling /
    # at the third level) and resumed from their last checkpoint
    ("std/resumed", G2, False,
     {"checkpointing": True, "checkpoint_on_iteration": True,
      "checkpoint_interval": 1, "maximum_uninformed": 50},
     [{"event": "population", "k": 1}, {"event": "iteration", "k": 260}]),
    # SIGTERM while the likelihood of the first flow pool is evaluated (the
    # handler checkpoints and exits), then resumed
    ("std/signal-resumed", G2, False,
     {"checkpointing": True, "maximum_uninformed": 50},
     [{"event": "population", "k": 1, "signal": "SIGTERM"}]),
    # a quarter of a million samples: every flow evaluates more than 1e5
    # points in one call
    ("ins/large", G2, True,
     {"nlive": 60000, "min_samples": 100, "max_iteration": 3,
      "flow_config": {"n_blocks": 2, "n_neurons": 8},
      "training_config": {"max_epochs": 20, "patience": 5,
                          "batch_size": 5000}}),
    ("ins/resumed", G2, True,
     {"checkpointing": True, "checkpoint_interval": 1},
     [{"event": "level", "k": 5}]),
]


def cell_job(cell, seed):
    name, model, ins, extra = cell[:4]
    kw = dict(INS_BASE if ins else STD_BASE)
    kw.update(extra)
    kw["seed"] = int(seed)
    return {"model": model, "ins": ins, "kwargs": kw, "monitors": [],
            "post": ["calib"]}


def true_moments(model_spec):
    from ..models import make_model

    m = make_model(model_spec)
    return m.posterior_moments()


def judge_cell(ctx, cell, seeds, reps, out, n_tests):
    name = cell[0]
    S = len(seeds)
    case = {"cell": name, "seeds": seeds}
    data = []
    classes = ["cell:" + name, "sampler:ins" if cell[2] else
               "sampler:standard"]
    errored = 0
    for r in reps:
        if r.get("status") == "exception" and r.get("exc_in_harness"):
            raise HarnessError(r.get("traceback", ""))
        c = (r.get("data") or {}).get("calib")
        if r.get("status") == "completed" and c:
            data.append(c)
        else:
            errored += 1
            classes.append("run-errored:%s@%s" % (r.get("exc_type"),
                                                  r.get("exc_where")))
    n = len(data)
    viol = []

    def add(key, msg):
        viol.append(Violation(f"{key}:{name}", msg, case))

    judged = n >= max(8, int(0.8 * S))
    summary = {"cell": name, "S": S, "completed": n}
    if judged:
        alpha = 1e-9 / n_tests
        z = np.array([d["log_evidence"] for d in data])
        sig = np.array([d["log_evidence_error"] for d in data])
        truth = data[0]["true_log_evidence"]
        if not np.all(np.isfinite(z)):
            add("log-evidence-not-finite", f"{int((~np.isfinite(z)).sum())} "
                f"of {n} runs")
        if not (np.all(np.isfinite(sig)) and np.all(sig > 0)):
            add("uncertainty-not-finite-positive",
                f"{int((~(np.isfinite(sig) & (sig > 0))).sum())} of {n} runs")
        ok = np.isfinite(z) & np.isfinite(sig) & (sig > 0)
        if ok.sum() >= 8:
            err = z[ok] - truth
            m = int(ok.sum())
            mean = float(err.mean())
            sd = float(err.std(ddof=1))
            rms = float(np.sqrt(np.mean(sig[ok] ** 2)))
            tq = float(sst.t.ppf(1 - alpha / 2, m - 1))
            lim = tq * sd / math.sqrt(m) + float(np.mean(sig[ok] ** 2))
            summary.update(mean_error=mean, sd_error=sd, rms_sigma=rms,
                           limit=lim, ratio=sd / rms)
            if abs(mean) > lim:
                add("mean-error-incompatible-with-zero",
                    f"mean(logZ - truth) = {mean:+.4f} over {m} seeds, "
                    f"|.| limit {lim:.4f} (sd {sd:.4f}, t={tq:.2f})")
            lo = math.sqrt(sst.chi2.ppf(alpha / 2, m - 1) / (m - 1)) * 0.5
            hi = math.sqrt(sst.chi2.ppf(1 - alpha / 2, m - 1) / (m - 1)) * 1.6
            if not (lo <= sd / rms <= hi):
                add("error-spread-incompatible-with-uncertainty",
                    f"sd(err)/rms(sigma) = {sd / rms:.3f} outside "
                    f"[{lo:.3f}, {hi:.3f}]")
        # pooled posterior moments
        means_t, vars_t = true_moments(cell[1])
        ess = np.array([d["ess"] for d in data])
        W = ess / ess.sum()
        ess_tot = float(ess.sum())
        zq = 6.5
        for k in range(len(means_t)):
            mk = np.array([d["means"][k] for d in data])
            vk = np.array([d["variances"][k] for d in data])
            pm = float(np.sum(W * mk))
            pv = float(np.sum(W * (vk + (mk - pm) ** 2)))
            sdt = math.sqrt(vars_t[k])
            if abs(pm - means_t[k]) > zq * sdt / math.sqrt(ess_tot) + \
                    0.01 * sdt:
                add("posterior-mean!=analytic",
                    f"dim {k}: {pm:.4f} vs {means_t[k]:.4f} "
                    f"(pooled ESS {ess_tot:.0f})")
            if abs(pv / vars_t[k] - 1.0) > zq * math.sqrt(
                    2.0 / ess_tot) + 0.02:
                add("posterior-variance!=analytic",
                    f"dim {k}: {pv:.4f} vs {vars_t[k]:.4f} "
                    f"(pooled ESS {ess_tot:.0f})")
            summary[f"post_mean_{k}"] = pm
            summary[f"post_var_ratio_{k}"] = pv / vars_t[k]
        # insertion indices
        pvals = [d["p_value"] for d in data if d["p_value"] is not None]
        if pvals:
            small = sum(p < 1e-4 for p in pvals)
            k = 0
            while sst.binom.sf(k, len(pvals), 1e-4) >= alpha:
                k += 1
            summary["min_p"] = min(pvals)
            if small > k:
                add("insertion-index-p-values-near-zero",
                    f"{small} of {len(pvals)} runs have p < 1e-4 "
                    f"(allowed {k})")
    else:
        classes.append("cell-not-judged")
    for v in viol:
        if ctx.known(v.key):
            out.stats.excluded_known[v.key] += 1
        out.add(v)
    out.stats.extra.setdefault("cells", []).append(summary)
    out.stats.case(summary, nontrivial=judged, classes=classes,
                   key=jhash(name), n=max(1, n))


def cell_history(cell, seed):
    job = cell_job(cell, seed)
    kills = cell[4] if len(cell) > 4 else []
    steps = [dict(job, kill_event=k) for k in kills] + [job]
    return {"steps": steps, "until_completed": True}


def run_cells(ctx, cells, S, tag, S_of=None):
    """S seeds per cell (S_of: cell name -> its own number of seeds)."""
    out = Outcome()
    S_of = S_of or {}
    s_max = max([S] + list(S_of.values()))
    seeds = configs.collect(st.integers(1, 2**31 - 1), ctx.seed, s_max,
                            key=lambda v: v)
    hist = []
    for cell in cells:
        for s in seeds[:S_of.get(cell[0], S)]:
            hist.append(cell_history(cell, s))
    res = runs.run_histories(tag, hist)
    n_tests = 8 * len(cells)
    k = 0
    for cell in cells:
        n = S_of.get(cell[0], S)
        reps = [r[-1] for r in res[k:k + n]]
        resumed = sum(1 for r in res[k:k + n] if len(r) > 1)
        k += n
        if len(cell) > 4:
            out.stats.classes["resumed-runs"] += resumed
        judge_cell(ctx, cell, seeds[:n], reps, out, n_tests)
    return out


def run(ctx):
    if ctx.quick:
        # every cell of the matrix in every run: 20 seeds for the cells that
        # guard repaired defects and for a fifth of the others (rotating with
        # VERIF_SEED), 12 seeds for the rest (the thresholds follow the
        # number of seeds of each cell)
        keep = {"std/default", "std/no-uninformed", "ins/default",
                "std/augmented", "ins/n-initial", "std/signal-resumed"}
        rest = [c for c in CELLS if c[0] not in keep]
        k = ctx.seed % 5
        S_of = {c[0]: 20 for c in CELLS if c[0] in keep}
        S_of.update({c[0]: 20 for i, c in enumerate(rest) if i % 5 == k})
        # (the accumulate-weights cell needs minutes per run: thorough only)
        cells = [c for c in CELLS if c[0] != "std/accumulate-weights"]
        return run_cells(ctx, cells, 12, "c06", S_of)
    return run_cells(ctx, CELLS, 100, "c06")


def health(ctx, stats):
    judged = stats.classes.get("nontrivial", 0)
    need = 30 if ctx.quick else 32
    return [] if judged >= need else [f"only {judged} cells judged"]


def replay(ctx, case):
    cell = [c for c in CELLS if c[0] == case["cell"]][0]
    out = Outcome()
    hist = [cell_history(cell, s) for s in case["seeds"]]
    res = runs.run_histories("c06r", hist)
    judge_cell(ctx, cell, case["seeds"], [r[-1] for r in res], out, 8)
    return out
