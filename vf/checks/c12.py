"""C12 - resuming restores the checkpointed state and yields a valid,
accounted run.

Generator : histories = configuration of either sampler (iteration- or
            time-triggered checkpoints, checkpoint_on_training, save_log_q)
            + 1-3 kills placed at generated fractions of the run's likelihood
            evaluations, each followed (after >= 3 s of downtime) by a resume
            in a fresh process.
Oracle    : digest(sampler) recorded at every checkpoint write must equal,
            field by field, the digest of the restored sampler at the moment
            it is about to continue; flow weights, evaluation counter and
            sampling time equal the stored values; final counter = stored +
            batches evaluated since (independent tally); total sampling time
            <= summed process lifetimes; the completed run satisfies the
            C01/C03/C05 invariants.
"""
from hypothesis import strategies as st

from .. import configs, runcheck

USES_KNOWN_CASES = True
LEVEL = "fault_enumeration"
RULE = (
    "Kill/resume histories of real runs: a generated configuration of either "
    "sampler is run to get its number of likelihood evaluations, then re-run "
    "with 1-3 process kills (os._exit inside the likelihood) at generated "
    "fractions of that number, each followed by >= 3 s of downtime and a "
    "resume in a fresh process. evaluations = resume events whose restored "
    "state was compared with the recorded checkpoint digest. Non-trivial "
    "history: at least one resume happened from a checkpoint taken after "
    "iteration 0 and the run completed; distinct by configuration + kill "
    "schedule."
)
ASSUMPTIONS = [
    "kills happen inside likelihood calls, never inside a checkpoint write "
    "(C11 covers those), so the newest recorded checkpoint is complete and "
    "must be the one restored",
    "excluded from the digest: wall-clock stamps, the model, the pool, torch "
    "modules (compared through their weights) and caches rebuilt before "
    "their next use (see vf/digest.py)",
    "re-derived importance-sampler density tables are compared with float32 "
    "tolerance (1e-3 + 1e-5|v|)",
    "sampling time: one-sided physical bound (<= summed process lifetimes + "
    "0.5 s) with >= 3 s of downtime between processes",
]
MONITORS_STD = ["ns", "ckpt"]
MONITORS_INS = ["ins", "ckpt"]


def make_history(case):
    mons = MONITORS_INS if case.get("ins") else MONITORS_STD
    h = configs.history_from(case, mons, post=["results", "accounting"])
    for i, s in enumerate(h["steps"]):
        if i > 0:
            s["sleep_before"] = 3.0
            if case.get("resume_via_data"):
                # the resuming process loads the checkpoint itself and hands
                # the object to FlowSampler(resume_data=...)
                s["resume_via_data"] = True
    if case.get("resume_after_finish"):
        # the final checkpoint is a checkpoint too: a fresh process restores
        # the finished run and run() is called again
        h["steps"].append(dict(h["steps"][-1], final_resume=True))
    return h


def judge(case, reports, add, stats):
    runcheck.monitor_violations(
        reports, add, skip=runcheck.known_elsewhere(["C03", "C05"]))
    classes = list(case.get("labels", []))
    classes.append("sampler:ins" if case.get("ins") else "sampler:standard")
    n_cmp = 0
    late = False
    for r in reports:
        classes.extend(r.get("classes") or [])
        c = r.get("counters") or {}
        n_cmp += c.get("ckpt.resume_checks", 0)
        ck = (r.get("data") or {}).get("ckpt") or {}
        if ck.get("resumed_iteration", 0) and ck.get("resumed_serial"):
            late = True
        if r.get("status") == "exception":
            classes.append("errored:" + runcheck.exc_key(r))
    # a process that follows a kill must be able to restore the checkpoint:
    # an exception raised while FlowSampler(resume=True) is constructed is a
    # failed resume, whatever the configuration (a configuration that nessai
    # rejects is rejected by the first process, before anything is killed)
    for i, r in enumerate(reports):
        if i > 0 and r.get("status") == "exception" and \
                r.get("phase") == "construct" and \
                reports[i - 1].get("status") == "killed":
            add("resume-failed:%s@%s" % (r.get("exc_type"),
                                         r.get("exc_where")),
                f"step {i}: the previous process was killed; "
                f"resuming raised {r.get('exc_type')}: {r.get('exc_msg')}",
                {"step": i})
    # the finished run restored from its final checkpoint must run() again
    # without failing
    if case.get("resume_after_finish") and len(reports) >= 2 and \
            reports[-2].get("status") == "completed":
        r = reports[-1]
        classes.append("final-checkpoint-resumed")
        if r.get("status") == "exception" and not r.get("exc_in_harness"):
            add("resume-of-finished-run-failed:%s@%s" % (
                r.get("exc_type"), r.get("exc_where")),
                f"the run had completed; a fresh process resumed its final "
                f"checkpoint and run() raised {r.get('exc_type')}: "
                f"{r.get('exc_msg')}", {"step": len(reports) - 1})
        reports = reports[:-1]
    # a process that follows a kill raised while sampling: decided in run()
    # by executing the same configuration without the kills
    for i, r in enumerate(reports):
        if i > 0 and r.get("status") == "exception" and \
                r.get("phase") != "construct" and \
                not r.get("exc_in_harness") and \
                any(q.get("status") == "killed" for q in reports[:i]):
            mid = any("resumed-from-mid-iteration-checkpoint" in
                      (q.get("classes") or []) for q in reports)
            FAILED_AFTER_RESUME.append({
                "case": case, "step": i,
                "key": "resumed-run-failed:%s@%s%s" % (
                    r.get("exc_type"), r.get("exc_where"),
                    "@consume_sample" if mid else ""),
                "msg": f"step {i}: {r.get('exc_type')}: {r.get('exc_msg')}"})
            classes.append("failed-after-resume")
            break
    last = reports[-1]
    completed = last.get("status") == "completed" and not last.get("probe")
    if completed:
        classes.append("completed")
        # physical bound on the reported sampling time
        # each process can have sampled at most from the construction of
        # its FlowSampler to its end
        life = sum((r.get("t_end", 0) - ((r.get("data") or {}).get(
            "t_construct") or r.get("t_begin", 0))) for r in reports)
        ck = (last.get("data") or {}).get("ckpt") or {}
        stime = ck.get("final_sampling_time")
        if stime is not None and len(reports) > 1 and stime > life + 0.5:
            add("sampling-time>process-lifetimes",
                f"reported {stime:.2f}s, the {len(reports)} processes can "
                f"have sampled for {life:.2f}s in total (construction of "
                f"FlowSampler to process end)")
    if n_cmp:
        classes.append("resume-compared")
    return bool(completed and late), classes, n_cmp


def strategy(ctx):
    return st.one_of(
        configs.standard_job(nlive=(30, 150), resume_cycles=(1, 3),
                             allow_ckpt_on_training=True),
        configs.standard_job(nlive=(30, 150), resume_cycles=(1, 2),
                             allow_ckpt_on_training=True),
        configs.ins_job(resume_cycles=(1, 2), nlive=(100, 300)),
    )


FAILED_AFTER_RESUME = []


def decide_failed_after_resume(ctx, out):
    """A run that is killed and resumed must complete like the uninterrupted
    run: for every history whose resumed process raised, the same (seeded,
    deterministic) configuration is executed without kills; if that run
    completes, the failure belongs to the kill/resume history."""
    from .. import runs
    from ..core import Violation

    todo, FAILED_AFTER_RESUME[:] = list(FAILED_AFTER_RESUME), []
    if not todo:
        return
    hist = []
    for t in todo:
        c = dict(t["case"], kills=[])
        c.pop("mid_ckpt_kill", None)
        hist.append(configs.history_from(c, []))
    res = runs.run_histories("c12u", hist)
    for t, reps in zip(todo, res):
        r = reps[-1]
        if r.get("status") == "completed":
            v = Violation(
                t["key"], t["msg"] + " - the same configuration run without "
                "interruption completes", dict(t["case"]))
            if ctx.known(v.key):
                out.stats.excluded_known[v.key] += 1
            out.add(v)
        else:
            out.stats.classes["failed-after-resume:also-uninterrupted"] += 1


def run(ctx):
    n = 14 if ctx.quick else 300
    cases = configs.collect(strategy(ctx), ctx.seed, n)
    for i, c in enumerate(cases):
        if i % 4 == 2:
            c["resume_via_data"] = True
            c["labels"] = list(c.get("labels", [])) + [
                "history:resumed-through-resume_data"]
        if i % 3 == 1:
            c["resume_after_finish"] = True
            c["labels"] = list(c.get("labels", [])) + [
                "history:final-checkpoint-resumed"]
    cases += runcheck.known_cases("C12")
    FAILED_AFTER_RESUME[:] = []
    out = runcheck.execute_cases(ctx, "c12", cases, make_history, judge)
    decide_failed_after_resume(ctx, out)
    return out


def health(ctx, stats):
    need = {"completed": 4, "resume-compared": 3, "sampler:ins": 1,
            "sampler:standard": 2}
    if not ctx.quick:
        need = {"completed": 80, "resume-compared": 80, "sampler:ins": 30, "sampler:standard": 60}
    return [f"class {k}: {stats.classes.get(k, 0)} < {v}"
            for k, v in need.items() if stats.classes.get(k, 0) < v]


def replay(ctx, case):
    case = {k: v for k, v in case.items() if k != "extra"}
    FAILED_AFTER_RESUME[:] = []
    out = runcheck.replay_case(ctx, "c12r", case, make_history, judge)
    decide_failed_after_resume(ctx, out)
    return out
