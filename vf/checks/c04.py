"""C04 - INS sample store stays sorted, partitioned and aligned.

Code under test : nessai.samplers.importancesampler.OrderedSamples
                  (add_initial_samples, update_log_likelihood_threshold,
                  add_samples, remove_samples, finalise, sort_samples) and,
                  through it, nessai.utils.structures.get_inverse_indices /
                  get_subset_arrays.

Generators
  (1) bounded exhaustive enumeration, prefix-sharing depth-first search on
      copies of the store (each operation is executed once per prefix), for
      each of the four strict_threshold x replace_all modes, likelihood
      alphabet {0,1,2}, batches = multisets of bounded size:
        free-own      every protocol-valid sequence of
                      {init, thr, add, rem, fin} up to a depth bound, the
                      threshold ranging over the current live values
                      (DESIGN section 4 asks for depth 4 / batches <= 2
                      [quick] and depth 5 / batches <= 3 [thorough]; run:
                      quick depth 5 / batches <= 2, which contains it,
                      thorough depth 5 / batches <= 3 and depth 6 /
                      batches <= 2);
        cycle-own     the exact shape nested_sampling_loop produces,
                      init (thr rem add)^k [fin], which is a much smaller
                      language and is therefore taken deeper;
        cycle-foreign the same shape with a threshold that is NOT taken from
                      the store: this is what the *training* store receives
                      when draw_iid_live=True (the default), because the
                      threshold is then a likelihood of the i.i.d. store.
                      Threshold alphabet {0,1,2,3} (3 = above everything;
                      a value absent from the store acts as "between").
  (2) a Hypothesis RuleBasedStateMachine: <= 60 steps, batches up to 200,
      floats with duplicates, occasional -inf (zero likelihood is accepted
      by the caller with a warning), all four modes, own / foreign threshold.
  (0) get_inverse_indices on every strictly increasing index set of
      range(n), n <= 9 (the only kind of argument add_samples passes).

Oracle: a list-of-records reference model (uid, logL, it, status).  The uid
is stored in a parameter field and encoded in the sample's log_q row.  Like
the caller, the harness appends one log_q column and rewrites the logW field
of every stored sample before each add_samples.
"""
import collections
import itertools
import logging
import math
import traceback

import numpy as np
from hypothesis import strategies as st

from ..core import HarnessError, Outcome, Violation, jdump, jhash
from ..hyp import run_machine
from ..par import run_shards

LEVEL = "exploration"
RULE = (
    "(1) Exhaustive prefix-sharing DFS over operation sequences on "
    "OrderedSamples for the 4 strict x replace_all modes, likelihood alphabet "
    "{0,1,2}, batches = multisets (passed in descending order): free-own "
    "(every protocol-valid sequence of init/thr/add/rem/fin up to depth 5 "
    "with batches<=2 [quick] or depth 5 with batches<=3 and depth 6 with "
    "batches<=2 [thorough], threshold = a current live value), cycle-own "
    "(caller shape init (thr rem add)^k [fin], up to 11 operations with "
    "batches<=2, thorough also 8 operations with batches<=3) and "
    "cycle-foreign (caller shape, threshold from {0,1,2,3} not tied to the "
    "store = training store under draw_iid_live; 8 operations, thorough "
    "also 11). The bounds actually run are the keys of "
    "coverage.enum_spaces (space/b<batch bound>/d<depth>). Every node of the tree is one evaluated sequence; the "
    "visited-node count is compared with an independent memoised count over "
    "abstract states; coverage.exhaustive is true only if free-own and "
    "cycle-own were visited completely (no subtree pruned); per-space "
    "completeness is in coverage.enum_spaces. (2) Hypothesis state machine, "
    "<=60 steps, batches 1..200 built from a per-machine value pool, "
    "existing values, threshold+-, below-everything, -inf. Non-trivial: the "
    "sequence contains an add whose batch ties with a stored value or lands "
    "below the lowest nested sample, followed by a remove; distinct by hash "
    "of the operation list (enumerated sequences are distinct by "
    "construction: exact count in coverage.enum_nontrivial_sequences, at "
    "most 400 hashes per shard are kept in distinct_nontrivial)."
)
ASSUMPTIONS = [
    "protocol preconditions are those of ImportanceNestedSampler."
    "nested_sampling_loop: strict mode sets a threshold before the first "
    "add; remove needs a non-empty live set (and a threshold unless "
    "replace_all); after a replace-all removal the next operation is add; "
    "nothing follows finalise; batches are non-empty; likelihoods are not "
    "NaN and not +inf (populate_live_points rejects +inf)",
    "own-threshold spaces: the threshold is the likelihood of a current "
    "live sample; foreign-threshold spaces: any value, non-decreasing in "
    "strict mode (the i.i.d. store's thresholds are)",
    "the order of samples with equal likelihood is not constrained by the "
    "property: every arrangement of ties is accepted",
    "an empty live set may be represented by None or by an empty index array",
    "all comparisons are exact (the store only moves values, no arithmetic)",
]

ALPHABET = (0.0, 1.0, 2.0)
FOREIGN_THRESHOLDS = (0.0, 1.0, 2.0, 3.0)
MODES = [(s, r) for s in (False, True) for r in (False, True)]
NT_HASH_CAP = 400

DTYPE = np.dtype(
    [
        ("x", "f8"),
        ("uid", "f8"),
        ("logP", "f8"),
        ("logL", "f8"),
        ("it", "i4"),
        ("logW", "f8"),
        ("logQ", "f8"),
        ("logU", "f8"),
    ]
)  # = nessai.livepoint.get_dtype(["x", "uid"]) after INS add_fields()


def _f(v):
    if isinstance(v, str):
        return {"-inf": -math.inf, "inf": math.inf, "nan": math.nan}[v]
    return float(v)


def _reset_globals():
    """nessai's per-process global state (none of it is read by the code
    under test, reset anyway as the framework requires)."""
    from nessai import config

    config.livepoints.reset()
    config.general.eps = 1e-8
    np.random.seed(0)


# ------------------------------------------------------------ record layout
def rows_for(uids, logL, it, ncol):
    """Expected stored records (structured) and log_q rows for given uids."""
    uids = np.asarray(uids, dtype=float)
    out = np.empty(len(uids), dtype=DTYPE)
    out["uid"] = uids
    out["x"] = ((uids * 37.0) % 11.0) / 4.0
    out["logP"] = -uids / 8.0
    out["logL"] = logL
    out["it"] = it
    out["logW"] = uids * 0.5 - (ncol - 1)
    out["logQ"] = uids / 16.0
    out["logU"] = -0.25 * uids
    return out


def log_q_for(uids, ncol):
    uids = np.asarray(uids, dtype=float)
    return uids[:, None] * 64.0 + np.arange(ncol, dtype=float)[None, :]


# ------------------------------------------------------------ reference model
class Model:
    """List-of-records reference: record uid has logL[uid], it[uid] and
    status[uid] in {'L','N'}."""

    __slots__ = (
        "strict", "replace_all", "logL", "it", "status", "thr", "ncol",
        "live_none", "finalised", "phase", "armed", "nontrivial", "n_add",
    )

    def __init__(self, strict, replace_all):
        self.strict = strict
        self.replace_all = replace_all
        self.logL = []
        self.it = []
        self.status = []
        self.thr = None
        self.ncol = 0
        self.live_none = True   # no live set yet
        self.finalised = False
        self.phase = "I"        # caller phase: I init, T thr|fin, R rem, A add
        self.armed = False
        self.nontrivial = False
        self.n_add = 0

    def copy(self):
        m = Model.__new__(Model)
        for k in Model.__slots__:
            setattr(m, k, getattr(self, k))
        m.logL = list(self.logL)
        m.it = list(self.it)
        m.status = list(self.status)
        return m

    # -- queries
    def live_uids(self):
        return [u for u, s in enumerate(self.status) if s == "L"]

    def live_values(self):
        return sorted(v for v, s in zip(self.logL, self.status) if s == "L")

    def key(self):
        return (
            tuple(sorted(zip(self.logL, self.status))),
            self.thr, self.live_none, self.finalised, self.phase,
        )

    # -- protocol
    def allowed(self, kind, cycle):
        if kind == "init":
            return self.phase == "I"
        if kind == "pkl":
            # a checkpoint / resume may happen between any two operations
            return self.phase != "I"
        if self.phase == "I" or self.finalised:
            return False
        has_live = (not self.live_none) and "L" in self.status
        if kind == "thr":
            ok = not self.live_none  # own thresholds additionally need live
            return ok and (not cycle or self.phase == "T")
        if kind == "rem":
            ok = has_live and (self.replace_all or self.thr is not None)
            return ok and (not cycle or self.phase == "R")
        if kind == "add":
            ok = (not self.strict) or self.thr is not None
            return ok and (not cycle or self.phase == "A")
        if kind == "fin":
            ok = not self.live_none
            return ok and (not cycle or self.phase == "T")
        raise ValueError(kind)

    def moves(self, cfg):
        """All protocol-valid next operations (finite spaces)."""
        cyc = cfg["cycle"]
        if self.allowed("init", cyc):
            return [["init", list(b)] for b in cfg["batches"]]
        out = []
        if self.allowed("thr", cyc):
            if cfg["foreign"]:
                vals = [
                    v for v in FOREIGN_THRESHOLDS
                    if not (self.strict and self.thr is not None
                            and v < self.thr)
                ]
            else:
                vals = sorted(set(self.live_values()))
            out += [["thr", v] for v in vals]
        if self.allowed("add", cyc):
            out += [["add", list(b)] for b in cfg["batches"]]
        if self.allowed("rem", cyc):
            out.append(["rem"])
        if self.allowed("fin", cyc):
            out.append(["fin"])
        return out

    # -- transitions
    def apply(self, op):
        kind = op[0]
        if kind == "init":
            vals = op[1]
            self.logL = list(vals)
            self.it = [-1] * len(vals)
            self.status = ["L"] * len(vals)
            self.ncol = 1
            self.live_none = False
            self.phase = "T"
            return None
        if kind == "thr":
            self.thr = op[1]
            self.phase = "R"
            return None
        if kind == "add":
            vals = op[1]
            existing = set(self.logL)
            nested = [v for v, s in zip(self.logL, self.status) if s == "N"]
            info = []
            if any(v in existing for v in vals):
                info.append("add:ties-stored-value")
            if nested and min(vals) < min(nested):
                info.append("add:below-lowest-nested")
            if len(set(vals)) < len(vals):
                info.append("add:ties-within-batch")
            if self.thr is not None:
                if any(v < self.thr for v in vals):
                    info.append("add:below-threshold")
                if any(v == self.thr for v in vals):
                    info.append("add:equal-threshold")
                if any(v > self.thr for v in vals):
                    info.append("add:above-threshold")
            if self.live_none:
                info.append("add:after-replace-all")
            if ("add:ties-stored-value" in info
                    or "add:below-lowest-nested" in info):
                self.armed = True
            self.ncol += 1
            self.n_add += 1
            self.logL += list(vals)
            self.it += [self.n_add - 1] * len(vals)
            self.status += ["L"] * len(vals)
            if self.strict:
                self.status = [
                    "L" if v >= self.thr else "N" for v in self.logL
                ]
            self.live_none = False
            self.phase = "T"
            return info
        if kind == "rem":
            n = 0
            for u, s in enumerate(self.status):
                if s == "L" and (self.replace_all or self.logL[u] < self.thr):
                    self.status[u] = "N"
                    n += 1
            if self.replace_all:
                self.live_none = True
            if self.armed:
                self.nontrivial = True
            self.phase = "A"
            return n
        if kind == "pkl":
            return None
        if kind == "fin":
            self.status = ["N"] * len(self.status)
            self.live_none = True
            self.finalised = True
            self.phase = "F"
            return None
        raise ValueError(kind)


# ------------------------------------------------------------ real store side
def _nessai_site(exc):
    site = "?"
    for fr in traceback.extract_tb(exc.__traceback__):
        if "nessai" in fr.filename.replace("\\", "/").split("/"):
            site = fr.name
    return site


def _clone_store(s):
    from nessai.evidence import _INSIntegralState
    from nessai.samplers.importancesampler import OrderedSamples

    c = object.__new__(OrderedSamples)
    c.__dict__.update(s.__dict__)
    for k in ("samples", "log_q", "live_points_indices",
              "nested_samples_indices"):
        v = getattr(s, k)
        if isinstance(v, np.ndarray):
            setattr(c, k, v.copy())
    c.state = _INSIntegralState()
    return c


class Harness:
    """Real OrderedSamples + reference model, advanced in lock step."""

    def __init__(self, strict, replace_all, space="replay", foreign=False,
                 cycle=False):
        from nessai.samplers.importancesampler import OrderedSamples

        self.store = OrderedSamples(
            strict_threshold=strict, replace_all=replace_all
        )
        self.model = Model(strict, replace_all)
        self.ops = []
        self.meta = dict(
            strict=bool(strict), replace_all=bool(replace_all), space=space,
            foreign=bool(foreign), cycle=bool(cycle),
        )

    def clone(self):
        h = Harness.__new__(Harness)
        h.store = _clone_store(self.store)
        h.model = self.model.copy()
        h.ops = list(self.ops)
        h.meta = self.meta
        return h

    def case(self):
        return dict(self.meta, ops=[list(o) for o in self.ops])

    def _call(self, name, fn, *a):
        try:
            return fn(*a)
        except Exception as e:  # raised by nessai on accepted input
            raise Violation(
                f"{name}:exception:{type(e).__name__}@{_nessai_site(e)}",
                f"{type(e).__name__}: {e}",
                self.case(),
            )

    def apply(self, op):
        """Execute op on the store and the model, then check. Returns the
        list of class labels of this step."""
        kind = op[0]
        m, s = self.model, self.store
        self.ops.append(op)
        labels = [kind]
        situation = ""
        if kind == "init":
            vals = [_f(v) for v in op[1]]
            n = len(vals)
            uids = np.arange(n)
            # (enumerated batches arrive in descending order, so the store
            # has to sort them itself)
            rows = rows_for(uids, vals, -1, 1)
            lq = log_q_for(uids, 1)
            m.apply(["init", vals])
            self._call("init", s.add_initial_samples, rows, lq)
        elif kind == "thr":
            v = _f(op[1])
            m.apply(["thr", v])
            self._call("thr", s.update_log_likelihood_threshold, v)
        elif kind == "add":
            vals = [_f(v) for v in op[1]]
            n0 = len(m.logL)
            info = m.apply(["add", vals])
            labels += info
            # what add_and_update_points does to the store before adding:
            # one more log_q column, logW (and logQ) of all rows rewritten
            try:
                old_uid = s.samples["uid"]
                s.log_q = np.concatenate(
                    [s.log_q, (old_uid * 64.0 + (m.ncol - 1))[:, None]],
                    axis=1,
                )
                s.samples["logW"] = old_uid * 0.5 - (m.ncol - 1)
            except Exception as e:  # store already corrupt
                raise Violation(
                    "add:store-unusable-before-add",
                    f"{type(e).__name__}: {e}", self.case(),
                )
            uids = np.arange(n0, n0 + len(vals))
            rows = rows_for(uids, vals, m.n_add - 1, m.ncol)
            lq = log_q_for(uids, m.ncol)
            if m.strict and not any(v >= m.thr for v in m.logL):
                situation = "@threshold-above-all-samples"
            self._call("add", s.add_samples, rows, lq)
        elif kind == "rem":
            live_before = m.live_values()
            if (not m.replace_all) and live_before[-1] < m.thr:
                situation = "@threshold-above-all-live"
            expect = m.apply(["rem"])
            got = self._call("rem", s.remove_samples)
            if expect == 0:
                labels.append("rem:zero")
            elif expect == len(live_before):
                labels.append("rem:all-live")
            else:
                labels.append("rem:some")
            if not isinstance(got, (int, np.integer)) or int(got) != expect:
                raise Violation(
                    "rem:returned-count" + situation,
                    f"remove_samples() returned {got!r}, model removed "
                    f"{expect} (live logL before: {live_before[:12]}..., "
                    f"threshold {m.thr!r})",
                    self.case(),
                )
        elif kind == "fin":
            m.apply(["fin"])
            self._call("fin", s.finalise)
        elif kind == "pkl":
            # what a checkpoint followed by a resume does to the store: a
            # pickle round trip; without a saved density table the sampler
            # recomputes it for the stored samples, in their stored order
            import pickle

            keep = bool(op[1]) if len(op) > 1 else False
            m.apply(["pkl"])
            s.save_log_q = keep
            s2 = self._call("pkl", lambda: pickle.loads(pickle.dumps(s)))
            if not keep or getattr(s2, "log_q", None) is None:
                try:
                    uid2 = s2.samples["uid"].astype(int)
                    s2.log_q = log_q_for(uid2, m.ncol)
                except Exception as e:
                    raise Violation(
                        "pkl:store-unusable-after-restore",
                        f"{type(e).__name__}: {e}", self.case())
            self.store = s = s2
            labels.append("pkl:keep-table" if keep else "pkl:rederive-table")
        else:
            raise HarnessError(f"unknown op {op!r}")
        if situation:
            labels.append("situation:" + situation[1:])
        self.check(kind, situation)
        return labels

    # -- the invariants, after every call
    def check(self, after, situation=""):
        m, s = self.model, self.store
        N = len(m.logL)

        def bad(clause, msg, sit=""):
            raise Violation(f"{after}:{clause}{sit}", msg, self.case())

        smp = s.samples
        if (not isinstance(smp, np.ndarray) or smp.dtype != DTYPE
                or smp.shape != (N,)):
            bad("samples-shape",
                f"expected ({N},) {DTYPE}, got "
                f"{getattr(smp, 'shape', None)} {getattr(smp, 'dtype', None)}")
        lq = s.log_q
        if not isinstance(lq, np.ndarray) or lq.shape != (N, m.ncol):
            bad("log_q-shape",
                f"expected {(N, m.ncol)}, got {getattr(lq, 'shape', None)}")
        logL = smp["logL"]
        if N > 1 and not bool(np.all(logL[:-1] <= logL[1:])):
            i = int(np.argmin(logL[:-1] <= logL[1:]))
            bad("unsorted", f"logL[{i}]={logL[i]!r} > logL[{i+1}]="
                f"{logL[i+1]!r}")
        uid = smp["uid"]
        if not np.array_equal(np.sort(uid), np.arange(N, dtype=float)):
            bad("ids-lost-or-duplicated",
                f"stored ids {np.sort(uid)[:20]}... != 0..{N-1}")
        iu = uid.astype(int)
        exp = rows_for(
            iu, np.asarray(m.logL, dtype=float)[iu],
            np.asarray(m.it)[iu], m.ncol,
        )
        if not np.array_equal(smp, exp):
            j = int(np.argmin(smp == exp))
            bad("record-modified",
                f"row {j}: stored {smp[j]!r}, added as {exp[j]!r}")
        if not np.array_equal(lq, log_q_for(iu, m.ncol)):
            j = int(np.argmin((lq == log_q_for(iu, m.ncol)).all(axis=1)))
            bad("log_q-detached",
                f"row {j} holds uid {iu[j]} but log_q row {lq[j][:4]!r}")
        # index sets
        li, ni = s.live_points_indices, s.nested_samples_indices
        if li is None:
            li = np.empty(0, dtype=int)
        for name, ix in (("live", li), ("nested", ni)):
            if (not isinstance(ix, np.ndarray) or ix.ndim != 1
                    or ix.dtype.kind not in "iu"):
                bad(f"{name}-indices-type", f"{ix!r}"[:200])
            if ix.size and (ix.min() < 0 or ix.max() >= N):
                bad(f"{name}-indices-range", f"{ix[:20]!r} N={N}", situation)
            if ix.size > 1 and not bool(np.all(ix[1:] > ix[:-1])):
                bad(f"{name}-indices-not-strictly-increasing",
                    f"{ix[:20]!r}", situation)
        both = np.sort(np.concatenate([li, ni]))
        if not np.array_equal(both, np.arange(N)):
            bad("partition",
                f"live {li[:20]!r} + nested {ni[:20]!r} is not a partition "
                f"of range({N})", situation)
        live_model = np.asarray(m.live_uids(), dtype=int)
        if not np.array_equal(np.sort(iu[li]), live_model):
            bad("live-set",
                f"live ids {np.sort(iu[li])[:20]!r} != model "
                f"{live_model[:20]!r} (threshold {m.thr!r})", situation)
        # strict clause, stated directly on the store
        if (m.strict and m.thr is not None and after in ("add", "rem")
                and not (m.replace_all and after == "rem")):
            mask = np.zeros(N, dtype=bool)
            mask[li] = True
            if not np.array_equal(mask, logL >= m.thr):
                bad("strict-live!={logL>=threshold}",
                    f"threshold {m.thr!r}", situation)
        # public views
        if after != "thr":
            lp = s.live_points
            if m.live_none:
                if lp is not None and len(lp):
                    bad("live_points-view", "expected no live points")
            elif lp is None or not np.array_equal(lp, smp[li]):
                bad("live_points-view", "live_points != samples[live idx]")
            nsv = s.nested_samples
            if not np.array_equal(nsv, smp[ni]):
                bad("nested_samples-view", "!= samples[nested idx]")
            # what a caller does with the arrays it was handed is its own
            # business: writing into them must leave the store unmodified
            before = np.asarray(s.samples).tobytes()
            for arr in (lp, nsv):
                if arr is None or not len(arr):
                    continue
                for name in arr.dtype.names:
                    try:
                        arr[name][...] = 7
                    except ValueError:  # read-only: cannot alias harmfully
                        pass
            if np.asarray(s.samples).tobytes() != before:
                bad("handed-out-array-aliases-store",
                    "writing into the arrays returned by live_points / "
                    "nested_samples modified the stored samples")


def run_ops(case, validate=True):
    """Plain predicate: execute a recorded operation list. Raises Violation."""
    _reset_globals()
    h = Harness(case["strict"], case["replace_all"],
                space=case.get("space", "replay"),
                foreign=case.get("foreign", False),
                cycle=case.get("cycle", False))
    for op in case["ops"]:
        op = list(op)
        if validate:
            _validate(h.model, op, h.meta)
        h.apply(op)
    return h


def _validate(model, op, meta):
    kind = op[0]
    if not model.allowed(kind, meta["cycle"]):
        raise HarnessError(f"operation {op!r} is not protocol-valid here")
    if kind in ("init", "add"):
        vals = [_f(v) for v in op[1]]
        if not vals or any(math.isnan(v) or v == math.inf for v in vals):
            raise HarnessError(f"invalid batch {op!r}")
    if kind == "thr":
        v = _f(op[1])
        if meta["foreign"]:
            if math.isnan(v) or (model.strict and model.thr is not None
                                 and v < model.thr):
                raise HarnessError(f"invalid foreign threshold {op!r}")
        elif v not in model.live_values():
            raise HarnessError(f"threshold {v!r} is not a live likelihood")


# ------------------------------------------------------------ enumeration
def batches_upto(b):
    out = []
    for k in range(1, b + 1):
        for c in itertools.combinations_with_replacement(ALPHABET, k):
            out.append(tuple(reversed(c)))  # descending: must be sorted
    return out


def space_cfg(name, bmax):
    return dict(
        name=name,
        cycle=name.startswith("cycle"),
        foreign=name.endswith("foreign"),
        batches=batches_upto(bmax),
    )


def tier_spaces(quick):
    """(space name, batch bound, depth bound)."""
    if quick:
        # free-own/b2/d5 contains the depth-4 space of DESIGN section 4
        return [("free-own", 2, 5), ("cycle-own", 2, 11),
                ("cycle-foreign", 2, 8)]
    return [("free-own", 3, 5), ("free-own", 2, 6), ("cycle-own", 3, 8),
            ("cycle-own", 2, 11), ("cycle-foreign", 3, 8),
            ("cycle-foreign", 2, 11)]


def count_nodes(model, depth_left, cfg, memo):
    """Number of non-empty valid sequences of length <= depth_left from this
    state: memoised over abstract states (independent of the DFS)."""
    if depth_left == 0:
        return 0
    k = (model.key(), depth_left)
    if k in memo:
        return memo[k]
    tot = 0
    for op in model.moves(cfg):
        m2 = model.copy()
        m2.apply(op)
        tot += 1 + count_nodes(m2, depth_left - 1, cfg, memo)
    memo[k] = tot
    return tot


def plan_units(quick):
    """Work units = (space, bmax, depth, strict, replace_all, 2-op prefix),
    with the expected subtree size of each."""
    units = []
    expected = collections.Counter()
    for name, bmax, depth in tier_spaces(quick):
        cfg = space_cfg(name, bmax)
        sid = f"{name}/b{bmax}/d{depth}"
        for strict, rall in MODES:
            memo = {}
            root = Model(strict, rall)
            expected[sid] += count_nodes(root, depth, cfg, memo)
            for op1 in root.moves(cfg):
                m1 = root.copy()
                m1.apply(op1)
                first = True
                seconds = m1.moves(cfg) if depth > 1 else []
                if not seconds:
                    units.append(dict(
                        space=name, bmax=bmax, depth=depth, strict=strict,
                        replace_all=rall, prefix=[op1], own1=True, cost=1))
                for op2 in seconds:
                    m2 = m1.copy()
                    m2.apply(op2)
                    cost = 1 + count_nodes(m2, depth - 2, cfg, memo)
                    units.append(dict(
                        space=name, bmax=bmax, depth=depth, strict=strict,
                        replace_all=rall, prefix=[op1, op2], own1=first,
                        cost=cost + (1 if first else 0)))
                    first = False
    return units, dict(expected)


def assign(units, nshards):
    """Longest-processing-time-first assignment (deterministic)."""
    order = sorted(range(len(units)), key=lambda i: (-units[i]["cost"], i))
    loads = [0] * nshards
    bins = [[] for _ in range(nshards)]
    for i in order:
        j = loads.index(min(loads))
        bins[j].append(units[i])
        loads[j] += units[i]["cost"]
    return bins


def _case_size(case):
    case = case or {}
    ops = case.get("ops") or []
    return (len(ops),
            sum(len(o[1]) for o in ops if o[0] in ("init", "add")),
            case.get("space") == "machine", jdump(case))


class _Acc:
    def __init__(self, ctx, out):
        self.ctx = ctx
        self.out = out
        self.classes = collections.Counter()
        self.nodes = collections.Counter()     # per space id
        self.pruned = collections.Counter()
        self.nontrivial = 0
        self.best = {}

    def violation(self, v, sid):
        self.pruned[sid] += 1
        if self.ctx.known(v.key):
            self.out.stats.excluded_known[v.key] += 1
            # still report once so that KNOWN-FINDING is printed
        size = _case_size(v.case)
        if v.key not in self.best or size < self.best[v.key][0]:
            self.best[v.key] = (size, v)

    def flush(self):
        """One violation per key: the smallest case seen by this shard."""
        for k in sorted(self.best):
            self.out.add(self.best[k][1])

    def node(self, h, labels, sid):
        self.nodes[sid] += 1
        self.classes.update(labels)
        if h.model.nontrivial:
            self.nontrivial += 1
            st_ = self.out.stats
            if len(st_.nontrivial) < NT_HASH_CAP:
                st_.nontrivial.add(jhash(h.case()))
                if len(st_.samples) < st_.MAX_SAMPLES:
                    st_.samples.append(h.case())


def _dfs(h, depth_left, cfg, acc, sid):
    if depth_left == 0:
        return
    for op in h.model.moves(cfg):
        c = h.clone()
        try:
            labels = c.apply(op)
        except Violation as v:
            acc.violation(v, sid)
            continue
        acc.node(c, labels, sid)
        if op[0] in ("add", "rem"):
            # probe (not a branch of the enumeration): the store as it is
            # now survives a checkpoint / resume
            p = c.clone()
            try:
                p.apply(["pkl", False])
                acc.classes["pkl-probe"] += 1
            except Violation as v:
                acc.violation(v, sid)
        _dfs(c, depth_left - 1, cfg, acc, sid)


def run_unit(u, acc):
    cfg = space_cfg(u["space"], u["bmax"])
    sid = f"{u['space']}/b{u['bmax']}/d{u['depth']}"
    _reset_globals()
    h = Harness(u["strict"], u["replace_all"], space=sid,
                foreign=cfg["foreign"], cycle=cfg["cycle"])
    mode = f"mode:strict={int(u['strict'])},replace_all={int(u['replace_all'])}"
    for i, op in enumerate(u["prefix"]):
        try:
            labels = h.apply(list(op))
        except Violation as v:
            if i == len(u["prefix"]) - 1 or u["own1"]:
                acc.violation(v, sid)
            return
        if i == len(u["prefix"]) - 1 or u["own1"]:
            acc.node(h, labels, sid)
    n0 = acc.nodes[sid]
    _dfs(h, u["depth"] - len(u["prefix"]), cfg, acc, sid)
    acc.classes[mode] += acc.nodes[sid] - n0 + 1
    acc.classes["space:" + u["space"]] += acc.nodes[sid] - n0 + 1


# ------------------------------------------------------------ part 0
def check_inverse_indices(n, subset):
    from nessai.utils.structures import get_inverse_indices

    case = {"kind": "inverse", "n": n, "indices": list(subset)}
    idx = np.array(subset, dtype=int)
    try:
        inv = get_inverse_indices(n, idx)
    except Exception as e:
        raise Violation(
            f"inverse:exception:{type(e).__name__}@{_nessai_site(e)}",
            f"{type(e).__name__}: {e}", case)
    want = [i for i in range(n) if i not in set(subset)]
    if not (isinstance(inv, np.ndarray) and inv.dtype.kind in "iu"
            and inv.tolist() == want):
        raise Violation("inverse:not-the-sorted-complement",
                        f"got {inv!r}, want {want}", case)


def check_subset_arrays(case):
    from nessai.utils.structures import get_subset_arrays

    n = case["n"]
    idx = np.array(case["indices"], dtype=int)
    a = np.arange(n, dtype=float)
    b = log_q_for(np.arange(n), 3)
    c = rows_for(np.arange(n), 0.0, 0, 1)
    try:
        ra, rb, rc = get_subset_arrays(idx, a, b, c)
    except Exception as e:
        raise Violation(
            f"subset:exception:{type(e).__name__}@{_nessai_site(e)}",
            f"{type(e).__name__}: {e}", case)
    if not (np.array_equal(ra, idx.astype(float))
            and np.array_equal(rb, log_q_for(idx, 3))
            and np.array_equal(rc["uid"], idx.astype(float))):
        raise Violation("subset:misaligned", "arrays not indexed alike", case)


def part0(acc_out, ctx):
    stats = acc_out.stats
    for n in range(1, 10):
        for k in range(1, n + 1):
            for sub in itertools.combinations(range(n), k):
                stats.evaluations += 1
                stats.classes["inverse-indices"] += 1
                try:
                    check_inverse_indices(n, sub)
                    check_subset_arrays(
                        {"kind": "subset", "n": n, "indices": list(sub)})
                except Violation as v:
                    if ctx.known(v.key):
                        stats.excluded_known[v.key] += 1
                    acc_out.add(v)
                    return


# ------------------------------------------------------------ state machine
def _value():
    return st.one_of(
        st.integers(-3, 3).map(float),
        st.floats(-10, 10, allow_nan=False),
        st.floats(-1e6, 1e6, allow_nan=False),
    )


def _elem():
    p = st.tuples(st.just("p"), st.integers(0, 7))
    return st.one_of(
        p, p, p,
        st.tuples(st.just("v"), _value()),
        st.tuples(st.just("v"), _value()),
        st.tuples(st.just("dup"), st.integers(0, 1 << 16)),
        st.tuples(st.just("dup"), st.integers(0, 1 << 16)),
        st.tuples(st.just("thr"), st.sampled_from([-1.0, 0.0, 0.0, 1.0])),
        st.tuples(st.just("thr"), st.sampled_from([-1.0, 0.0, 0.0, 1.0])),
        st.tuples(st.just("lo"), st.just(0)),
    )


def _batch():
    """(block of symbolic elements, batch size, -inf selector): about one
    batch in 16 contains a zero-likelihood (-inf) sample."""
    size = st.one_of(
        st.integers(1, 4), st.integers(1, 4), st.integers(5, 40),
        st.integers(100, 200),
    )
    return st.tuples(st.lists(_elem(), min_size=1, max_size=12), size,
                     st.integers(0, 15))


def make_machine(stats, ctx, allow_foreign):
    from hypothesis.stateful import (
        RuleBasedStateMachine, initialize, precondition, rule,
    )

    class StoreMachine(RuleBasedStateMachine):
        def __init__(self):
            super().__init__()
            self.h = None
            self.dead = False
            self.pool = [0.0]
            self.labels = collections.Counter()

        # helpers
        def _resolve_elem(self, e):
            m = self.h.model if self.h is not None else None
            tag, arg = e
            if tag == "p":
                return self.pool[arg % len(self.pool)]
            if tag == "v":
                return arg
            if tag == "dup":
                if m is None or not m.logL:
                    return self.pool[0]
                return m.logL[arg % len(m.logL)]
            if tag == "thr":
                if m is None or m.thr is None or not math.isfinite(m.thr):
                    return self.pool[0]
                return m.thr + arg
            if tag == "lo":
                if m is None or not m.logL:
                    return self.pool[0] - 1.0
                lo = min(m.logL)
                return lo - 1.0 if math.isfinite(lo) else -math.inf
            raise HarnessError(e)

        def _resolve_batch(self, spec):
            block, n, ninf = spec
            vals = [self._resolve_elem(e) for e in block]
            if n > len(vals):
                # large batches tile the drawn block (deterministic mixing)
                vals = [vals[(i * 7 + i // len(vals)) % len(vals)]
                        for i in range(n)]
            vals = vals[:n]
            if ninf == 7:  # (not 0: shrinking must not introduce -inf)
                vals[len(vals) // 2] = -math.inf
            return vals

        def _do(self, op):
            try:
                labels = self.h.apply(op)
            except Violation as v:
                if ctx.known(v.key):
                    stats.excluded_known[v.key] += 1
                    self.dead = True
                    return
                raise
            self.labels.update(labels)
            if op[0] in ("init", "add"):
                if len(op[1]) >= 100:
                    self.labels["batch>=100"] += 1
                if any(v == -math.inf for v in op[1]):
                    self.labels["batch-has--inf"] += 1

        def _ok(self, kind):
            return (self.h is not None and not self.dead
                    and self.h.model.allowed(kind, self.h.meta["cycle"]))

        @initialize(
            strict=st.booleans(), replace_all=st.booleans(),
            foreign=st.booleans() if allow_foreign else st.just(False),
            pool=st.lists(_value(), min_size=1, max_size=8),
            batch=_batch(),
        )
        def start(self, strict, replace_all, foreign, pool, batch):
            _reset_globals()
            self.pool = pool
            # foreign thresholds are only justified for the caller's shape
            self.h = Harness(strict, replace_all, space="machine",
                             foreign=foreign, cycle=foreign)
            self._do(["init", self._resolve_batch(batch)])

        @precondition(lambda self: self._ok("thr") and (
            self.h.meta["foreign"] or self.h.model.live_values()))
        @rule(k=st.integers(0, 1 << 16), e=_elem())
        def set_threshold(self, k, e):
            m = self.h.model
            if self.h.meta["foreign"]:
                v = self._resolve_elem(e)
                if m.strict and m.thr is not None:
                    v = max(v, m.thr)
            else:
                live = m.live_values()
                v = live[k % len(live)]
            self._do(["thr", v])

        @precondition(lambda self: self._ok("add"))
        @rule(batch=_batch())
        def add(self, batch):
            self._do(["add", self._resolve_batch(batch)])

        @precondition(lambda self: self._ok("rem"))
        @rule()
        def remove(self):
            self._do(["rem"])

        @precondition(lambda self: self.h is not None and not self.dead
                      and self.h.model.phase != "I")
        @rule(keep=st.booleans(), go=st.integers(0, 3))
        def checkpoint_resume(self, keep, go):
            if go == 0:
                self._do(["pkl", keep])

        @precondition(lambda self: self._ok("fin"))
        @rule(go=st.integers(0, 11))
        def finalise(self, go):
            # finalise ends a history: taken rarely before 40 operations
            if go == 0 or len(self.h.ops) >= 40:
                self._do(["fin"])

        def _stuck(self):
            # dead (recorded finding), finalised, or a protocol dead end
            # (strict + replace_all: remove before any threshold)
            if self.h is None:
                return False
            if self._ok("thr") and (self.h.meta["foreign"]
                                    or self.h.model.live_values()):
                return False
            return not any(self._ok(k) for k in ("add", "rem", "fin"))

        @precondition(lambda self: self._stuck())
        @rule()
        def idle(self):
            pass

        def teardown(self):
            if self.h is None:
                return
            m = self.h.model
            cl = [
                "machine",
                f"machine:strict={int(m.strict)},"
                f"replace_all={int(m.replace_all)}",
            ]
            if self.h.meta["foreign"]:
                cl.append("machine:foreign-threshold")
            nops = len(self.h.ops)
            if nops >= 20:
                cl.append("machine:ops>=20")
            for k in ("batch>=100", "batch-has--inf", "add:ties-stored-value",
                      "add:below-lowest-nested", "add:below-threshold",
                      "add:equal-threshold", "add:after-replace-all",
                      "rem:zero", "rem:some", "rem:all-live", "fin",
                      "pkl:keep-table", "pkl:rederive-table"):
                if self.labels.get(k):
                    cl.append("machine:" + k)
            if m.finalised:
                cl.append("machine:finalised")
            desc = dict(self.h.meta, n_ops=nops, n_samples=len(m.logL),
                        ops_head=[_brief(o) for o in self.h.ops[:8]])
            stats.case(desc, nontrivial=m.nontrivial, classes=cl,
                       key=jhash(self.h.case()))
            stats.extra["machine_steps"] = (
                stats.extra.get("machine_steps", 0) + nops)

    return StoreMachine


def _brief(op):
    if op[0] in ("init", "add"):
        return [op[0], len(op[1]), op[1][:4]]
    return op


# ------------------------------------------------------------ shard / run
def shard(seed, units, n_machines, tier="quick", do_part0=False):
    logging.getLogger("nessai").setLevel(logging.CRITICAL)
    from ..core import Ctx

    ctx = Ctx("C04", tier, seed)
    out = Outcome()
    stats = out.stats
    if do_part0:
        part0(out, ctx)
    acc = _Acc(ctx, out)
    with np.errstate(all="ignore"):
        for u in units:
            run_unit(u, acc)
        acc.flush()
        total = sum(acc.nodes.values())
        stats.evaluations += total
        stats.classes.update(acc.classes)
        stats.classes["nontrivial"] += acc.nontrivial
        stats.extra["enum_nodes"] = dict(acc.nodes)
        stats.extra["enum_pruned"] = dict(acc.pruned)
        stats.extra["enum_nontrivial_sequences"] = acc.nontrivial
        if n_machines:
            for allow_foreign, n, sd in (
                (False, n_machines - n_machines // 3, seed),
                (True, n_machines // 3, seed + 500),
            ):
                if n <= 0:
                    continue
                for v in run_machine(
                    make_machine(stats, ctx, allow_foreign), sd, n, 60
                ):
                    out.add(v)
    return out


def run(ctx):
    nsh = 16
    units, expected = plan_units(ctx.quick)
    bins = assign(units, nsh)
    n_mach = 200 if ctx.quick else 5000
    per = [n_mach // nsh + (1 if i < n_mach % nsh else 0) for i in range(nsh)]
    kws = [
        dict(seed=ctx.seed * 1000 + i, units=bins[i], n_machines=per[i],
             tier=ctx.tier, do_part0=(i == 0))
        for i in range(nsh)
    ]
    out = run_shards("vf.checks.c04", "shard", kws)
    # one violation per key: the shortest operation list
    best = {}
    for v in out.violations:
        size = _case_size(v.get("case"))
        if v["key"] not in best or size < best[v["key"]][0]:
            best[v["key"]] = (size, v)
    out.violations = [best[k][1] for k in sorted(best)]
    ex = out.stats.extra
    nodes = ex.get("enum_nodes", {})
    pruned = ex.get("enum_pruned", {})
    spaces = {}
    for sid, want in expected.items():
        got = int(nodes.get(sid, 0))
        p = int(pruned.get(sid, 0))
        spaces[sid] = dict(expected_sequences=want, visited=got,
                           pruned_subtrees=p,
                           complete=(got == want and p == 0))
        if p == 0 and got != want:
            raise HarnessError(
                f"enumeration bookkeeping: space {sid} visited {got} "
                f"sequences, independent count says {want}")
    ex["enum_spaces"] = spaces
    ex["exhaustive"] = all(
        v["complete"] for k, v in spaces.items() if "-own/" in k
    )
    return out


def health(ctx, stats):
    c = stats.classes
    need = {
        "init": 50, "thr": 50, "add": 50, "rem": 50, "fin": 50,
        "add:ties-stored-value": 50, "add:below-lowest-nested": 50,
        "add:ties-within-batch": 50, "add:below-threshold": 50,
        "add:equal-threshold": 50, "add:above-threshold": 50,
        "add:after-replace-all": 50, "rem:zero": 50, "rem:some": 50,
        "rem:all-live": 50, "space:free-own": 1000, "space:cycle-own": 1000,
        "space:cycle-foreign": 1000, "inverse-indices": 1000,
        "nontrivial": 100,
        "machine": 100, "machine:ops>=20": 20, "machine:batch>=100": 20,
        "machine:batch-has--inf": 10, "machine:foreign-threshold": 10,
        "machine:add:ties-stored-value": 20,
        "machine:add:below-lowest-nested": 10, "machine:rem:some": 20,
        "machine:finalised": 10,
    }
    for s, r in MODES:
        need[f"mode:strict={int(s)},replace_all={int(r)}"] = 1000
        need[f"machine:strict={int(s)},replace_all={int(r)}"] = 10
    probs = [
        f"class {k} has only {c.get(k, 0)} cases (< {n})"
        for k, n in need.items() if c.get(k, 0) < n
    ]
    # a finding recorded as known may make foreign-threshold machines stop
    # early; everything else must be present
    return probs


def replay(ctx, case):
    logging.getLogger("nessai").setLevel(logging.CRITICAL)
    try:
        with np.errstate(all="ignore"):
            kind = case.get("kind", "ops")
            if kind == "inverse":
                check_inverse_indices(case["n"], tuple(case["indices"]))
            elif kind == "subset":
                check_subset_arrays(case)
            else:
                run_ops(case)
    except Violation as v:
        return [v]
    return []
