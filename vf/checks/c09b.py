"""Temporary driver of the distribution part of C09 (vf.c09_dist)."""
from .. import c09_dist

LEVEL = "exploration"
RULE = c09_dist.RULE_B
ASSUMPTIONS = c09_dist.ASSUMPTIONS_B


def run(ctx):
    import os

    extra = os.environ.get("C09B_KNOWN")
    if extra:
        for k in extra.split(","):
            ctx.findings.known.append((ctx.prop, k, "(test) listed finding"))
    return c09_dist.run_cells(ctx)


def health(ctx, stats):
    return c09_dist.health_cells(ctx, stats)


def replay(ctx, case):
    return c09_dist.replay_cell(ctx, case)
