"""C18 - live-point conversions preserve names, order, values and defaults.

Generator : a Hypothesis rule-based state machine whose state is nessai's
            global extra-field registry (`nessai.config.livepoints`): rules
            add extra fields (with / without defaults, duplicates included),
            reset the registry, and run conversions on generated data
            (1..20 distinct identifier names - ASCII and non-ASCII - that do
            not collide with the currently registered non-sampling names;
            0 / 1 / n points; floats including NaN, +-inf, subnormals, the
            largest double, -0.0; integers up to 2^53; with and without
            non-sampling fields).  Every machine run is a list of JSON steps
            that `replay` re-executes through the same interpreter.
Oracle    : a model registry (ordered names + defaults) kept by the harness.
            Every array built by nessai must have exactly the fields
            names + [logP, logL, it] + extras (in that order, f8 / f8 / i4 /
            f8), the generated values under the right names in the right
            order, and the defaults NaN, NaN, 0, registered defaults; round
            trips (array -> live points -> array, dict -> live points -> dict
            -> live points, data frame -> live points, single point)
            reproduce the input; arrays built earlier are bit-for-bit
            unchanged by later add/reset; `Model.unstructured_view` /
            `unstructured_view` share memory with the structured array, have
            shape (n, dims), and a write through the view lands in exactly
            one field of one row.
"""
import logging
import math

import numpy as np
from hypothesis import strategies as st
from hypothesis.stateful import (
    Bundle,
    RuleBasedStateMachine,
    initialize,
    rule,
)

from ..core import Ctx, HarnessError, Outcome, Violation, jhash
from ..hyp import run_machine
from ..par import run_shards

LEVEL = "exploration"
RULE = (
    "Rule-based state machine over the global extra-field registry: steps "
    "add(names, defaults|None), reset, conv(via in array/array-1d/dict "
    "(scalar, numpy scalar, list, tuple, array values)/data frame/"
    "parameters_to_live_point/empty_structured_array/get_dtype; names 1..20; "
    "n in {0,1,2..}; with/without non-sampling fields), view (Model."
    "unstructured_view and the module-level function on whole arrays, "
    "contiguous slices and single rows, with a write through the view). One "
    "evaluation = one step with all its oracle clauses plus the "
    "'earlier arrays unchanged' invariant. Non-trivial: a conversion or view "
    "on >= 1 point with >= 2 names or >= 1 registered extra field; distinct "
    "by hash of (registry state, step)."
)
ASSUMPTIONS = [
    "parameter names are distinct str.isidentifier() strings that are not "
    "currently registered as non-sampling names (nessai builds the dtype by "
    "concatenation, a collision is a caller error)",
    "extra-field names are identifiers different from logP, logL, it; "
    "defaults are finite or NaN/inf floats or small ints, one per name "
    "(the documented call shape)",
    "dictionary values are Python / NumPy scalars (one point) or list / "
    "tuple / 1-d array of equal length (0, 1 or n points); 0-d arrays are not "
    "generated (len() of them is undefined, not covered by the docstring)",
    "value equality is exact and NaN-aware on float64 (0.0 == -0.0); "
    "integers are within +-2^53 so the conversion to f8 is exact",
    "views are requested for C-contiguous inputs (whole arrays, a:b slices, "
    "single rows) - what nessai's own callers pass; a strided slice is "
    "generated too but a ValueError there is counted as rejected input",
]
CORE = ["logP", "logL", "it"]
SOFT_F4 = "dict_to_live_points:length-1-sequences"
SOFT_TUPLE = "numpy_array_to_live_points:names-as-tuple"
SOFT = (SOFT_F4, SOFT_TUPLE)
ANTICIPATED = [
    {"steps": [
        {"op": "conv", "via": "dict", "form": "list", "names": ["a", "b"],
         "rows": [[1.0, 2.0]], "nsp": True, "ints": False},
    ]},
    {"steps": [
        {"op": "conv", "via": "array", "form": "2d", "names": ["a", "b"],
         "rows": [[1.0, 2.0]], "nsp": True, "ints": False,
         "dict_roundtrip": True},
    ]},
    {"steps": [
        {"op": "conv", "via": "array", "form": "2d", "names": ["a", "b"],
         "rows": [[1.0, 2.0]], "nsp": True, "ints": False,
         "names_tuple": True, "dict_roundtrip": False},
    ]},
]

_STATS = None  # set by shard()
_POLICY = None


def _to_float(v):
    if isinstance(v, str):
        return {"-inf": -math.inf, "inf": math.inf, "nan": math.nan}[v]
    return v


def _eq(a, b):
    a = np.asarray(a, dtype=float)
    b = np.asarray(b, dtype=float)
    if a.shape != b.shape:
        return False
    return bool(np.all((a == b) | (np.isnan(a) & np.isnan(b))))


def _pristine_registry():
    """Put nessai's global registry into its import-time state without
    relying on the reset function under test."""
    from nessai import config

    fresh = type(config.livepoints)()
    vars(config.livepoints).clear()
    vars(config.livepoints).update(vars(fresh))


class Interp:
    """Executes steps against nessai and the model registry."""

    def __init__(self):
        from nessai import config

        _pristine_registry()
        config.general.eps = 1e-8
        self.extras = []  # (name, default)
        self.snapshots = []  # (array, bytes, dtype)
        self.models = {}
        self.steps = []
        self.case = {"steps": self.steps}

    def close(self):
        _pristine_registry()

    # -- model registry
    @property
    def extra_names(self):
        return [n for n, _ in self.extras]

    def nonsampling(self):
        names = CORE + self.extra_names
        dts = ["<f8", "<f8", "<i4"] + ["<f8"] * len(self.extras)
        defaults = [math.nan, math.nan, 0] + [d for _, d in self.extras]
        return names, dts, defaults

    def expected_descr(self, names, nsp):
        descr = [(n, "<f8") for n in names]
        if nsp:
            ns, dts, _ = self.nonsampling()
            descr += list(zip(ns, dts))
        return descr

    # -- oracle for a freshly built array
    def expect(self, arr, names, rows, nsp, what, n=None):
        n = len(rows) if n is None else n
        if not isinstance(arr, np.ndarray):
            raise Violation(f"{what}:not-an-array", f"{type(arr)}", self.case)
        if arr.shape != (n,):
            raise Violation(f"{what}:shape",
                            f"{arr.shape}, expected ({n},)", self.case)
        descr = self.expected_descr(names, nsp)
        got = [(k, arr.dtype[k].str) for k in arr.dtype.names]
        if got != descr:
            raise Violation(
                f"{what}:fields",
                f"fields {got}, expected {descr}", self.case)
        for k, name in enumerate(names):
            want = [r[k] for r in rows] if rows is not None else [
                math.nan] * n
            if not _eq(arr[name], want):
                raise Violation(
                    f"{what}:values",
                    f"field {name!r} (column {k}): {arr[name].tolist()!r} "
                    f"expected {want!r}", self.case)
        if nsp:
            ns, _, defaults = self.nonsampling()
            for name, dv in zip(ns, defaults):
                if not _eq(arr[name], [dv] * n):
                    raise Violation(
                        f"{what}:defaults",
                        f"field {name!r}: {arr[name].tolist()!r} expected "
                        f"default {dv!r}", self.case)

    def snapshot(self, arr):
        if len(self.snapshots) < 12:
            self.snapshots.append((arr, arr.tobytes(), arr.dtype))

    def check_snapshots(self):
        for arr, b, dt in self.snapshots:
            if arr.dtype != dt or arr.tobytes() != b:
                raise Violation(
                    "registry-change-altered-existing-array",
                    f"array with dtype {dt} changed after {self.steps[-1]}",
                    self.case)

    def probe_registry(self):
        """Newly built arrays reflect the registry (black box)."""
        from nessai.livepoint import empty_structured_array, get_dtype

        names = self._names({"names": ["p_", "q_"]})
        arr = self._call(lambda: empty_structured_array(2, names=names),
                         "empty_structured_array")
        self.expect(arr, names, None, True, "after-registry-change", n=2)
        dt = self._call(lambda: get_dtype(names), "get_dtype")
        if dt != np.dtype(self.expected_descr(names, True)):
            raise Violation("get_dtype:after-registry-change", f"{dt}",
                            self.case)
        arr2 = self._call(
            lambda: empty_structured_array(1, names=names,
                                           non_sampling_parameters=False),
            "empty_structured_array")
        self.expect(arr2, names, None, False, "after-registry-change:nsp0",
                    n=1)

    def _call(self, f, name, soft=None):
        try:
            with np.errstate(all="ignore"):
                return f()
        except Violation:
            raise
        except Exception as e:
            key = soft(e) if soft is not None else None
            if key:
                raise Violation(key, f"{name}: {e!r}", self.case)
            raise Violation(f"{type(e).__name__}:{name}", f"{e!r}",
                            self.case)

    # -- driver
    def apply(self, step):
        self.steps.append(step)
        before = (tuple(self.extra_names), )
        self.cl = []
        self.nt = False
        try:
            getattr(self, "op_" + step["op"].replace("-", "_"))(step)
            self.check_snapshots()
        except Violation as v:
            if _POLICY is not None and _POLICY(v):
                self.cl.append("excluded:" + v.key)
            else:
                raise
        if _STATS is not None:
            _STATS.case(
                {"registry": list(before[0]), "step": _brief(step)},
                nontrivial=bool(self.nt),
                classes=["op:" + step["op"]] + self.cl,
                key=jhash([before, step]),
            )

    def run(self, steps):
        for s in steps:
            self.apply(s)

    # -- registry operations
    def op_add(self, step):
        from nessai.livepoint import add_extra_parameters_to_live_points

        names = list(step["names"])
        defaults = step.get("defaults")
        if defaults is not None:
            defaults = [_to_float(v) for v in defaults]
            if step.get("defaults_tuple"):
                defaults = tuple(defaults)
        self._call(
            lambda: add_extra_parameters_to_live_points(names, defaults)
            if defaults is not None
            else add_extra_parameters_to_live_points(names),
            "add_extra_parameters_to_live_points")
        dvs = list(defaults) if defaults is not None else [math.nan] * len(
            names)
        dup = False
        for p, dv in zip(names, dvs):
            if p not in self.extra_names:
                self.extras.append((p, dv))
            else:
                dup = True
        self.cl.append("add:with-defaults" if defaults is not None else
                       "add:no-defaults")
        if dup:
            self.cl.append("add:duplicate-skipped")
        self.probe_registry()

    def op_reset(self, step):
        from nessai.livepoint import reset_extra_live_points_parameters

        had = bool(self.extras)
        self._call(reset_extra_live_points_parameters,
                   "reset_extra_live_points_parameters")
        self.extras = []
        self.cl.append("reset:nonempty" if had else "reset:empty")
        self.probe_registry()

    # -- conversions
    def _names(self, step):
        names = [str(n) for n in step["names"]]
        taken = set(CORE + self.extra_names)
        out = []
        for n in names:
            while n in taken:
                n = n + "_"
            taken.add(n)
            out.append(n)
        return out

    def _rows(self, step, d):
        rows = [[_to_float(v) for v in r] for r in step["rows"]]
        if any(len(r) != d for r in rows):
            raise HarnessError("row width != number of names")
        return rows

    def op_conv(self, step):
        from nessai import livepoint as lp

        names = self._names(step)
        d = len(names)
        rows = self._rows(step, d)
        n = len(rows)
        nsp = bool(step["nsp"])
        via = step["via"]
        form = step.get("form")
        dtype = np.int64 if step.get("ints") else float
        data = np.array(rows, dtype=dtype).reshape(n, d)
        cl = self.cl
        cl += [f"via:{via}", "nsp" if nsp else "no-nsp",
               "n=0" if n == 0 else ("n=1" if n == 1 else "n>1"),
               f"extras:{min(len(self.extras), 3)}"]
        self.nt = n >= 1 and (d >= 2 or len(self.extras) >= 1)
        if step.get("ints"):
            cl.append("ints")
        if any(isinstance(v, float) and not math.isfinite(v)
               for r in rows for v in r):
            cl.append("non-finite-values")
        if d == 1:
            cl.append("d=1")
        if d >= 10:
            cl.append("d>=10")
        arr = None
        if via == "array":
            if n == 0:
                arg = np.array([]) if form == "1d" else np.empty((0, d))
            elif n == 1 and form == "1d":
                arg = data[0]
            else:
                arg = data
            cl.append(f"array:{form}")
            nm = tuple(names) if step.get("names_tuple") else names
            if isinstance(nm, tuple):
                cl.append("names-as-tuple")
            arr = self._call(
                lambda: lp.numpy_array_to_live_points(
                    arg, nm, non_sampling_parameters=nsp),
                "numpy_array_to_live_points",
                soft=lambda e: SOFT_TUPLE if isinstance(nm, tuple) and n
                and isinstance(e, IndexError) else None)
            self.expect(arr, names, rows, nsp, "numpy_array_to_live_points")
            back = self._call(
                lambda: lp.live_points_to_array(
                    arr, names, copy=bool(step.get("copy"))),
                "live_points_to_array")
            if np.asarray(back).shape != (n, d) or not _eq(back, data):
                raise Violation(
                    "array-roundtrip",
                    f"live_points_to_array gives {np.asarray(back).tolist()}"
                    f" for input {data.tolist()}", self.case)
            full = self._call(lambda: lp.live_points_to_array(arr),
                              "live_points_to_array")
            extra_cols = self.nonsampling()[2] if nsp else []
            want = np.array(
                [list(r) + list(extra_cols) for r in rows], dtype=float
            ).reshape(n, d + len(extra_cols))
            if np.asarray(full).shape != want.shape or not _eq(full, want):
                raise Violation(
                    "array-roundtrip:all-fields",
                    f"{np.asarray(full).tolist()} expected {want.tolist()}",
                    self.case)
            # a subset of the fields in an order of its own: column j must
            # hold the values of the j-th requested name
            sub = step.get("sub")
            if sub and arr is not None:
                fields = list(arr.dtype.names)
                pick = []
                for i in sub:
                    nm_ = fields[i % len(fields)]
                    if nm_ not in pick:
                        pick.append(nm_)
                in_order = pick == [f for f in fields if f in pick]
                cl.append("array:subset-in-field-order" if in_order
                          else "array:subset-reordered")
                want = np.array(
                    [[float(arr[nm_][k]) for nm_ in pick] for k in range(n)],
                    dtype=float).reshape(n, len(pick))
                for cp in (False, True):
                    got = self._call(
                        lambda: lp.live_points_to_array(arr, pick, copy=cp),
                        "live_points_to_array")
                    if np.asarray(got).shape != want.shape or not _eq(
                            got, want):
                        raise Violation(
                            "array-subset:column-order",
                            f"live_points_to_array(names={pick}, copy={cp}) "
                            f"gives {np.asarray(got).tolist()} expected "
                            f"{want.tolist()} (fields {fields})", self.case)
        elif via == "dict":
            cl.append(f"dict:{form}")
            if form in ("scalar", "npscalar"):
                if n != 1:
                    raise HarnessError("scalar dict needs one row")
                conv = float if form == "scalar" else np.float64
                if step.get("ints"):
                    conv = int if form == "scalar" else np.int64
                dct = {k: conv(rows[0][i]) for i, k in enumerate(names)}
            else:
                mk = {"list": list, "tuple": tuple,
                      "array": lambda c: np.array(c, dtype=dtype)}[form]
                dct = {k: mk([r[i] for r in rows])
                       for i, k in enumerate(names)}
            length1 = form in ("list", "tuple", "array") and n == 1
            arr = self._call(
                lambda: lp.dict_to_live_points(
                    dct, non_sampling_parameters=nsp),
                "dict_to_live_points",
                soft=lambda e: SOFT_F4 if length1 and isinstance(
                    e, ValueError) else None)
            self.expect(arr, names, rows, nsp, "dict_to_live_points")
        elif via == "df":
            import pandas as pd

            cols = {}
            for i, k in enumerate(names):
                col = [r[i] for r in rows]
                if step.get("ints") and (i % 2 == 0 or form == "all-int"):
                    cols[k] = np.array(col, dtype=np.int64)
                else:
                    cols[k] = np.array(col, dtype=float)
            df = pd.DataFrame(cols)
            if list(df.columns) != names or len(df) != n:
                raise HarnessError("data frame construction failed")
            arr = self._call(
                lambda: lp.dataframe_to_live_points(
                    df, non_sampling_parameters=nsp),
                "dataframe_to_live_points")
            self.expect(arr, names, rows, nsp, "dataframe_to_live_points")
        elif via == "params":
            if n > 1:
                raise HarnessError("params takes one point")
            mk = {"list": list, "tuple": tuple,
                  "array": lambda c: np.array(c, dtype=dtype)}[form]
            arg = mk(rows[0]) if n else mk([])
            nm = tuple(names) if step.get("names_tuple") else names
            cl.append(f"params:{form}")
            arr = self._call(
                lambda: lp.parameters_to_live_point(
                    arg, nm, non_sampling_parameters=nsp),
                "parameters_to_live_point")
            self.expect(arr, names, rows, nsp, "parameters_to_live_point")
        elif via == "empty":
            m = int(step.get("n_empty", n))
            if form == "dtype":
                dt = self._call(lambda: lp.get_dtype(names), "get_dtype")
                arr = self._call(
                    lambda: lp.empty_structured_array(m, dtype=dt),
                    "empty_structured_array")
                self.expect(arr, names, None, True,
                            "empty_structured_array:dtype", n=m)
                nsp = True
            else:
                arr = self._call(
                    lambda: lp.empty_structured_array(
                        m, names=names, non_sampling_parameters=nsp),
                    "empty_structured_array")
                self.expect(arr, names, None, nsp, "empty_structured_array",
                            n=m)
            dt2 = self._call(
                lambda: lp.get_dtype(names, non_sampling_parameters=nsp),
                "get_dtype")
            if dt2 != np.dtype(self.expected_descr(names, nsp)):
                raise Violation("get_dtype", f"{dt2}", self.case)
            rows = [[math.nan] * d for _ in range(m)]
            n = m
        else:
            raise HarnessError(f"unknown via {via}")

        self.snapshot(arr)
        # dictionary round trip from whatever was built
        if step.get("dict_roundtrip", True):
            self._dict_roundtrip(lp, arr, names, rows, nsp, cl)

    def _dict_roundtrip(self, lp, arr, names, rows, nsp, cl):
        n = len(rows)
        dall = self._call(lambda: lp.live_points_to_dict(arr),
                          "live_points_to_dict")
        if list(dall.keys()) != list(arr.dtype.names):
            raise Violation("live_points_to_dict:keys",
                            f"{list(dall.keys())}", self.case)
        for k in arr.dtype.names:
            if not _eq(dall[k], arr[k]):
                raise Violation("live_points_to_dict:values", f"key {k!r}",
                                self.case)
        dsub = self._call(lambda: lp.live_points_to_dict(arr, names),
                          "live_points_to_dict")
        if list(dsub.keys()) != list(names):
            raise Violation("live_points_to_dict:keys:subset",
                            f"{list(dsub.keys())} expected {names}",
                            self.case)
        for i, k in enumerate(names):
            if not _eq(dsub[k], [r[i] for r in rows]):
                raise Violation("live_points_to_dict:values:subset",
                                f"key {k!r}", self.case)
        cl.append("dict-roundtrip:n=%s" % ("0" if n == 0 else
                                           "1" if n == 1 else "many"))
        if n == 1:
            # a single point as a 0-d record
            d0 = self._call(lambda: lp.live_points_to_dict(arr[0], names),
                            "live_points_to_dict")
            back0 = self._call(
                lambda: lp.dict_to_live_points(
                    d0, non_sampling_parameters=nsp),
                "dict_to_live_points(live_points_to_dict(x[0]))")
            self.expect(back0, names, rows, nsp,
                        "dict_to_live_points(live_points_to_dict(x[0]))")
        back = self._call(
            lambda: lp.dict_to_live_points(
                dsub, non_sampling_parameters=nsp),
            "dict_to_live_points(live_points_to_dict(x))",
            soft=lambda e: SOFT_F4 if n == 1 and isinstance(
                e, ValueError) else None)
        self.expect(back, names, rows, nsp,
                    "dict_to_live_points(live_points_to_dict(x))")

    # -- views
    def _model(self, names):
        from nessai.model import Model

        key = tuple(names)
        if key not in self.models:
            class VModel(Model):
                def __init__(self, nm):
                    self.names = list(nm)
                    self.bounds = {k: [0.0, 1.0] for k in nm}

                def log_prior(self, x):
                    return np.zeros(np.size(x))

                def log_likelihood(self, x):
                    return np.zeros(np.size(x))

            self.models[key] = self._call(lambda: VModel(names), "Model")
            return self.models[key], False
        return self.models[key], True

    def op_view(self, step):
        from nessai import livepoint as lp

        names = self._names(step)
        d = len(names)
        rows = self._rows(step, d)
        n = len(rows)
        which = step["which"]
        if which == "model" and d < 2:
            raise HarnessError("model needs two names")
        data = np.array(rows, dtype=float).reshape(n, d)
        arr = self._call(
            lambda: lp.numpy_array_to_live_points(data, names),
            "numpy_array_to_live_points")
        self.expect(arr, names, rows, True, "numpy_array_to_live_points")
        sel = step.get("select", "all")
        cl = self.cl
        cl += [f"view:{which}", f"select:{sel}",
               f"extras:{min(len(self.extras), 3)}"]
        a, b = 0, n
        if sel == "slice":
            a, b = sorted(int(v) % (n + 1) for v in step.get("ab", [0, n]))
            sub = arr[a:b]
        elif sel == "row":
            if n == 0:
                sub, sel = arr, "all"
            else:
                a = int(step.get("ab", [0])[0]) % n
                b = a + 1
                sub = arr[a]
        elif sel == "strided":
            sub = arr[::2]
        else:
            sub = arr
        reused = False
        if which == "model":
            model, reused = self._model(names)
            f = lambda: model.unstructured_view(sub)  # noqa: E731
            fname = "Model.unstructured_view"
        elif which == "func-names":
            f = lambda: lp.unstructured_view(sub, names=names)  # noqa: E731
            fname = "unstructured_view"
        else:
            dt = self._call(
                lambda: lp._unstructured_view_dtype(arr, names),
                "_unstructured_view_dtype")
            f = lambda: lp.unstructured_view(sub, dtype=dt)  # noqa: E731
            fname = "unstructured_view"
        if reused:
            cl.append("model-reused-across-registry-states")
        if sel == "strided":
            try:
                v = f()
            except ValueError:
                cl.append("rejected:strided-input")
                return
            except Exception as e:
                raise Violation(f"{type(e).__name__}:{fname}:strided",
                                f"{e!r}", self.case)
            want = data[::2]
            if v.shape != want.shape or not _eq(v, want):
                raise Violation(f"{fname}:strided:values",
                                f"{np.asarray(v).tolist()}", self.case)
            cl.append("accepted:strided-input")
            return
        v = self._call(f, fname)
        want = data[a:b] if sel != "row" else data[a]
        if not isinstance(v, np.ndarray) or v.shape != want.shape:
            raise Violation(
                f"{fname}:shape",
                f"{getattr(v, 'shape', None)} expected {want.shape}",
                self.case)
        if v.dtype != np.dtype("f8"):
            raise Violation(f"{fname}:dtype", f"{v.dtype}", self.case)
        if not _eq(v, want):
            raise Violation(f"{fname}:values",
                            f"{v.tolist()} expected {want.tolist()}",
                            self.case)
        self.nt = want.size > 0 and (d >= 2 or bool(self.extras))
        if want.size and sel != "row":
            if not np.shares_memory(v, arr):
                raise Violation(f"{fname}:copy-not-view",
                                "result does not share memory", self.case)
            # write through the view
            i = int(step.get("wi", 0)) % (b - a)
            k = int(step.get("wk", 0)) % d
            val = _to_float(step.get("wval", 12345.5))
            ref = arr.copy()
            ref[names[k]][a + i] = val
            v[i, k] = val
            same = all(
                _eq(arr[fld], ref[fld]) for fld in arr.dtype.names
            )
            if not same:
                raise Violation(
                    f"{fname}:write-lands-elsewhere",
                    f"wrote {val!r} at view[{i},{k}] (row {a + i}, field "
                    f"{names[k]!r}); array is {arr.tolist()!r}", self.case)
            cl.append("write-through")
        self.snapshot(arr)


def _brief(step):
    s = dict(step)
    if "rows" in s:
        s["n"] = len(s["rows"])
        s["rows"] = s["rows"][:2]
    return s


# ------------------------------------------------------------ strategies
_IDENT = st.one_of(
    st.from_regex(r"[A-Za-z_][A-Za-z0-9_]{0,7}", fullmatch=True),
    st.sampled_from(["x", "y", "x_0", "mass_1", "ra", "dec", "α", "Δm",
                     "ψ_1", "θjn", "logQ", "logW", "logU", "qID", "_", "__a",
                     "It", "logp", "L", "ñ"]),
).filter(lambda s: s.isidentifier() and s not in CORE)

_NAME_LISTS = st.one_of(
    st.lists(_IDENT, min_size=1, max_size=4, unique=True),
    st.lists(_IDENT, min_size=2, max_size=20, unique=True),
)
_EXTRA_NAMES = st.lists(
    st.one_of(st.sampled_from(["logQ", "logW", "logU", "qID"]), _IDENT),
    min_size=1, max_size=4,
)
_FLOATS = st.one_of(
    st.floats(allow_nan=True, allow_infinity=True),
    st.floats(-10, 10),
    st.sampled_from([math.nan, math.inf, -math.inf, 0.0, -0.0, 5e-324,
                     1.7976931348623157e308, -1.7976931348623157e308, 1.0]),
)
_INTS = st.one_of(st.integers(-5, 5), st.integers(-2**53, 2**53))
_DEFAULTS = st.one_of(st.floats(allow_nan=True, allow_infinity=True),
                      st.integers(-3, 3), st.just(0.0), st.just(math.nan))


def _gen_rows(draw, d, ints, n=None):
    if n is None:
        n = draw(st.sampled_from([0, 1, 1, 2, 3, 7]))
    elem = _INTS if ints else _FLOATS
    return draw(st.lists(st.lists(elem, min_size=d, max_size=d),
                         min_size=n, max_size=n))


class LivePointMachine(RuleBasedStateMachine):
    names_b = Bundle("names")

    def __init__(self):
        super().__init__()
        self.I = Interp()

    @initialize(target=names_b, names=_NAME_LISTS)
    def first_names(self, names):
        return names

    @rule(target=names_b, names=_NAME_LISTS)
    def new_names(self, names):
        return names

    @rule(names=_EXTRA_NAMES, data=st.data())
    def registry(self, names, data):
        if data.draw(st.sampled_from(["add", "add", "add", "reset"])) == \
                "reset":
            self.I.apply({"op": "reset"})
            return
        step = {"op": "add", "names": names, "defaults": None}
        if data.draw(st.booleans()):
            step["defaults"] = data.draw(
                st.lists(_DEFAULTS, min_size=len(names),
                         max_size=len(names)))
            step["defaults_tuple"] = data.draw(st.booleans())
        self.I.apply(step)

    @rule(names=names_b, data=st.data())
    def conv(self, names, data):
        d = len(names)
        via = data.draw(st.sampled_from(
            ["array", "dict", "dict", "df", "params", "empty"]))
        ints = data.draw(st.booleans()) and via != "empty"
        step = {"op": "conv", "via": via, "names": names,
                "nsp": data.draw(st.booleans()), "ints": ints}
        if via == "array":
            step["form"] = data.draw(st.sampled_from(["1d", "2d"]))
            step["rows"] = _gen_rows(data.draw, d, ints)
            step["copy"] = data.draw(st.booleans())
            step["names_tuple"] = data.draw(
                st.sampled_from([False, False, False, True]))
            step["sub"] = data.draw(st.lists(st.integers(0, 11),
                                             min_size=0, max_size=4))
        elif via == "dict":
            form = data.draw(st.sampled_from(
                ["scalar", "npscalar", "list", "tuple", "array"]))
            step["form"] = form
            step["rows"] = _gen_rows(
                data.draw, d, ints,
                n=1 if form in ("scalar", "npscalar") else None)
        elif via == "df":
            step["form"] = data.draw(st.sampled_from(["mixed", "all-int"]))
            step["rows"] = _gen_rows(data.draw, d, ints)
        elif via == "params":
            step["form"] = data.draw(st.sampled_from(
                ["list", "tuple", "array"]))
            step["rows"] = _gen_rows(data.draw, d, ints,
                                 n=data.draw(st.sampled_from([0, 1, 1, 1])))
            step["names_tuple"] = data.draw(st.booleans())
        else:
            step["form"] = data.draw(st.sampled_from(["names", "dtype"]))
            step["rows"] = []
            step["n_empty"] = data.draw(st.sampled_from([0, 1, 2, 5]))
        self.I.apply(step)

    @rule(names=names_b, data=st.data())
    def view(self, names, data):
        d = len(names)
        which = data.draw(st.sampled_from(
            ["model", "model", "func-names", "func-dtype"]))
        if d < 2 and which == "model":
            which = "func-names"
        n = data.draw(st.sampled_from([0, 1, 2, 3, 6]))
        step = {
            "op": "view", "which": which, "names": names,
            "rows": _gen_rows(data.draw, d, False, n=n),
            "select": data.draw(st.sampled_from(
                ["all", "all", "slice", "row", "strided"])),
            "ab": [data.draw(st.integers(0, 8)),
                   data.draw(st.integers(0, 8))],
            "wi": data.draw(st.integers(0, 8)),
            "wk": data.draw(st.integers(0, 19)),
            "wval": data.draw(st.one_of(st.floats(-1e3, 1e3),
                                        st.just(math.inf))),
        }
        self.I.apply(step)

    def teardown(self):
        self.I.close()


# ------------------------------------------------------------ shards
def _fixed_sequences():
    """A small deterministic enumeration run by every shard 0: every
    conversion x {0,1,3 points} x {0,1,2 extras} x nsp."""
    seqs = []
    for nex in (0, 1, 2):
        steps = []
        if nex:
            steps.append({"op": "add", "names": ["logQ", "logW"][:nex],
                          "defaults": [0.5, -1][:nex]})
        for n in (0, 1, 3):
            rows = [[float(i + 1), math.nan if i else 2.5, -float(i)]
                    for i in range(n)]
            for nsp in (True, False):
                base = {"op": "conv", "names": ["x", "y", "z"], "nsp": nsp,
                        "ints": False, "rows": rows}
                steps.append(dict(base, via="array", form="2d"))
                steps.append(dict(base, via="array", form="1d"))
                steps.append(dict(base, via="df", form="mixed"))
                for form in ("list", "tuple", "array"):
                    steps.append(dict(base, via="dict", form=form))
                if n == 1:
                    steps.append(dict(base, via="dict", form="scalar"))
                    steps.append(dict(base, via="dict", form="npscalar"))
                if n <= 1:
                    steps.append(dict(base, via="params", form="list"))
                steps.append(dict(base, via="empty", form="names",
                                  rows=[], n_empty=n))
            for which in ("model", "func-names", "func-dtype"):
                for sel in ("all", "slice", "row"):
                    steps.append({"op": "view", "which": which,
                                  "names": ["x", "y", "z"], "rows": rows,
                                  "select": sel, "ab": [1, 3], "wi": 1,
                                  "wk": 2, "wval": 7.25})
        steps.append({"op": "reset"})
        steps.append(dict(op="conv", via="array", form="2d",
                          names=["x", "y"], rows=[[1.0, 2.0]], nsp=True,
                          ints=False))
        seqs.append(steps)
    return seqs


def _policy_factory(ctx, stats):
    def policy(v):
        if ctx.known(v.key) or v.key in SOFT:
            stats.excluded_known[v.key] += 1
            return True
        return False

    return policy


def shard(seed, n_runs, steps, fixed=False, anticipated=False):
    global _STATS, _POLICY
    logging.getLogger("nessai").setLevel(logging.CRITICAL)
    ctx = Ctx("C18", "quick", seed)
    out = Outcome()
    _STATS = out.stats
    try:
        if anticipated:
            _POLICY = None
            for case in ANTICIPATED:
                interp = Interp()
                try:
                    interp.run(case["steps"])
                except Violation as v:
                    out.add(v)
                finally:
                    interp.close()
            return out
        _POLICY = _policy_factory(ctx, out.stats)
        if fixed:
            for seq in _fixed_sequences():
                interp = Interp()
                try:
                    interp.run(seq)
                except Violation as v:
                    out.add(v)
                finally:
                    interp.close()
            out.stats.extra["fixed_sequences"] = len(_fixed_sequences())
        if n_runs:
            for v in run_machine(LivePointMachine, seed, n_runs, steps):
                out.add(v)
    finally:
        _STATS = None
        _POLICY = None
        _pristine_registry()
    return out


def run(ctx):
    n_runs, steps = (150, 40) if ctx.quick else (2000, 50)
    kws = [dict(seed=ctx.seed, n_runs=0, steps=0, anticipated=True)]
    kws += [
        dict(seed=ctx.seed * 1000 + i, n_runs=n_runs, steps=steps,
             fixed=(i == 0))
        for i in range(16)
    ]
    return run_shards("vf.checks.c18", "shard", kws)


def health(ctx, stats):
    need = {
        "op:add": 200, "op:reset": 100, "op:conv": 1000, "op:view": 500,
        "add:with-defaults": 50, "add:no-defaults": 50,
        "add:duplicate-skipped": 20, "reset:nonempty": 50,
        "via:array": 100, "via:dict": 100, "via:df": 100, "via:params": 100,
        "via:empty": 100, "nsp": 300, "no-nsp": 300,
        "n=0": 100, "n=1": 100, "n>1": 100,
        "extras:0": 100, "extras:1": 50, "extras:2": 50, "extras:3": 50,
        "dict:scalar": 20, "dict:npscalar": 20, "dict:list": 20,
        "dict:tuple": 20, "dict:array": 20,
        "dict-roundtrip:n=0": 50, "dict-roundtrip:n=1": 50,
        "dict-roundtrip:n=many": 50,
        "ints": 100, "non-finite-values": 100, "d=1": 20, "d>=10": 50,
        "view:model": 100, "view:func-names": 50, "view:func-dtype": 50,
        "select:slice": 50, "select:row": 50, "write-through": 200,
        "model-reused-across-registry-states": 20,
    }
    return [
        f"class {c} has only {stats.classes.get(c, 0)} cases (< {m})"
        for c, m in need.items()
        if stats.classes.get(c, 0) < m
    ]


def replay(ctx, case):
    global _STATS, _POLICY
    logging.getLogger("nessai").setLevel(logging.CRITICAL)
    _STATS = None
    _POLICY = None
    interp = Interp()
    try:
        interp.run(case["steps"])
    except Violation as v:
        return [v]
    finally:
        interp.close()
    return []
