"""C02 - evidence and posterior weights equal the documented NS quadrature.

Generator : Hypothesis (non-decreasing logL sequences built from increments,
            nlive schedules, both expectation modes, offsets).
Oracles   : incremental _NSIntegralState  ==  one-pass compute_weights
            == mpmath (60 digits) evaluation of the documented quadrature;
            log-volumes start at 0 and strictly decrease; shift metamorphic.
"""
import logging
import math

import numpy as np
from hypothesis import strategies as st

from ..core import Outcome, Stats, Violation
from ..hyp import run_given
from ..par import run_shards

LEVEL = "exploration"
RULE = (
    "Hypothesis-generated non-decreasing log-likelihood sequences (increments "
    "from a mixture {0, 1e-12..1e-6, O(1), 1e2..1e4}, 0-k leading -inf, common "
    "offset up to +-1e5), length >= nlive, constant integer nlive 1..1e4 or a "
    "per-iteration float schedule, expectation in {logt,t}. Non-trivial: at "
    "least nlive+1 points and not all likelihoods equal; distinct by hash of "
    "the whole case."
)
ASSUMPTIONS = [
    "mpmath at 60 significant digits is the reference for the quadrature",
    "tolerance = 64 ulp(max(1,|logL|max,|logZ|)) + 8 eps max(N,nmax) "
    "max(1,|logX|max): conditioning of log-sum-exp over N terms and of "
    "log(X[i-1]-X[i]) for shrinkage 1/n; it is a bound, not tuned",
    "scalar nlive is a Python int (the code's own isinstance test), sequences "
    "contain no NaN/+inf and at least one finite value (property domain)",
]

EPS = np.finfo(float).eps


def _to_float(v):
    if isinstance(v, str):
        return {"-inf": -math.inf, "inf": math.inf, "nan": math.nan}[v]
    return float(v)


# ---------------------------------------------------------------- reference
def reference(logL, n_sched, expectation):
    """mpmath evaluation of the documented quadrature.

    Returns (logZ_trap, logZ_rect, log_vols[0..N], log_post_w[1..N]).
    """
    import mpmath as mp

    mp.mp.dps = 60
    N = len(logL)
    finite = [v for v in logL if v != -math.inf]
    lmax = max(finite)
    logX = [mp.mpf(0)]
    for n in n_sched:
        n = mp.mpf(float(n))
        if expectation == "logt":
            lt = -1 / n
        else:
            lt = -mp.log(1 + 1 / n)
        logX.append(logX[-1] + lt)
    X = [mp.exp(v) for v in logX] + [mp.mpf(0)]
    # likelihoods relative to lmax: L_0 = 0, L_{N+1} = L_N
    L = [mp.mpf(0)] + [
        mp.mpf(0) if v == -math.inf else mp.exp(mp.mpf(v) - mp.mpf(lmax))
        for v in logL
    ]
    L.append(L[-1])
    trap = mp.mpf(0)
    for i in range(N + 1):
        trap += (L[i] + L[i + 1]) / 2 * (X[i] - X[i + 1])
    rect = mp.mpf(0)
    w = []
    for i in range(1, N + 1):
        wi = L[i] * (X[i - 1] - X[i])
        w.append(wi)
        rect += wi
    logZ_trap = float(mp.log(trap) + mp.mpf(lmax))
    logZ_rect = float(mp.log(rect) + mp.mpf(lmax)) if rect > 0 else -math.inf
    log_w = [
        float(mp.log(wi / trap)) if wi > 0 else -math.inf for wi in w
    ]
    return logZ_trap, logZ_rect, [float(v) for v in logX], log_w


def schedule(case):
    N = len(case["logL"])
    if case.get("nlive_arr") is not None:
        return [float(v) for v in case["nlive_arr"]]
    n = case["nlive"]
    return [float(n)] * (N - n) + [float(n - i) for i in range(n)]


def tolerance(logL, logZ, sched, logX_abs_max):
    fin = [abs(v) for v in logL if math.isfinite(v)]
    M = max([1.0, abs(logZ) if math.isfinite(logZ) else 1.0] + fin)
    N = len(logL)
    return 64 * np.spacing(M) + 8 * EPS * max(N, max(sched)) * max(
        1.0, logX_abs_max
    )


def _close(a, b, tol):
    if a == b:
        return True
    if not (math.isfinite(a) and math.isfinite(b)):
        return False
    return abs(a - b) <= tol


def _close_arr(a, b, tol):
    a = np.asarray(a, dtype=float)
    b = np.asarray(b, dtype=float)
    if a.shape != b.shape:
        return False, "shape %s vs %s" % (a.shape, b.shape)
    same = a == b
    with np.errstate(invalid="ignore"):
        ok = same | (np.isfinite(a) & np.isfinite(b) & (np.abs(a - b) <= tol))
    if ok.all():
        return True, ""
    i = int(np.argmin(ok))
    return False, f"index {i}: {a[i]!r} vs {b[i]!r} (tol {tol:.3g})"


# ---------------------------------------------------------------- predicate
def _touch(state):
    """Read every read-only accessor of the integral state (values are
    discarded): reading must not change what the state reports later."""
    state.effective_n_posterior_samples
    state.log_posterior_weights
    state.log_evidence
    state.log_evidence_error


class _SamplerStub:
    """The attributes NestedSampler.finalise reads and writes."""

    def update_state(self, force=False):
        pass


def _real_finalise(state, n, tail, case=None):
    """Consume the remaining live points through the sampler's own
    NestedSampler.finalise (called as a plain function on a stand-in object):
    the closing schedule of live-point counts is part of what is accumulated
    incrementally during sampling."""
    from nessai.samplers.nestedsampler import NestedSampler

    stub = _SamplerStub()
    lp = np.zeros(len(tail), dtype=[("x", "f8"), ("logL", "f8")])
    lp["logL"] = tail
    stub.live_points = lp
    stub.state = state
    stub.nested_samples = []
    stub.nlive = n
    stub.finalised = False
    NestedSampler.finalise(stub)
    if len(stub.nested_samples) != len(tail) or not stub.finalised:
        raise Violation(
            "finalise:live-points-not-consumed",
            f"{len(stub.nested_samples)} of {len(tail)} live points recorded, "
            f"finalised={stub.finalised}", case)


def run_impl(logL, case, reads=(), persist=False):
    """Drive nessai: returns dict of results from both implementations.

    reads: positions (number of increments done) at which the read-only
    accessors of the state are queried, as a user or the sampler may do at
    any time; with persist=True the state additionally goes through a pickle
    round trip there (what a checkpoint / resume does to it).  Without reads
    a copy of the state is additionally finished by the real
    NestedSampler.finalise (it must agree bit for bit with the documented
    schedule nlive - i)."""
    import pickle

    from nessai.evidence import _NSIntegralState
    from nessai.posterior import compute_weights

    exp = case["expectation"]
    N = len(logL)
    arr = case.get("nlive_arr")
    out = {}
    reads = set(reads)

    def touch(state):
        _touch(state)
        if persist:
            state = pickle.loads(pickle.dumps(state))
        return state

    if arr is None:
        n = int(case["nlive"])
        state = _NSIntegralState(n, track_gradients=False, expectation=exp)
        for j, v in enumerate(logL[: N - n]):
            if j in reads and j > 0:
                state = touch(state)
            state.increment(v)
        out["logx_live"] = np.array(state.get_logx_live_points(n))
        real = None
        if not reads:
            # a copy of the state as it is when sampling stops: its remaining
            # live points are consumed by the real NestedSampler.finalise
            real = pickle.loads(pickle.dumps(state))
        for i, v in enumerate(logL[N - n:]):
            if (N - n + i) in reads and (N - n + i) > 0:
                state = touch(state)
            state.increment(v, nlive=n - i)
        if real is not None:
            _real_finalise(real, n, logL[N - n:], case)
            out["real_vols"] = np.array(real.log_vols, dtype=float)
            out["real_w"] = np.array(real.log_posterior_weights, dtype=float)
            out["real_logZ"] = float(real.log_evidence)
        one_logZ, one_w = compute_weights(np.array(logL), n, expectation=exp)
    else:
        state = _NSIntegralState(
            max(1, int(arr[0])), track_gradients=False, expectation=exp
        )
        base = max(1, int(arr[0]))
        for j, (v, n) in enumerate(zip(logL, arr)):
            if j in reads and j > 0:
                state = touch(state)
            if case.get("default_calls") and n == base:
                # the count is left out where it equals the one the state
                # was constructed with (what the sampler does)
                state.increment(v)
            else:
                state.increment(v, nlive=n)
        one_logZ, one_w = compute_weights(
            np.array(logL), np.array(arr, dtype=float), expectation=exp
        )
    out["inc_rect"] = float(state.logZ)
    out["inc_vols"] = np.array(state.log_vols, dtype=float)
    out["inc_w"] = np.array(state.log_posterior_weights, dtype=float)
    # the effective sample size of the state as it is now (first query in a
    # history without reads, a repeated one in a history with reads)
    out["ess"] = float(state.effective_n_posterior_samples)
    if reads:
        # read again after the effective sample size was queried
        out["inc_w_again"] = np.array(state.log_posterior_weights,
                                      dtype=float)
    out["inc_logZ"] = float(state.finalise())
    out["inc_logZ_attr"] = float(state.log_evidence)
    if reads:
        _touch(state)
        out["inc_w_final"] = np.array(state.log_posterior_weights,
                                      dtype=float)
    out["one_logZ"] = float(one_logZ)
    out["one_w"] = np.array(one_w, dtype=float)
    return out


def check_case(case, use_mp=True):
    """Plain predicate. Raises Violation."""
    logL = [_to_float(v) for v in case["logL"]]
    sched = schedule(case)
    with np.errstate(all="ignore"):
        r = run_impl(logL, case)
    reads = case.get("reads") or []
    variants = []
    if reads:
        # the same history with read-only queries interleaved must report
        # bit-identical results (reading is not an operation on the state),
        # and so must the history in which the state is pickled and restored
        # at those positions (a checkpoint / resume is not one either)
        variants.append(("reads-change-result", False))
        if case.get("persist"):
            variants.append(("persist-changes-result", True))
    for label, persist in variants:
        with np.errstate(all="ignore"):
            rr = run_impl(logL, case, reads=reads, persist=persist)
        what = ("read-only queries" if not persist else
                "read-only queries and a pickle round trip of the state")
        for name in ("inc_rect", "inc_logZ", "inc_logZ_attr", "ess"):
            if rr[name] != r[name] and not (
                    math.isnan(rr[name]) and math.isnan(r[name])):
                raise Violation(
                    f"{label}:{name}",
                    f"{r[name]!r} without vs {rr[name]!r} with {what} "
                    f"at {reads[:5]}", case)
        for name, ref in (("inc_w", "inc_w"), ("inc_vols", "inc_vols"),
                          ("inc_w_again", "inc_w"), ("inc_w_final", "inc_w")):
            if not np.array_equal(rr[name], r[ref], equal_nan=True):
                d = np.nanmax(np.abs(np.where(
                    np.isfinite(rr[name]) & np.isfinite(r[ref]),
                    rr[name] - r[ref], 0.0))) if len(rr[name]) == len(
                        r[ref]) else float("nan")
                raise Violation(
                    f"{label}:{name}",
                    f"max |difference| {d:.3e} between the values reported "
                    f"with and without {what} (positions "
                    f"{reads[:5]})", case)
    if "real_vols" in r:
        # the sampler's own finalise vs the documented closing schedule
        for a, b, name in ((r["real_vols"], r["inc_vols"], "log_vols"),
                           (r["real_w"], r["inc_w"], "weights")):
            if not np.array_equal(a, b, equal_nan=True):
                raise Violation(
                    f"finalise!=documented-schedule:{name}",
                    f"NestedSampler.finalise gives {name} that differ from "
                    f"the schedule nlive - i (first at index "
                    f"{int(np.argmax(~(a == b))) if len(a) == len(b) else -1}"
                    f", lengths {len(a)} / {len(b)})", case)
        if r["real_logZ"] != r["inc_logZ"] and not (
                math.isnan(r["real_logZ"]) and math.isnan(r["inc_logZ"])):
            raise Violation(
                "finalise!=documented-schedule:logZ",
                f"{r['real_logZ']!r} vs {r['inc_logZ']!r}", case)
    N = len(logL)
    vols = r["inc_vols"]
    # (c) volumes
    if vols[0] != 0.0:
        raise Violation("log_vols[0]!=0", f"log_vols[0]={vols[0]!r}", case)
    if len(vols) != N + 1 or not np.all(np.diff(vols) < 0):
        raise Violation(
            "log_vols-not-strictly-decreasing",
            f"len={len(vols)} N={N} min diff={np.diff(vols).max()!r}",
            case,
        )
    logx_abs = float(np.abs(vols).max())
    tol = tolerance(logL, r["inc_logZ"], sched, logx_abs)
    # finite/NaN hygiene
    for name in ("inc_logZ", "one_logZ", "inc_rect"):
        if math.isnan(r[name]) or r[name] == math.inf:
            raise Violation(f"nonfinite:{name}", f"{name}={r[name]!r}", case)
    for name in ("inc_w", "one_w"):
        if np.isnan(r[name]).any() or (r[name] == np.inf).any():
            raise Violation(f"nonfinite:{name}", "NaN/+inf in weights", case)
    if r["inc_logZ"] != r["inc_logZ_attr"]:
        raise Violation(
            "finalise-return!=attribute",
            f"{r['inc_logZ']!r} vs {r['inc_logZ_attr']!r}",
            case,
        )
    # (a) incremental vs one-pass
    if not _close(r["inc_logZ"], r["one_logZ"], tol):
        raise Violation(
            "incremental!=onepass:logZ",
            f"{r['inc_logZ']!r} vs {r['one_logZ']!r} tol={tol:.3g}",
            case,
        )
    ok, why = _close_arr(r["inc_w"], r["one_w"], tol)
    if not ok:
        raise Violation("incremental!=onepass:weights", why, case)
    # -inf weights exactly where logL is -inf
    neg = np.array([v == -math.inf for v in logL])
    if not np.array_equal(np.isneginf(r["one_w"]), neg):
        raise Violation(
            "weights:-inf-pattern",
            "weights are -inf at different positions than logL",
            case,
        )
    if "logx_live" in r:
        n = int(case["nlive"])
        ok, why = _close_arr(r["logx_live"], vols[N - n + 1:], tol)
        if not ok:
            raise Violation("logx_live_points!=schedule", why, case)
    # (b) against mpmath
    if use_mp:
        zt, zr, lx, lw = reference(logL, sched, case["expectation"])
        if not _close(r["inc_logZ"], zt, tol):
            raise Violation(
                "incremental!=reference:logZ",
                f"{r['inc_logZ']!r} vs mp {zt!r} tol={tol:.3g}",
                case,
            )
        if not _close(r["one_logZ"], zt, tol):
            raise Violation(
                "onepass!=reference:logZ",
                f"{r['one_logZ']!r} vs mp {zt!r} tol={tol:.3g}",
                case,
            )
        if not _close(r["inc_rect"], zr, tol):
            raise Violation(
                "incremental!=reference:rectangle-logZ",
                f"{r['inc_rect']!r} vs mp {zr!r} tol={tol:.3g}",
                case,
            )
        ok, why = _close_arr(vols, lx, tol)
        if not ok:
            raise Violation("log_vols!=reference", why, case)
        ok, why = _close_arr(r["one_w"], lw, tol)
        if not ok:
            raise Violation("onepass!=reference:weights", why, case)
        ok, why = _close_arr(r["inc_w"], lw, tol)
        if not ok:
            raise Violation("incremental!=reference:weights", why, case)
    # (d) shift
    c = case.get("shift")
    if c:
        shifted = [v + c for v in logL]
        case2 = dict(case, logL=shifted, shift=None)
        with np.errstate(all="ignore"):
            r2 = run_impl(shifted, case2)
        # rounding of L+c moves every term by <= ulp(|L|+|c|)/2
        fin = [abs(v) for v in shifted + logL if math.isfinite(v)]
        tol2 = tol + tolerance(shifted, r2["inc_logZ"], sched, logx_abs) + \
            2 * np.spacing(max(fin + [abs(c)]))
        for name in ("inc_logZ", "one_logZ"):
            if math.isnan(r2[name]) or not math.isfinite(r2[name]):
                raise Violation(
                    f"shift:nonfinite:{name}", f"{r2[name]!r} c={c}", case
                )
            if not _close(r2[name] - c, r[name], tol2):
                raise Violation(
                    f"shift:{name}",
                    f"logZ(L+c)-c={r2[name] - c!r} vs {r[name]!r} "
                    f"tol={tol2:.3g}",
                    case,
                )
        for name in ("inc_w", "one_w"):
            ok, why = _close_arr(r2[name], r[name], tol2)
            if not ok:
                raise Violation(f"shift:{name}", why, case)


# ---------------------------------------------------------------- generator
def _increments():
    return st.one_of(
        st.just(0.0),
        st.floats(1e-12, 1e-6),
        st.floats(1e-3, 5.0),
        st.floats(1e2, 1e4),
    )


@st.composite
def cases(draw, max_len, max_nlive, big=False):
    mode = draw(st.sampled_from(["const", "const", "array"]))
    expectation = draw(st.sampled_from(["logt", "t"]))
    if mode == "const":
        # log-uniform nlive
        e = draw(st.floats(0, math.log10(max_nlive)))
        nlive = max(1, min(max_nlive, int(round(10 ** e))))
        extra = draw(st.integers(0, max(0, max_len - nlive)))
        if not big:
            extra = min(extra, draw(st.sampled_from([3, 30, 300, max_len])))
        N = nlive + extra
        arr = None
    else:
        N = draw(st.integers(1, max_len if big else min(max_len, 400)))
        nlive = None
        kind = draw(st.sampled_from(["int", "float", "decreasing",
                                     "excursions"]))
        nb = min(N, 400)
        if kind == "excursions":
            # the base count (given to the constructor, used by calls that
            # leave `nlive` out) with a few calls at another count in between
            base = draw(st.integers(1, 200))
            blk = draw(st.lists(st.one_of(st.just(base), st.just(base),
                                          st.integers(1, 400)),
                                min_size=nb, max_size=nb))
            blk[0] = base
            arr = (blk * (N // nb + 1))[:N]
        elif kind == "int":
            blk = draw(st.lists(st.integers(1, 10**4), min_size=nb,
                                max_size=nb))
            arr = (blk * (N // nb + 1))[:N]
        elif kind == "float":
            blk = draw(st.lists(st.floats(1.0, 1e5), min_size=nb,
                                max_size=nb))
            arr = (blk * (N // nb + 1))[:N]
        else:
            top = draw(st.integers(N, N + 5000))
            arr = [float(top - i) for i in range(N)]
        arr = [float(v) for v in arr]
    n_inf = draw(st.sampled_from([0, 0, 0, 1, 2, 5]))
    n_inf = min(n_inf, N - 1)
    start = draw(
        st.one_of(st.floats(-50, 50), st.floats(-1e5, 1e5), st.just(0.0))
    )
    # homogeneous or mixed increments (Hypothesis lists are capped at 8192
    # elements: long sequences tile a generated block)
    style = draw(st.sampled_from(["mixed", "tiny", "unit", "huge", "ties"]))
    nfin = N - n_inf
    elem = {
        "mixed": _increments(),
        "tiny": st.floats(0, 1e-6),
        "unit": st.floats(0, 3.0),
        "huge": st.floats(1e2, 1e4),
        "ties": st.sampled_from([0.0, 0.0, 0.5]),
    }[style]
    nblock = min(nfin - 1, 400)
    block = draw(st.lists(elem, min_size=nblock, max_size=nblock))
    incs = (block * ((nfin - 1) // max(1, nblock) + 1))[: nfin - 1]
    vals = [start]
    for d in incs:
        vals.append(vals[-1] + d)
    # keep magnitudes within the stated 1e5 (property) + room for the shift
    if max(abs(vals[0]), abs(vals[-1])) > 2e5:
        scale = 2e5 / max(abs(vals[0]), abs(vals[-1]))
        vals = sorted(v * scale for v in vals)
    logL = [-math.inf] * n_inf + vals
    shift = draw(
        st.one_of(st.none(), st.floats(-1e5, 1e5), st.sampled_from(
            [1e5, -1e5, 1.0, 1e3]))
    )
    reads = draw(st.one_of(
        st.just([]),
        st.lists(st.integers(0, max(1, N)), min_size=1, max_size=4),
    ))
    return {
        "reads": sorted(set(reads)),
        "persist": bool(reads) and draw(st.booleans()),
        "nlive": nlive,
        "nlive_arr": arr,
        "default_calls": arr is not None and draw(st.booleans()),
        "expectation": expectation,
        "logL": logL,
        "shift": shift,
        "style": style,
    }


def classify(case):
    logL = case["logL"]
    fin = [v for v in logL if math.isfinite(v)]
    cl = [case["expectation"], "style:" + case["style"]]
    if case["nlive_arr"] is not None:
        cl.append("varying-nlive")
    if len(fin) < len(logL):
        cl.append("leading-inf")
    if any(a == b for a, b in zip(fin, fin[1:])):
        cl.append("ties")
    if fin and max(abs(v) for v in fin) >= 1e3:
        cl.append("offset>=1e3")
    rng = fin[-1] - fin[0] if fin else 0
    if 0 < rng <= 1e-6:
        cl.append("range<=1e-6")
    if rng >= 1e3:
        cl.append("range>=1e3")
    if case["shift"]:
        cl.append("shifted")
    if case.get("reads"):
        cl.append("interleaved-reads")
    if case.get("persist"):
        cl.append("pickle-round-trips")
    n = case["nlive"] if case["nlive"] else 1
    nontrivial = len(logL) >= n + 1 and len(set(fin)) > 1
    return cl, nontrivial


def shard(seed, n_mp, n_big, known_keys=()):
    logging.getLogger("nessai").setLevel(logging.CRITICAL)
    from ..core import Ctx

    ctx = Ctx("C02", "quick", seed)
    out = Outcome()
    stats = out.stats

    def body_factory(use_mp):
        def body(case):
            cl, nt = classify(case)
            stats.case(
                _brief(case), nontrivial=nt, classes=cl
            )
            try:
                check_case(case, use_mp=use_mp)
            except Violation as v:
                if ctx.known(v.key):
                    stats.excluded_known[v.key] += 1
                    return
                raise

        return body

    for v in run_given(body_factory(True), cases(2000, 2000), seed, n_mp):
        out.add(v)
    if n_big and not out.violations:
        for v in run_given(
            body_factory(False), cases(50000, 10**4, big=True), seed + 7,
            n_big,
        ):
            out.add(v)
    return out


def _brief(case):
    logL = case["logL"]
    d = {k: case[k] for k in ("nlive", "expectation", "shift", "style")}
    d["N"] = len(logL)
    d["logL_head"] = logL[:4]
    d["logL_tail"] = logL[-2:]
    if case["nlive_arr"] is not None:
        d["nlive_arr_head"] = case["nlive_arr"][:4]
    return d


def run(ctx):
    n_sh = 16
    n_mp, n_big = (250, 6) if ctx.quick else (5000, 60)
    kws = [
        dict(seed=ctx.seed * 1000 + i, n_mp=n_mp, n_big=n_big)
        for i in range(n_sh)
    ]
    return run_shards("vf.checks.c02", "shard", kws)


def health(ctx, stats):
    need = ["ties", "leading-inf", "offset>=1e3", "range<=1e-6",
            "range>=1e3", "varying-nlive", "shifted", "logt", "t",
            "interleaved-reads"]
    return [
        f"class {c} has only {stats.classes.get(c, 0)} cases"
        for c in need
        if stats.classes.get(c, 0) < (5 if ctx.quick else 100)
    ]


def replay(ctx, case):
    logging.getLogger("nessai").setLevel(logging.CRITICAL)
    try:
        check_case(case, use_mp=len(case["logL"]) <= 5000)
    except Violation as v:
        return [v]
    return []
