"""C14 - seeded runs are reproducible and independent of parallelisation.

Generator : groups = (configuration of either sampler, seed) x members that
            differ only in likelihood-parallelisation settings (no pool,
            n_pool 1-4, user-supplied fork pool, likelihood_chunksize 1 / 7 /
            larger than any batch, parallelise_prior), each member in its own
            process; one member repeats the run in the same process.
Oracle    : byte digests of nested samples, log-evidence, posterior weights
            and the evaluation counter are identical within a group.
"""
from hypothesis import strategies as st

from .. import configs, runs
from ..core import HarnessError, Outcome, Violation, jhash

LEVEL = "exploration"
RULE = (
    "Groups of real seeded runs: one generated configuration (standard or "
    "importance sampler, model with exactly rounded arithmetic) executed in "
    "4-5 separate processes that differ only in parallelisation settings "
    "(none, n_pool 1-4, user-supplied fork pool, chunk size 1/7/huge, "
    "parallel prior) plus a repeat inside one process. evaluations = member "
    "runs. Non-trivial group: every member completed, the flow was trained "
    "and at least one member used a real process pool; distinct by hash of "
    "the base configuration."
)
ASSUMPTIONS = [
    "disable_vectorisation is not varied within a group (it changes how many "
    "random points nessai's vectorisation probe draws; the property does not "
    "list it)",
    "fork start method; models use exactly rounded arithmetic",
    "member processes run with distinct fixed PYTHONHASHSEED values (the "
    "default for unrelated processes is a random one)",
]


VARIANTS = [
    {"n_pool": 1}, {"likelihood_chunksize": 1},
    {"pool": {"__pool__": 2}, "likelihood_chunksize": 7},
    {"n_pool": 2}, {"likelihood_chunksize": 7},
    {"pool": {"__pool__": 2}, "parallelise_prior": True},
    {"n_pool": 3, "likelihood_chunksize": 7}, {"pool": {"__pool__": 3}},
    {"likelihood_chunksize": 100000},
    {"n_pool": 4}, {"n_pool": 2, "parallelise_prior": True},
    {"pool": {"__pool__": 2}},
    {"n_pool": 2, "likelihood_chunksize": 1},
    {"pool": {"__pool__": 4}, "likelihood_chunksize": 100000,
     "parallelise_prior": True},
    {"n_pool": 1, "likelihood_chunksize": 100000},
    # a user pool whose size cannot be read off the object, with the size
    # stated through n_pool
    {"pool": {"__pool__": 2, "wrapped": True}, "n_pool": 2},
    {"pool": {"__pool__": 3, "wrapped": True}, "n_pool": 3,
     "likelihood_chunksize": 7},
    {"n_pool": 3, "parallelise_prior": True},
    # "whether executed in the same or in different processes": the same
    # process has executed another run (of the other sampler) before
    {"__prelude__": True},
    {"__prelude__": True, "n_pool": 2},
    {"likelihood_chunksize": 3},
    # verbose logging, with and without a pool
    {"__log__": "DEBUG"},
    {"__log__": "DEBUG", "n_pool": 2},
    {"__log__": "INFO", "pool": {"__pool__": 2}, "likelihood_chunksize": 7},
]


@st.composite
def group(draw):
    ins = draw(st.sampled_from([False, False, True]))
    if ins:
        base = draw(configs.ins_job())
        base["model"] = draw(st.sampled_from([
            {"name": "gauss_uniform", "dims": 2},
            {"name": "gauss_uniform", "dims": 3}]))
        base["kwargs"]["max_iteration"] = draw(st.integers(2, 5))
        base["kwargs"]["nlive"] = draw(st.integers(100, 250))
        base["kwargs"]["min_samples"] = min(
            base["kwargs"]["min_samples"], base["kwargs"]["nlive"] // 2)
        base["kwargs"].pop("n_initial", None)
        base["kwargs"].pop("max_samples", None)
        base["kwargs"]["training_config"] = {"max_epochs": 100,
                                             "patience": 10}
    else:
        base = draw(configs.standard_job(
            nlive=(40, 120), include_quantised=False,
            proposal_classes=["flowproposal"]))
        base["kwargs"]["max_iteration"] = draw(st.integers(300, 600))
    base["kills"] = []
    # three members besides the baseline: a window of the variant table
    # whose start is generated; run_groups() shifts the windows so that the
    # groups of one run cover the whole table
    start = draw(st.integers(0, len(VARIANTS) - 1))
    variants = [VARIANTS[(start + j) % len(VARIANTS)] for j in range(3)]
    return {"base": base, "variants": [{}] + variants}


def members(g):
    out = []
    for i, v in enumerate(g["variants"]):
        kw = dict(g["base"]["kwargs"])
        kw.update(v)
        job = {"model": g["base"]["model"], "ins": g["base"]["ins"],
               "kwargs": kw, "monitors": [],
               "post": ["repeat"] if i == 0 else ["digest"],
               # "in different processes": every member process has its own
               # string-hash randomisation (as unrelated interpreter
               # processes do), fixed per member so that the run is a
               # function of VERIF_SEED
               "env": {"PYTHONHASHSEED": 0 if i == 0 else 101 * i + 1}}
        if g["base"].get("direct"):
            # the sampler class is constructed and run without FlowSampler
            job["direct"] = True
        if v.get("__log__"):
            # the logging level is not part of the configuration of a run
            job["kwargs"] = {k: w for k, w in job["kwargs"].items()
                             if k != "__log__"}
            job["log_level"] = v["__log__"]
        if v.get("__prelude__"):
            # not a keyword argument: the member process first performs an
            # unrelated run of the other sampler
            job["kwargs"] = {k: w for k, w in job["kwargs"].items()
                             if k != "__prelude__"}
            job["prelude"] = True
        out.append(job)
    return out


def judge_group(ctx, g, reps, out):
    stats = out.stats
    classes = ["sampler:ins" if g["base"]["ins"] else "sampler:standard"]
    digests = []
    for v, r in zip(g["variants"], reps):
        if r.get("status") == "exception" and r.get("exc_in_harness"):
            raise HarnessError(r.get("traceback", ""))
        classes.append("variant:" + (",".join(sorted(v)) or "baseline"))
        if r.get("status") != "completed":
            classes.append("errored:%s@%s" % (r.get("exc_type"),
                                              r.get("exc_where")))
        classes.extend(r.get("classes") or [])
        digests.append((r.get("data") or {}).get("digest"))
        for viol in r.get("violations") or []:
            out.add(Violation(viol["key"], viol["msg"],
                              {"group": g}))
    done = [d for d in digests if d]
    ok = len(done) == len(reps)
    if ok:
        classes.append("all-members-completed")
        ref = done[0]
        for v, d in zip(g["variants"][1:], done[1:]):
            for k in ref:
                if d[k] != ref[k]:
                    out.add(Violation(
                        "parallel-setting-changes-result:%s:%s" % (
                            ",".join(sorted(v)), k),
                        f"{k}: baseline {ref[k]} vs member {v} (own process, "
                        f"own PYTHONHASHSEED): {d[k]}",
                        {"group": g}))
    real_pool = any(("n_pool" in v or "pool" in v) for v in g["variants"])
    trained = any(((r.get("result") or {}).get("n_trainings") or
                   (r.get("result") or {}).get("iteration") or 0) >= 1
                  for r in reps)
    stats.case({"base": g["base"]["kwargs"], "model": g["base"]["model"],
                "variants": g["variants"]},
               nontrivial=bool(ok and real_pool and trained), classes=classes,
               key=jhash(g["base"]), n=len(reps))


def run_groups(ctx, groups, tag):
    out = Outcome()
    hist = []
    for g in groups:
        for job in members(g):
            hist.append(runs.single(job))
    res = runs.run_histories(tag, hist)
    k = 0
    for g in groups:
        n = len(g["variants"])
        reps = [r[0] for r in res[k:k + n]]
        k += n
        judge_group(ctx, g, reps, out)
    return out


def run(ctx):
    n = 8 if ctx.quick else 60
    groups = configs.collect(group(), ctx.seed, n,
                             key=lambda g: g["base"])
    # windows of three consecutive table entries, shifted group by group:
    # six groups cover the table once
    for i, g in enumerate(groups):
        start = (3 * i + ctx.seed) % len(VARIANTS)
        g["variants"] = [{}] + [VARIANTS[(start + j) % len(VARIANTS)]
                                for j in range(3)]
    return run_groups(ctx, groups, "c14")


def health(ctx, stats):
    need = {"all-members-completed": 5, "repeated-in-process": 0}
    if not ctx.quick:
        need = {"all-members-completed": 40}
    return [f"class {k}: {stats.classes.get(k, 0)} < {v}"
            for k, v in need.items() if stats.classes.get(k, 0) < v]


def replay(ctx, case):
    return run_groups(ctx, [case["group"]], "c14r")
