"""C16 - posterior resampling follows the posterior weights.

Generator : Hypothesis.  Log-weight vectors of length 1..1e5 (a generated
            block of <= 200 values, tiled), styles flat / mild / wide /
            extreme (range up to 700 nats ~ 1e300) / ties / one-dominant,
            normalised or shifted by up to +-1e5, any number of -inf entries
            but at least one finite weight; requested sizes None, 0, 1..3N;
            methods rejection_sampling, multinomial_resampling and the alias
            importance_sampling; NumPy's global generator is seeded from a
            Hypothesis-drawn integer inside the case.
Oracles   : (a) membership: samples == nested_samples[indices] byte for byte,
            indices in range; (b) rejection: indices unique, every
            maximum-weight row kept, no -inf row kept; multinomial: exactly n
            draws, default floor(ESS) with ESS from an independent float-sum
            reference, no -inf row drawn; (c) effective_sample_size (function,
            _INSIntegralState / _NSIntegralState / base-class property) equals
            the reference, lies in [1, N], is invariant under a constant
            shift; (d) frequencies: inclusion / selection counts against the
            exact Binomial law, two-sided, Bonferroni-corrected.
"""
import logging
import math
import types

import numpy as np
from hypothesis import strategies as st

from ..core import Ctx, HarnessError, Outcome, Violation
from ..hyp import run_given
from ..par import run_shards

LEVEL = "exploration"
RULE = (
    "Hypothesis-generated log-weight vectors (block of <= 200 values tiled to "
    "length 1..1e5; styles flat, mild, wide, extreme (700 nats), ties, "
    "one-dominant; -inf entries; common shift up to +-1e5), both resampling "
    "methods plus the alias, requested sizes None/0/1..3N. Kinds: single "
    "call (membership, counts, determinism under the same seed), ess "
    "(function and integral-state properties), freq-repeat (<= 50 rows, R "
    "repeated calls), freq-tile (m <= 50 distinct weights x T copies, K "
    "calls), nlive (weights computed by nessai from logL and nlive), "
    "ins-method (ImportanceNestedSampler.draw_posterior_samples on a "
    "stand-in object), rolling-mean sanity. Non-trivial: at least two rows "
    "with different finite weights (and at least one draw requested for "
    "multinomial); distinct by hash of the whole case."
)
ALPHA_TOTAL = 1e-9
MAX_TESTS = 10**7
ALPHA_TEST = ALPHA_TOTAL / MAX_TESTS
ASSUMPTIONS = [
    "precondition: at least one finite log-weight, no NaN/+inf weights",
    "reference ESS = (sum w)^2 / sum w^2 with w = exp(logw - max) summed by "
    "math.fsum; tolerance on log(ESS): 16 ulp(M) + 16 (log2 N + 8) eps with "
    "M = max|logw| + |shift| + log N (rounding of the shifted and normalised "
    "log-weights, doubled by the square, plus the pairwise sums inside "
    "logsumexp); a bound, not tuned",
    "default multinomial size: any integer between floor(ESS_ref (1-tol)) "
    "and floor(ESS_ref (1+tol)) is accepted",
    f"binomial tests are exact (scipy.stats.binom cdf/sf), two-sided at "
    f"{ALPHA_TEST:g} each = {ALPHA_TOTAL:g} / {MAX_TESTS:g}; the run exits 2 "
    "if it performs more tests than that, so the total false-alarm "
    "probability over a run is below 1e-9",
    "np.random.rand draws on a 2^-53 grid that contains 0: acceptance "
    "probabilities differ from w/w_max by < 2^-52 (the upper-tail test uses "
    "max(p, 2^-53) for rows with a finite weight), far below the resolution "
    "of the tests",
    "in nlive mode the reference weights are L_i (X_{i-1}-X_i) with the "
    "documented shrinkage schedule, computed independently in float64; rows "
    "within 1e-9 of the maximum weight are only tested one-sidedly",
    "ImportanceNestedSampler.draw_posterior_samples is exercised as an "
    "unbound function on a stand-in object with the five attributes it "
    "reads, only for requests that yield at least one draw",
    "rolling_mean is not part of the property statement; only what follows "
    "from 'mean over a window of edge-padded data' is checked (length, "
    "bounds, constants, window 1)",
]
EPS = np.finfo(float).eps
METHODS = ["rejection_sampling", "multinomial_resampling",
           "importance_sampling"]


def _to_float(v):
    if isinstance(v, str):
        return {"-inf": -math.inf, "inf": math.inf, "nan": math.nan}[v]
    return float(v)


# ------------------------------------------------------------ references
def weights_vector(case):
    block = np.array([_to_float(v) for v in case["block"]], dtype=float)
    N = int(case["N"])
    reps = -(-N // len(block))
    return np.tile(block, reps)[:N].copy()


def ess_ref(lw):
    fin = lw[np.isfinite(lw)]
    m = fin.max()
    w = np.exp(fin - m)
    s1 = math.fsum(w)
    s2 = math.fsum(w * w)
    return s1 * s1 / s2


def ess_tol(lw, shift=0.0):
    fin = np.abs(lw[np.isfinite(lw)])
    N = len(lw)
    M = max(1.0, float(fin.max()) + abs(shift) + math.log(N))
    return 16 * np.spacing(M) + 16 * (math.log2(N) + 8) * EPS


def build_samples(N, case, offset=0.0):
    dt = np.dtype([("x0", "f8"), ("x1", "f8"), ("logP", "f8"),
                   ("logL", "f8"), ("logW", "f8"), ("it", "i4")])
    s = np.zeros(N, dtype=dt)
    s["x0"] = np.arange(N) + offset
    x1 = [_to_float(v) for v in case.get("x1", [0.5])]
    s["x1"] = np.tile(np.array(x1, dtype=float), -(-N // len(x1)))[:N]
    s["it"] = np.arange(N) % 7
    return s


def binom_bad(k, R, p, p_floor=None):
    """Indices whose count k is outside the exact two-sided binomial
    acceptance region at ALPHA_TEST.

    p_floor: lower bound on the true selection probability used for the
    upper tail only (rejection sampling compares with log(u), u on a 2^-53
    grid that contains 0, so a row with any finite weight is kept with
    probability >= 2^-53 even when w/w_max underflows)."""
    from scipy.stats import binom

    k = np.asarray(k)
    p = np.clip(np.asarray(p, dtype=float), 0.0, 1.0)
    p_up = p if p_floor is None else np.maximum(p, p_floor)
    lo = binom.cdf(k, R, p)
    hi = binom.sf(k - 1, R, p_up)
    return np.where((lo < ALPHA_TEST / 2) | (hi < ALPHA_TEST / 2))[0], lo, hi


def _floor(lw, method):
    if method != "rejection_sampling":
        return None
    return np.where(np.isfinite(lw), 2.0**-53, 0.0)


def ns_ref_log_weights(logL, nlive, expectation):
    N = len(logL)
    sched = np.full(N, float(nlive))
    sched[-nlive:] = np.arange(nlive, 0, -1, dtype=float)
    if expectation == "logt":
        logt = -1.0 / sched
    else:
        logt = -np.log1p(1.0 / sched)
    logX = np.concatenate([[0.0], np.cumsum(logt)])
    logdX = logX[:-1] + np.log1p(-np.exp(logt))
    return np.asarray(logL, dtype=float) + logdX


# ------------------------------------------------------------ predicates
def _call(case, samples, **kw):
    from nessai.posterior import draw_posterior_samples

    try:
        with np.errstate(all="ignore"):
            return draw_posterior_samples(samples, **kw)
    except Exception as e:
        raise Violation(
            f"{type(e).__name__}:draw_posterior_samples:{kw.get('method')}",
            f"{e!r}",
            case,
        )


def _membership(case, samples, res, idx, lw, method, n, tag="", shift=0.0):
    N = len(samples)
    idx = np.asarray(idx)
    if idx.ndim != 1 or not np.issubdtype(idx.dtype, np.integer):
        raise Violation(f"indices:dtype{tag}",
                        f"indices {idx.dtype} ndim {idx.ndim}", case)
    if len(idx) and (idx.min() < 0 or idx.max() >= N):
        raise Violation(f"indices:range{tag}",
                        f"[{idx.min()}, {idx.max()}] for N={N}", case)
    res = np.asarray(res)
    if res.dtype != samples.dtype or res.shape != idx.shape:
        raise Violation(
            f"samples:dtype-or-shape{tag}",
            f"{res.dtype} {res.shape} vs {samples.dtype} {idx.shape}", case)
    if res.tobytes() != samples[idx].tobytes():
        raise Violation(f"samples!=nested[indices]{tag}",
                        "returned rows are not the indexed rows", case)
    neg = np.isneginf(lw)
    if len(idx) and neg[idx].any():
        raise Violation(f"{method}:zero-weight-row-selected{tag}",
                        f"row {int(idx[neg[idx]][0])} has weight 0", case)
    if method == "rejection_sampling":
        if len(np.unique(idx)) != len(idx):
            raise Violation(f"rejection:duplicate-rows{tag}",
                            "a row was kept more than once", case)
        top = np.where(lw == lw.max())[0]
        missing = np.setdiff1d(top, idx)
        if len(missing):
            raise Violation(
                f"rejection:max-weight-row-dropped{tag}",
                f"row {int(missing[0])} has the maximum weight and was not "
                f"kept ({len(idx)} rows kept)", case)
    else:
        if n is not None:
            if len(idx) != n:
                raise Violation(f"multinomial:count!=n{tag}",
                                f"{len(idx)} draws, n={n}", case)
        else:
            e = ess_ref(lw)
            t = ess_tol(lw, shift)
            lo, hi = math.floor(e * (1 - t)), math.floor(e * (1 + t))
            if not lo <= len(idx) <= hi:
                raise Violation(
                    f"multinomial:default-count!=int(ess){tag}",
                    f"{len(idx)} draws, reference ESS {e!r}", case)


def check_single(case):
    lw = weights_vector(case)
    N = len(lw)
    samples = build_samples(N, case)
    before = samples.tobytes()
    method, n, seed = case["method"], case.get("n"), case["seed"]
    arg = lw.tolist() if case.get("as_list") else lw.copy()
    np.random.seed(seed)
    res, idx = _call(case, samples, log_w=arg, method=method, n=n,
                     return_indices=True)
    _membership(case, samples, res, idx, lw, method, n)
    np.random.seed(seed)
    res2 = _call(case, samples, log_w=lw.copy(), method=method, n=n,
                 return_indices=False)
    if np.asarray(res2).tobytes() != np.asarray(res).tobytes():
        raise Violation(
            "return_indices-changes-samples",
            "same seed, return_indices False/True give different samples",
            case)
    # supplied weights are used as they are, also when the caller passes the
    # number of live points along with them (documented precedence)
    np.random.seed(seed)
    res3 = _call(case, samples, log_w=lw.copy(), nlive=max(1, N // 2),
                 method=method, n=n, return_indices=False)
    if np.asarray(res3).tobytes() != np.asarray(res).tobytes():
        raise Violation(
            "supplied-weights-not-used-when-nlive-is-given",
            "same seed, log_w alone vs log_w together with nlive give "
            "different samples", case)
    if samples.tobytes() != before:
        raise Violation("nested-samples-modified", "input array changed",
                        case)
    return len(idx)


def _check_ess_value(case, got, lw, where, shift=0.0):
    N = len(lw)
    try:
        got = float(got)
    except Exception as e:
        raise Violation(f"ess:{where}:not-a-number", f"{e!r}", case)
    ref = ess_ref(lw)
    tol = ess_tol(lw, shift)
    if not (got == got) or not math.isfinite(got):
        raise Violation(f"ess:{where}:nonfinite", f"{got!r}", case)
    if not (1.0 * (1 - tol) <= got <= N * (1 + tol)):
        raise Violation(f"ess:{where}:outside-[1,N]",
                        f"{got!r} for N={N}", case)
    if abs(math.log(got) - math.log(ref)) > tol:
        raise Violation(
            f"ess:{where}!=reference",
            f"{got!r} vs {ref!r} (tol on log {tol:.3g})", case)
    return got


def check_ess(case):
    from nessai.evidence import _BaseNSIntegralState, _INSIntegralState
    from nessai.utils.stats import effective_sample_size

    lw = weights_vector(case)
    N = len(lw)
    c = float(case.get("shift") or 0.0)

    def call(f, where):
        try:
            with np.errstate(all="ignore"):
                return f()
        except Exception as e:
            raise Violation(f"{type(e).__name__}:{where}", f"{e!r}", case)

    arg = lw.tolist() if case.get("as_list") else lw.copy()
    e0 = _check_ess_value(
        case, call(lambda: effective_sample_size(arg),
                   "effective_sample_size"), lw, "function")
    if c:
        lws = lw + c
        e1 = call(lambda: effective_sample_size(lws),
                  "effective_sample_size")
        _check_ess_value(case, e1, lw, "function:shifted", c)
        if abs(math.log(float(e1)) - math.log(e0)) > 2 * ess_tol(lw, c):
            raise Violation(
                "ess:shift-variance",
                f"ESS(logw)={e0!r} ESS(logw+{c!r})={float(e1)!r}", case)

    # base-class property on a minimal concrete state
    class _State(_BaseNSIntegralState):
        log_evidence = 0.0
        log_evidence_error = 0.0

        def __init__(self, w):
            self._w = w

        @property
        def log_posterior_weights(self):
            return self._w.copy()

    s = _State(lw + c)
    _check_ess_value(
        case, call(lambda: s.effective_n_posterior_samples,
                   "effective_n_posterior_samples"), lw, "base-state", c)
    empty = _State(np.array([]))
    z = call(lambda: empty.effective_n_posterior_samples,
             "effective_n_posterior_samples")
    if z != 0:
        raise Violation("ess:base-state:empty!=0", f"{z!r}", case)

    # importance-sampler state: weights = logL + logW
    ns = build_samples(N, case)
    split = [_to_float(v) for v in case.get("split", [0.0])]
    part = np.tile(np.array(split), -(-N // len(split)))[:N]
    fin = np.isfinite(lw)
    ns["logL"] = np.where(fin, lw - part, -np.inf)
    ns["logW"] = np.where(fin, part, 0.0)
    eff = ns["logL"] + ns["logW"]  # what the state will see
    if np.isfinite(eff).any():
        st_ = _INSIntegralState()
        nlp = int(case.get("n_live", 0))
        if 0 < nlp < N:
            call(lambda: st_.update_evidence(ns[:-nlp], ns[-nlp:]),
                 "_INSIntegralState.update_evidence")
        else:
            call(lambda: st_.update_evidence(ns),
                 "_INSIntegralState.update_evidence")
        _check_ess_value(
            case, call(lambda: st_.effective_n_posterior_samples,
                       "effective_n_posterior_samples"), eff, "ins-state")
    return e0


def check_ns_state_ess(case):
    """ESS property of the standard integral state on its own weights."""
    from nessai.evidence import _NSIntegralState

    import pickle

    logL = np.cumsum([abs(_to_float(v)) for v in case["incs"]])
    nlive = int(case["nlive"])
    state = _NSIntegralState(nlive, track_gradients=False)
    # the effective sample size is a function of the current weights: it is
    # queried at generated positions during the accumulation (as a callback
    # or a monitoring user would), optionally followed by a pickle round trip
    # (checkpoint / resume), and every answer is compared with the Kish ESS
    # of the weights at that moment
    queries = set(int(q) % (len(logL) + 1) for q in case.get("queries") or [])
    queries.add(len(logL))
    try:
        with np.errstate(all="ignore"):
            for j in range(len(logL) + 1):
                if j in queries and j > 0:
                    w = np.array(state.log_posterior_weights, dtype=float)
                    got = state.effective_n_posterior_samples
                    _check_ess_value(case, got, w, "ns-state:during-accumulation"
                                     if j < len(logL) else "ns-state")
                    if case.get("persist"):
                        state = pickle.loads(pickle.dumps(state))
                if j < len(logL):
                    state.increment(float(logL[j]))
    except Violation:
        raise
    except Exception as e:
        raise Violation(f"{type(e).__name__}:_NSIntegralState",
                        f"{e!r}", case)


def check_freq_repeat(case, counter):
    lw = weights_vector(case)
    N = len(lw)
    samples = build_samples(N, case)
    method, n, R = case["method"], case.get("n"), int(case["R"])
    np.random.seed(case["seed"])
    counts = np.zeros(N, dtype=np.int64)
    total = 0
    for r in range(R):
        res, idx = _call(case, samples, log_w=lw, method=method, n=n,
                         return_indices=True)
        if r < 3 or r == R - 1:
            _membership(case, samples, res, idx, lw, method, n,
                        tag=":repeat")
        counts += np.bincount(idx, minlength=N)
        total += len(idx)
    fin = np.isfinite(lw)
    w = np.where(fin, np.exp(lw - lw[fin].max()), 0.0)
    if method == "rejection_sampling":
        p, trials = w, R
    else:
        p, trials = w / math.fsum(w), total
    bad, lo, hi = binom_bad(counts, trials, p, _floor(lw, method))
    counter["binomial_tests"] += N
    if len(bad):
        i = int(bad[0])
        raise Violation(
            f"frequency:{'rejection' if method == 'rejection_sampling' else 'multinomial'}:repeat",
            f"row {i}: selected {int(counts[i])} times in {trials} trials, "
            f"p={p[i]!r} (P(<=k)={lo[i]:.3g}, P(>=k)={hi[i]:.3g})",
            case)


def check_freq_tile(case, counter):
    block = np.array([_to_float(v) for v in case["block"]], dtype=float)
    m = len(block)
    T, K = int(case["T"]), int(case["K"])
    N = m * T
    lw = np.tile(block, T)
    samples = build_samples(N, case)
    method, n = case["method"], case.get("n")
    np.random.seed(case["seed"])
    counts = np.zeros(m, dtype=np.int64)
    total = 0
    for r in range(K):
        res, idx = _call(case, samples, log_w=lw, method=method, n=n,
                         return_indices=True)
        if r == 0:
            _membership(case, samples, res, idx, lw, method, n, tag=":tile")
        counts += np.bincount(np.asarray(idx) % m, minlength=m)
        total += len(idx)
    fin = np.isfinite(block)
    w = np.where(fin, np.exp(block - block[fin].max()), 0.0)
    if method == "rejection_sampling":
        p, trials = w, K * T
    else:
        p, trials = w / math.fsum(w), total
    bad, lo, hi = binom_bad(counts, trials, p, _floor(block, method))
    counter["binomial_tests"] += m
    if len(bad):
        i = int(bad[0])
        raise Violation(
            f"frequency:{'rejection' if method == 'rejection_sampling' else 'multinomial'}:tile",
            f"weight {i} ({block[i]!r}): selected {int(counts[i])} times in "
            f"{trials} trials, p={p[i]!r} (P(<=k)={lo[i]:.3g}, "
            f"P(>=k)={hi[i]:.3g})",
            case)


def check_nlive(case, counter):
    logL = np.cumsum([abs(_to_float(v)) for v in case["incs"]]) + _to_float(
        case.get("start", 0.0))
    N = len(logL)
    nlive = int(case["nlive"])
    exp = case["expectation"]
    samples = build_samples(N, case)
    samples["logL"] = logL
    method, R = case["method"], int(case["R"])
    ref = ns_ref_log_weights(logL, nlive, exp)
    w = np.exp(ref - ref.max())
    np.random.seed(case["seed"])
    counts = np.zeros(N, dtype=np.int64)
    total = 0
    n = case.get("n")
    for r in range(R):
        res, idx = _call(case, samples, nlive=nlive, method=method, n=n,
                         expectation=exp, return_indices=True)
        idx = np.asarray(idx)
        if r == 0:
            if np.asarray(res).tobytes() != samples[idx].tobytes():
                raise Violation("samples!=nested[indices]:nlive", "", case)
            if method != "rejection_sampling" and n is not None and \
                    len(idx) != n:
                raise Violation("multinomial:count!=n:nlive",
                                f"{len(idx)} draws, n={n}", case)
        counts += np.bincount(idx, minlength=N)
        total += len(idx)
    if method == "rejection_sampling":
        p, trials = w, R
    else:
        p, trials = w / math.fsum(w), total
    bad, lo, hi = binom_bad(counts, trials, p, _floor(ref, method))
    counter["binomial_tests"] += N
    # near-maximum rows: the implementation's own maximum may be a
    # different row when two weights agree to rounding; one-sided there
    near = (w > 1 - 1e-9) & (w < 1)
    bad = [i for i in bad if not (near[i] and method == "rejection_sampling"
                                  and hi[i] >= ALPHA_TEST / 2)]
    if len(bad):
        i = int(bad[0])
        raise Violation(
            f"frequency:{'rejection' if method == 'rejection_sampling' else 'multinomial'}:nlive",
            f"row {i}: selected {int(counts[i])} times in {trials} trials, "
            f"p={p[i]!r} (P(<=k)={lo[i]:.3g}, P(>=k)={hi[i]:.3g})", case)


def check_ins_method(case):
    from nessai.evidence import _INSIntegralState
    from nessai.samplers.importancesampler import ImportanceNestedSampler

    lw = weights_vector(case)
    N = len(lw)
    cur = build_samples(N, case, offset=0.0)
    fin_ = build_samples(N, case, offset=1e6)
    for s in (cur, fin_):
        s["logL"] = lw
        s["logW"] = 0.0
    # the two sets carry different weights: the final set reversed
    fin_["logL"] = lw[::-1]
    st_c, st_f = _INSIntegralState(), _INSIntegralState()
    if case.get("history") and N >= 2:
        # as in a run: while sampling the state is updated with the discarded
        # samples and the live points (two interleaved subsets of the sorted
        # store), and once more with all samples when the run is finalised
        mask = ((np.arange(N) * 7 + int(case["seed"])) % 3) == 0
        if mask.all() or not mask.any():
            mask[0] = not mask[0]
        st_c.update_evidence(cur[~mask], cur[mask])
    st_c.update_evidence(cur)
    st_f.update_evidence(fin_)
    # the weights the state reports belong to the samples, row by row
    with np.errstate(all="ignore"):
        w_state = np.asarray(st_c.log_posterior_weights, dtype=float)
        w_rows = (cur["logL"] + cur["logW"]) - float(st_c.log_evidence)
        same = (w_state == w_rows) | (
            np.abs(w_state - w_rows) <= 1e-9 * np.maximum(
                1.0, np.abs(w_rows))) if w_state.shape == w_rows.shape \
            else None
    if same is None or not np.all(same):
        raise Violation(
            "ins-state:posterior-weights-not-aligned-with-samples",
            "log_posterior_weights[i] != logL[i] + logW[i] - logZ for the "
            f"samples the state was last updated with (history="
            f"{bool(case.get('history'))})", case)
    have_final = bool(case.get("have_final"))
    use_final = bool(case.get("use_final"))
    obj = types.SimpleNamespace(
        final_samples_unit=fin_ if have_final else None,
        final_samples=fin_ if have_final else None,
        final_state=st_f if have_final else None,
        samples=cur,
        state=st_c,
    )
    method, n = case["method"], case.get("n")
    expect_final = use_final and have_final
    src = fin_ if expect_final else cur
    w_src = lw[::-1] if expect_final else lw
    # the state subtracts its log-evidence from the weights
    zshift = float(np.abs(lw[np.isfinite(lw)]).max()) + math.log(N)
    borderline = False
    if method != "rejection_sampling":
        if n is not None and n < 1:
            # the method computes max() over the drawn weights for a log
            # message: an explicit request for zero draws is outside what
            # is asserted here
            return "skipped-empty-draw"
        if n is None:
            e_ref, t = ess_ref(w_src), ess_tol(w_src, zshift)
            if math.floor(e_ref * (1 + t)) < 1:
                return "skipped-empty-draw"
            borderline = math.floor(e_ref * (1 - t)) < 1
    np.random.seed(case["seed"])
    try:
        with np.errstate(all="ignore"):
            res = ImportanceNestedSampler.draw_posterior_samples(
                obj, sampling_method=method, n=n,
                use_final_samples=use_final)
    except Exception as e:
        if borderline and isinstance(e, ValueError) and "zero-size" in str(e):
            return "borderline-empty-draw"
        raise Violation(
            f"{type(e).__name__}:ImportanceNestedSampler."
            f"draw_posterior_samples:{method}", f"{e!r}", case)
    res = np.asarray(res)
    if res.dtype != src.dtype:
        raise Violation("ins-method:dtype", f"{res.dtype}", case)
    off = 1e6 if expect_final else 0.0
    idx = res["x0"] - off
    if len(idx) and (
        (idx != np.floor(idx)).any() or idx.min() < 0 or idx.max() >= N
    ):
        raise Violation(
            "ins-method:wrong-sample-set",
            f"use_final_samples={use_final}, final samples "
            f"{'present' if have_final else 'absent'}: rows do not come "
            "from the expected set", case)
    idx = idx.astype(int)
    _membership(case, src, res, idx, w_src, method, n, tag=":ins-method",
                shift=zshift)
    return "ok"


def check_rolling(case):
    from nessai.utils.stats import rolling_mean

    x = np.array([_to_float(v) for v in case["x"]], dtype=float)
    W = int(case["window"])
    try:
        out = rolling_mean(x, N=W)
    except Exception as e:
        raise Violation(f"{type(e).__name__}:rolling_mean", f"{e!r}", case)
    out = np.asarray(out)
    tol = 4 * W * EPS * max(1e-300, float(np.abs(x).max()))
    if out.shape != x.shape:
        raise Violation("rolling_mean:length", f"{out.shape} vs {x.shape}",
                        case)
    if (out < x.min() - tol).any() or (out > x.max() + tol).any():
        raise Violation("rolling_mean:outside-data-range",
                        f"[{out.min()!r}, {out.max()!r}] vs "
                        f"[{x.min()!r}, {x.max()!r}]", case)
    if W == 1 and not np.array_equal(out, x):
        raise Violation("rolling_mean:window-1-not-identity", "", case)


def check_case(case, counter=None):
    from nessai import config

    counter = counter if counter is not None else {"binomial_tests": 0}
    # per-process state nessai keeps: registry, eps, global generator
    fresh = type(config.livepoints)()
    vars(config.livepoints).clear()
    vars(config.livepoints).update(vars(fresh))
    config.general.eps = 1e-8
    np.random.seed(int(case.get("seed", 0)) % (2**32))
    k = case["kind"]
    if k == "single":
        return check_single(case)
    if k == "ess":
        return check_ess(case)
    if k == "ns-state":
        return check_ns_state_ess(case)
    if k == "freq-repeat":
        return check_freq_repeat(case, counter)
    if k == "freq-tile":
        return check_freq_tile(case, counter)
    if k == "nlive":
        return check_nlive(case, counter)
    if k == "ins-method":
        return check_ins_method(case)
    if k == "rolling":
        return check_rolling(case)
    raise HarnessError(f"unknown kind {k}")


# ------------------------------------------------------------ generators
STYLES = {
    "flat": st.just(0.0),
    "mild": st.floats(-5.0, 0.0),
    "wide": st.floats(-50.0, 0.0),
    "extreme": st.floats(-700.0, 0.0),
    "ties": st.sampled_from([0.0, 0.0, -1.0, -3.0]),
    "dominant": st.one_of(st.floats(-800.0, -30.0), st.floats(-40.0, -20.0)),
}


@st.composite
def weight_block(draw, nb, styles=None):
    style = draw(st.sampled_from(sorted(styles or STYLES)))
    vals = draw(st.lists(STYLES[style], min_size=nb, max_size=nb))
    if style == "dominant":
        vals[draw(st.integers(0, nb - 1))] = 0.0
    ninf = min(draw(st.sampled_from([0, 0, 1, 2, nb // 2, nb - 1])), nb - 1)
    if ninf > 0:
        pos = draw(st.lists(st.integers(0, nb - 1), min_size=ninf,
                            max_size=ninf, unique=True))
        for p in pos:
            vals[p] = -math.inf
    norm = draw(st.sampled_from(["raw", "raw", "normalised", "shifted"]))
    if norm == "normalised":
        fin = [v for v in vals if math.isfinite(v)]
        mx = max(fin)
        lse = mx + math.log(math.fsum(math.exp(v - mx) for v in fin))
        vals = [v - lse for v in vals]
    elif norm == "shifted":
        c = draw(st.one_of(st.floats(-1e5, 1e5),
                           st.sampled_from([1e5, -1e5, 1e3, -745.0, 710.0])))
        vals = [v + c for v in vals]
    return vals, style, norm


_X1 = st.lists(
    st.one_of(st.floats(-10, 10), st.sampled_from(
        [math.nan, math.inf, -math.inf, 0.0, 1e308])),
    min_size=1, max_size=5,
)
_SEED = st.integers(0, 2**32 - 1)


@st.composite
def single_cases(draw, max_len):
    kind = draw(st.sampled_from(
        ["single"] * 5 + ["ess"] * 3 + ["ins-method"] * 2 + ["ns-state",
                                                              "rolling"]))
    if kind == "rolling":
        x = draw(st.lists(st.one_of(st.floats(-1e6, 1e6),
                                    st.floats(-1e300, 1e300)),
                          min_size=1, max_size=60))
        if draw(st.booleans()):
            x = [x[0]] * len(x)
        return {"kind": kind, "x": x,
                "window": draw(st.integers(1, 25))}
    if kind == "ns-state":
        nlive = draw(st.integers(1, 50))
        incs = draw(st.lists(st.one_of(st.floats(0, 3), st.just(0.0),
                                       st.floats(0, 1e-6)),
                             min_size=1, max_size=200))
        return {"kind": kind, "nlive": nlive, "incs": incs,
                "queries": draw(st.lists(st.integers(0, 400), max_size=3)),
                "persist": draw(st.booleans())}
    e = draw(st.floats(0, math.log10(max_len)))
    N = draw(st.one_of(st.integers(1, 12), st.integers(2, 80),
                       st.just(max(1, min(max_len, int(round(10 ** e)))))))
    if kind == "ins-method":
        N = min(N, 5000)
    nb = min(N, draw(st.sampled_from([3, 17, 50, 200])))
    block, style, norm = draw(weight_block(nb))
    case = {"kind": kind, "block": block, "N": N, "style": style,
            "norm": norm, "x1": draw(_X1)}
    if kind == "ess":
        case["shift"] = draw(st.one_of(
            st.just(0.0), st.floats(-1e5, 1e5),
            st.sampled_from([1.0, -745.0, 1e5, -1e5, 300.0])))
        case["as_list"] = draw(st.booleans())
        case["split"] = draw(st.lists(st.floats(-20, 20), min_size=1,
                                      max_size=4))
        case["n_live"] = draw(st.integers(0, 5))
        return case
    case["method"] = draw(st.sampled_from(METHODS))
    case["seed"] = draw(_SEED)
    case["n"] = draw(st.one_of(
        st.none(), st.none(), st.integers(0, 3),
        st.integers(0, min(3 * N, 20000))))
    if kind == "single":
        case["as_list"] = draw(st.booleans()) and N <= 2000
    else:
        case["have_final"] = draw(st.booleans())
        case["use_final"] = draw(st.booleans())
        case["history"] = draw(st.booleans())
    return case


@st.composite
def freq_cases(draw, R, tile_rows):
    kind = draw(st.sampled_from(["freq-repeat"] + ["freq-tile"] * 5 +
                                ["nlive"] * 2))
    method = draw(st.sampled_from(METHODS))
    seed = draw(_SEED)
    fstyles = {k: STYLES[k] for k in ("flat", "mild", "wide", "ties",
                                      "dominant", "extreme")}
    if kind == "nlive":
        nlive = draw(st.integers(1, 20))
        N = draw(st.integers(nlive, 50))
        incs = draw(st.lists(st.one_of(st.floats(0, 2), st.just(0.0)),
                             min_size=N, max_size=N))
        return {"kind": kind, "method": method, "seed": seed,
                "nlive": nlive, "incs": incs,
                "start": draw(st.floats(-50, 50)),
                "expectation": draw(st.sampled_from(["logt", "t"])),
                "n": None if method == "rejection_sampling" else draw(
                    st.one_of(st.none(), st.integers(1, 30))),
                "R": R // 4}
    m = draw(st.integers(1, 50))
    block, style, norm = draw(weight_block(m, fstyles))
    case = {"kind": kind, "method": method, "seed": seed, "block": block,
            "style": style, "norm": norm}
    if kind == "freq-repeat":
        case["N"] = m
        case["R"] = R
        case["n"] = None if method == "rejection_sampling" else draw(
            st.one_of(st.none(), st.integers(1, 3 * m)))
    else:
        T = max(1, tile_rows // m)
        case["T"] = T
        case["K"] = draw(st.integers(1, 4))
        case["n"] = None if method == "rejection_sampling" else draw(
            st.one_of(st.none(), st.integers(1, tile_rows)))
    return case


# ------------------------------------------------------------ statistics
def classify(case):
    k = case["kind"]
    cl = ["kind:" + k]
    if k == "rolling":
        return cl, False
    if k in ("ns-state",):
        return cl, len(case["incs"]) >= 2
    if "method" in case:
        cl.append("method:" + case["method"])
        if case["method"] != "rejection_sampling":
            cl.append("n:default" if case.get("n") is None else (
                "n:0" if case["n"] == 0 else "n:given"))
    if k == "nlive":
        return cl + ["expectation:" + case["expectation"]], len(
            case["incs"]) >= 2
    block = [_to_float(v) for v in case["block"]]
    fin = [v for v in block if math.isfinite(v)]
    cl.append("style:" + case.get("style", "?"))
    cl.append("norm:" + case.get("norm", "?"))
    if len(fin) < len(block):
        cl.append("has--inf")
    if len(fin) == 1 and len(block) > 1:
        cl.append("single-finite-weight")
    N = case.get("N", len(block) * case.get("T", 1))
    if N == 1:
        cl.append("N=1")
    if N >= 10**4:
        cl.append("N>=1e4")
    if max(fin) - min(fin) >= 600:
        cl.append("range>=600")
    if max(abs(v) for v in fin) >= 1e3:
        cl.append("offset>=1e3")
    if fin.count(max(fin)) > 1:
        cl.append("ties-at-max")
    if k == "ess" and case.get("shift"):
        cl.append("shifted")
    nontrivial = len(set(fin)) >= 2 and N >= 2 and not (
        case.get("method") in METHODS[1:] and case.get("n") == 0
    )
    return cl, nontrivial


def _brief(case):
    d = {k: v for k, v in case.items() if k not in ("block", "incs", "x1",
                                                    "x", "split")}
    for k in ("block", "incs", "x"):
        if k in case:
            d[k + "_len"] = len(case[k])
            d[k + "_head"] = case[k][:4]
    return d


def shard(seed, n_single, n_freq, R, tile_rows, max_len):
    logging.getLogger("nessai").setLevel(logging.CRITICAL)
    ctx = Ctx("C16", "quick", seed)
    out = Outcome()
    stats = out.stats
    counter = {"binomial_tests": 0}

    def body(case):
        cl, nt = classify(case)
        try:
            r = check_case(case, counter)
        except Violation as v:
            stats.case(_brief(case), nontrivial=nt, classes=cl)
            if ctx.known(v.key):
                stats.excluded_known[v.key] += 1
                return
            raise
        if case["kind"] == "single" and case["method"] != METHODS[0] and \
                case.get("n") is None:
            e = ess_ref(weights_vector(case))
            if e - math.floor(e) >= 0.5:
                cl.append("default-n:ess-fraction>=.5")
            if r == 0:
                cl.append("default-n:zero-draws")
        if r in ("skipped-empty-draw", "borderline-empty-draw"):
            cl.append("ins-method:" + r)
            nt = False
        stats.case(_brief(case), nontrivial=nt, classes=cl)

    for v in run_given(body, single_cases(max_len), seed, n_single):
        out.add(v)
    if not out.violations:
        for v in run_given(body, freq_cases(R, tile_rows), seed + 7, n_freq,
                           shrink=False):
            out.add(v)
    stats.extra["binomial_tests"] = counter["binomial_tests"]
    return out


def run(ctx):
    if ctx.quick:
        kw = dict(n_single=400, n_freq=40, R=4000, tile_rows=100000,
                  max_len=10**5)
    else:
        kw = dict(n_single=8000, n_freq=600, R=4000, tile_rows=200000,
                  max_len=10**5)
    kws = [dict(seed=ctx.seed * 1000 + i, **kw) for i in range(16)]
    out = run_shards("vf.checks.c16", "shard", kws)
    out.stats.extra["alpha_per_test"] = ALPHA_TEST
    out.stats.extra["max_tests"] = MAX_TESTS
    return out


def health(ctx, stats):
    probs = []
    if stats.extra.get("binomial_tests", 0) > MAX_TESTS:
        probs.append(
            f"{stats.extra['binomial_tests']} binomial tests exceed the "
            f"Bonferroni budget {MAX_TESTS}")
    need = {
        "kind:single": 100, "kind:ess": 100, "kind:ins-method": 50,
        "kind:ns-state": 20, "kind:freq-repeat": 20, "kind:freq-tile": 100,
        "kind:nlive": 20, "kind:rolling": 20,
        "method:rejection_sampling": 100,
        "method:multinomial_resampling": 100,
        "method:importance_sampling": 100,
        "n:default": 50, "n:given": 50, "n:0": 5,
        "has--inf": 100, "N=1": 10, "N>=1e4": 20, "range>=600": 20,
        "offset>=1e3": 50, "ties-at-max": 50, "shifted": 50,
        "norm:normalised": 50, "default-n:ess-fraction>=.5": 10,
        "style:extreme": 50, "style:dominant": 50,
    }
    probs += [
        f"class {c} has only {stats.classes.get(c, 0)} cases (< {m})"
        for c, m in need.items()
        if stats.classes.get(c, 0) < m
    ]
    return probs


def replay(ctx, case):
    logging.getLogger("nessai").setLevel(logging.CRITICAL)
    try:
        check_case(case)
    except Violation as v:
        return [v]
    return []
