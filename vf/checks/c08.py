"""C08 - flow and proposal densities are consistent with their samples and
normalised.

Generator : Hypothesis over flow configurations (RealNVP / MAF / NSF, blocks,
            layers, neurons, linear transforms, batch-norm / actnorm, masks,
            nets, volume preserving, pre-transforms, base distributions,
            float32 / float64), weight states (fresh, trained 3-5 epochs,
            reset_model with each flag combination, retrained) and batches of
            points; FlowProposal with each latent prior and a small set of
            reparameterisations; ImportanceFlowProposal after 1-3 trainings.
Oracles   : inverse(forward(x)) ~ x and forward(inverse(z)) ~ z;
            log|det forward| = -log|det inverse|;
            density returned with a sample == log_prob at that sample;
            FlowModel (numpy level) == reference assembled from the torch
            model's transform and base distribution (closed-form latent
            densities where they exist);
            2-D: the density integrates to one (Riemann sum over the image
            of a latent grid, polygon areas: independent of the
            implementation's own Jacobians);
            FlowProposal.backward_pass log_q / z == forward_pass at the same
            physical point after removing the latent log-density actually
            used; ImportanceFlowProposal.draw log_q rows ==
            compute_meta_proposal_samples == per-flow log_prob + closed-form
            rescaling Jacobian, update_log_q reproduces the last column.
"""
import logging
import math
import os
import shutil
import tempfile

import numpy as np
from hypothesis import strategies as st

from ..core import Outcome, Violation
from ..hyp import run_given
from ..par import run_shards

LEVEL = "exploration"
RULE = (
    "Hypothesis-generated cases of three kinds. flow: a flow configuration "
    "(ftype realnvp/maf/nsf, n_inputs 2-6, blocks 1-4, layers 1-2, neurons "
    "2-16, activation, linear_transform None/permutation/lu/svd, batch norm "
    "between/within, actnorm, 1-D/2-D masks, net resnet/mlp, volume "
    "preserving, pre_transform logit/batch_norm, base distribution "
    "default/mvn(var)/lars/uniform, MAF residual/random masks/random "
    "permutations, NSF bins/tail bound/unconditional transform), dtype "
    "float32/float64, weight state fresh / trained 3-5 epochs / reset_model "
    "with each (weights, permutations) combination / retrained, optional "
    "evaluation before training, a batch of 1-64 points inside the support "
    "(|z|<=4, |x|<=3 or the unit box for logit / uniform). fp: FlowProposal "
    "on a 2-4 parameter box model, latent prior in {truncated_gaussian, "
    "gaussian, uniform_nsphere, uniform_nball, uniform, flow}, "
    "reparameterisation in {zscore, null, rescaletobounds, logit, scale}, "
    "fresh or trained flow. ifp: ImportanceFlowProposal with logit/None "
    "after 1-3 train calls, weighted or not, reset_flow False/True/2, draws "
    "from the last or an earlier flow. All torch/numpy seeds are drawn by "
    "Hypothesis. Non-trivial: at least 2 coupling/autoregressive blocks "
    "(coupling nets are randomly initialised, hence never the identity); "
    "distinct by hash of the whole case."
)
ASSUMPTIONS = [
    "tolerance for round trips / density consistency (mixed forward-"
    "backward criterion): |a-b| <= tol * (max(1,|a|,|b|) + S) with tol = "
    "1e-4 (float32, ~840 ulp) or 1e-9 (float64) and S the first-order change "
    "of the compared quantity under a unit relative perturbation of the "
    "point it is evaluated at, S = sum_k |d q/d p_k| max(1,|p_k|), measured "
    "by central differences (h = 1e-6) on a float64 copy of the same "
    "weights. I.e. a discrepancy is tolerated iff a relative perturbation "
    "of 1e-4 (1e-9) of the intermediate point explains it; measured on the "
    "unchanged tree: <= 2e-6 (float32) of that bound. The float64 copy is "
    "used for conditioning only, never as the expected value",
    "array-level vs torch-level agreement uses 64 ulp of the dtype: the two "
    "sides execute the same kernels on the same inputs",
    "2-D normalisation: Riemann sum of exp(FlowModel.log_prob) over the "
    "curvilinear partition of the data space formed by the images of the "
    "cells of a regular 400x400 latent grid on [-5 sd, 5 sd]^2 (mass "
    "outside <= 1.2e-6; the unit box for the uniform base), cell areas by "
    "the shoelace formula, density at the image of the cell centre (no "
    "reported log-determinant is used); cells across which the map is "
    "strongly non-linear (image of the centre off the mean of the corners "
    "by > 10% of the diameter) are left out and their latent mass (bounded "
    "with the closed-form base density) is added to the tolerance; "
    "tolerance 2e-2 (5e-2 for LARS whose constant is a Monte-Carlo "
    "estimate); asserted only when the left-out mass is <= 2e-3, the "
    "200x200 and 400x400 sums differ by <= 5e-3 (+ left-out masses) and the "
    "cells carrying all but 1e-3 of the latent mass are wider than 64 ulp "
    "of the flow's dtype, otherwise counted inconclusive",
    "LARS: the first evaluation of a flow whose constant is unset is a batch "
    "of 2048 points; the normalisation oracle is asserted only when "
    "8*cv/sqrt(2048) < 5e-2 (cv = relative spread of the acceptance function "
    "under the base, computed by quadrature)",
    "logit pre-transform: generated points closer than 2e-6 to a face of "
    "the unit box (glasflow clamps at 1e-6, float32 sigmoids saturate) are "
    "not compared",
    "samples whose latent image lies within 1e-3 of the boundary of a "
    "uniform base distribution are not compared (discontinuous density); "
    "the uniform base is not combined with volume-preserving couplings (the "
    "training loss is then constant and torch's backward() raises)",
    "FlowProposal: r, alt_dist and the latent prior are prepared exactly as "
    "populate() prepares them; the population loop itself belongs to C09; "
    "returned points within 1e-6 (relative) of a face of the prior box or "
    "with non-finite log_q (sigmoid saturation in float64) are not compared",
    "ImportanceFlowProposal: training samples are unit-hypercube points as "
    "passed by the importance sampler; returned points within 1e-6 of the "
    "faces of the unit cube are not compared (logit condition number); a "
    "draw() that needs more than 200 batches (barely trained flow with no "
    "mass in the unit cube) is abandoned and counted inconclusive",
    "flows containing glasflow BatchNorm layers whose running_var is still "
    "the initial 0 (eval-mode gain 316 per layer, relative condition number "
    "up to 1e10): the round-trip clauses are asserted literally, without the "
    "conditioning allowance S, because there the ill-conditioning does not "
    "come from a learned or configured map but from an initial constant and "
    "is itself the defect (nessai's own reset_weights sets the value to 1); "
    "any numeric clause failing in that state is reported under "
    "fresh-batchnorm:not-invertible (one root cause)",
]

RT_TOL = {"float32": 1e-4, "float64": 1e-9}
K_BN = "fresh-batchnorm:not-invertible"
K_SVD = "linear_transform=svd:nan"
K_LARS = "lars:after-reset:normalisation"
GRID_N = 400


# ------------------------------------------------------------------ helpers
def _reset_globals(seed):
    """Process-global state nessai / torch keep; reset for every case."""
    import torch
    from nessai import config
    from nessai.livepoint import reset_extra_live_points_parameters

    reset_extra_live_points_parameters()
    config.general.eps = 1e-8
    torch.set_default_dtype(torch.float32)
    torch.set_num_threads(1)
    torch.manual_seed(int(seed))
    np.random.seed(int(seed) % (2**32))


def _seed(seed):
    import torch

    torch.manual_seed(int(seed))
    np.random.seed(int(seed) % (2**32))


def _eps(dtype):
    return 1.1920929e-07 if dtype == "float32" else 2.220446049250313e-16


def _maxerr(a, b, sens=None):
    """Largest |a-b| / (max(1,|a|,|b|) + sens); equal infinities count as
    equal; a NaN or unequal infinities give inf.  `sens` (same shape, >= 0)
    is the first-order change of the quantity under a unit relative
    perturbation of the point it is evaluated at (see ASSUMPTIONS)."""
    a = np.asarray(a, dtype=float)
    b = np.asarray(b, dtype=float)
    if a.shape != b.shape:
        return math.inf, f"shape {a.shape} vs {b.shape}"
    if a.size == 0:
        return 0.0, ""
    with np.errstate(invalid="ignore"):
        same = a == b
        den = np.maximum(1.0, np.maximum(np.abs(a), np.abs(b)))
        if sens is not None:
            sens = np.asarray(sens, dtype=float)
            den = den + np.where(np.isnan(sens), np.inf, sens)
        d = np.abs(a - b) / den
    d = np.where(same, 0.0, d)
    d = np.where(np.isnan(d), np.inf, d)
    i = int(np.argmax(d))
    return float(d.ravel()[i]), (
        f"index {i}: {a.ravel()[i]!r} vs {b.ravel()[i]!r}"
    )


class _Checker:
    """Collects the context needed to raise keyed violations."""

    def __init__(self, case, prefix=None):
        self.case = case
        self.prefix = prefix
        self.n_assert = 0

    def key(self, k):
        return k

    def close(self, key, a, b, tol, what="", sens=None):
        self.n_assert += 1
        err, why = _maxerr(a, b, sens)
        if not err <= tol:
            raise Violation(
                self.key(key),
                f"{what or key}: rel.err {err:.3g} > {tol:.3g} ({why})",
                self.case,
            )
        return err

    def finite(self, key, a, what=""):
        self.n_assert += 1
        a = np.asarray(a, dtype=float)
        if not np.isfinite(a).all():
            n = int((~np.isfinite(a)).sum())
            raise Violation(
                self.key(key),
                f"{what or key}: {n}/{a.size} non-finite values "
                f"(NaN: {int(np.isnan(a).sum())})",
                self.case,
            )


MAX_DRAW_BATCHES = 200


class _Starved(Exception):
    """ImportanceFlowProposal.draw did not fill its quota within
    MAX_DRAW_BATCHES batches (harness guard, not a violation)."""


def _nessai(name, case, fn, *a, **kw):
    """Call into nessai; an exception on accepted input is a violation."""
    try:
        return fn(*a, **kw)
    except (Violation, _Starved):
        raise
    except Exception as e:  # noqa: BLE001 - conversion is the point
        raise Violation(
            f"exception:{type(e).__name__}@{name}",
            f"{name} raised {type(e).__name__}: {str(e)[:300]}",
            case,
        )


# ---------------------------------------------------------- flow: building
_LEARNABLE = None


def _learnable_class():
    """A user-defined base distribution with learnable parameters (diagonal
    normal): `distribution` accepts a Distribution class or instance."""
    global _LEARNABLE
    if _LEARNABLE is None:
        import torch
        from glasflow.nflows.distributions import Distribution

        class LearnableNormal(Distribution):
            def __init__(self, shape):
                super().__init__()
                self._shape = torch.Size(shape)
                d = int(self._shape[0])
                self.loc = torch.nn.Parameter(torch.zeros(1, d))
                self.log_scale = torch.nn.Parameter(torch.zeros(1, d))

            def _log_prob(self, inputs, context):
                u = (inputs - self.loc) * torch.exp(-self.log_scale)
                d = int(self._shape[0])
                return (-0.5 * torch.sum(u * u, dim=1)
                        - torch.sum(self.log_scale)
                        - 0.5 * d * math.log(2 * math.pi))

            def _sample(self, num_samples, context):
                eps = torch.randn(num_samples, int(self._shape[0]),
                                  dtype=self.loc.dtype,
                                  device=self.loc.device)
                return self.loc + torch.exp(self.log_scale) * eps

        _LEARNABLE = LearnableNormal
    return _LEARNABLE


def _flow_config(case):
    cfg = dict(case["cfg"])
    if cfg.get("mask") is not None:
        cfg["mask"] = np.array(cfg["mask"], dtype=float)
    dist = cfg.get("distribution")
    if dist == "vf:learnable-instance":
        cfg["distribution"] = _learnable_class()(
            [int(cfg.get("n_inputs") or case["dims"])])
    elif dist == "vf:learnable-class":
        cfg["distribution"] = _learnable_class()
    return cfg


def _training_config(case):
    return dict(
        max_epochs=int(case.get("epochs", 3)),
        patience=20,
        batch_size=int(case.get("batch_size", 100)),
        val_size=float(case.get("val_size", 0.1)),
    )


def _unit_data(cfg):
    """Does the flow live on the unit box in data space?"""
    return cfg.get("pre_transform") == "logit"


def _training_data(case, n=240):
    cfg = case["cfg"]
    d = cfg["n_inputs"]
    rs = np.random.RandomState(case["seed"] % (2**32))
    a = np.eye(d) + 0.3 * rs.randn(d, d)
    x = rs.randn(n, d) @ a + 0.5 * rs.randn(d)
    if _unit_data(cfg):
        x = 1.0 / (1.0 + np.exp(-x))
        x = np.clip(x, 1e-3, 1 - 1e-3)
    return x


def _points(case):
    """Points inside the support: data-space batch and latent batch."""
    cfg = case["cfg"]
    d = cfg["n_inputs"]
    b = int(case["batch"])
    rs = np.random.RandomState((case["seed"] + 1) % (2**32))
    if _unit_data(cfg):
        x = rs.uniform(0.02, 0.98, (b, d))
    else:
        x = rs.uniform(-3.0, 3.0, (b, d))
    if cfg.get("distribution") == "uniform":
        z = rs.uniform(0.05, 0.95, (b, d))
    else:
        sd = math.sqrt(_base_var(cfg))
        z = rs.randn(b, d)
        r = np.sqrt((z**2).sum(axis=1, keepdims=True))
        z = sd * z * np.minimum(1.0, 4.0 / np.maximum(r, 1e-12))
    return x, z


def _interior(cfg, x):
    """Rows of x usable for inverse -> forward comparisons.  With the logit
    pre-transform the data space is the unit box; glasflow clamps inputs to
    [1e-6, 1 - 1e-6] and float32 sigmoids saturate to exactly 0 or 1, so a
    generated point closer than 2e-6 to a face is outside the invertible
    domain."""
    if not _unit_data(cfg):
        return np.ones(len(x), dtype=bool)
    return (np.minimum(x, 1 - x) > 2e-6).all(axis=1)


def _base_var(cfg):
    if cfg.get("distribution") == "mvn":
        return float((cfg.get("distribution_kwargs") or {}).get("var", 1))
    return 1.0


def _has_fresh_batchnorm(model):
    """glasflow BatchNorm layers whose running variance is still the
    initial 0 (eval-mode scale 1/sqrt(eps) ~ 316 per layer)."""
    from glasflow.nflows.transforms import BatchNorm

    n = 0
    for m in model.modules():
        if isinstance(m, BatchNorm) and float(m.running_var.abs().max()) == 0:
            n += 1
    return n


def _is_lars(model):
    from glasflow.distributions import ResampledGaussian

    return isinstance(model._distribution, ResampledGaussian)


def _svd_degenerate(cfg):
    """nessai hard-codes num_householder=10; glasflow initialises the
    Householder vectors from eye(5, features): zero rows when features < 5."""
    return cfg.get("linear_transform") == "svd" and cfg["n_inputs"] < 5


def _build_flow(case, out):
    """Create the FlowModel and bring it to the requested weight state.

    Returns (fm, info)."""
    from nessai.flowmodel import FlowModel

    cfg = _flow_config(case)
    state = case["state"]
    fm = _nessai(
        "FlowModel.__init__", case, FlowModel,
        flow_config=cfg, training_config=_training_config(case), output=out,
    )
    _nessai("FlowModel.initialise", case, fm.initialise)
    info = {"lars_reset": False}
    x0, _ = _points(case)
    if case.get("pre_eval"):
        _nessai(
            "FlowModel.forward_and_log_prob", case,
            fm.forward_and_log_prob, _first_batch(case, fm, x0),
        )
    if state == "fresh":
        return fm, info
    data = _training_data(case)
    if _svd_degenerate(case["cfg"]):
        # training on NaN outputs is pointless; the fresh state shows it
        return fm, info
    _nessai("FlowModel.train", case, fm.train, data, plot=False)
    if state == "trained":
        return fm, info
    # what happened between the training and the reset: nothing, or the flow
    # was used in one direction only (density evaluation / sampling)
    used = case.get("used_before_reset")
    if used == "forward":
        _nessai("FlowModel.forward_and_log_prob", case,
                fm.forward_and_log_prob, _first_batch(case, fm, x0))
    elif used == "inverse":
        _seed(case["seed"] + 5)
        _nessai("FlowModel.sample_and_log_prob", case,
                fm.sample_and_log_prob, N=16)
    w, p = {
        "reset:none": (False, False),
        "reset:w": (True, False),
        "reset:p": (False, True),
        "reset:wp": (True, True),
        "retrained": (True, False),
    }[state]
    _nessai(
        "FlowModel.reset_model", case, fm.reset_model,
        weights=w, permutations=p,
    )
    if state == "retrained":
        _nessai("FlowModel.train", case, fm.train, data, plot=False)
    elif w and not p:
        info["lars_reset"] = True
    return fm, info


def _first_batch(case, fm, x):
    """LARS sets an unset normalisation constant from the first batch it
    sees: make that batch large (see ASSUMPTIONS)."""
    if fm.model is not None and _is_lars(fm.model):
        rs = np.random.RandomState((case["seed"] + 2) % (2**32))
        d = case["cfg"]["n_inputs"]
        if _unit_data(case["cfg"]):
            return rs.uniform(0.02, 0.98, (2048, d))
        return rs.uniform(-3, 3, (2048, d))
    return x


# ----------------------------------------------------------- flow: oracles
def _std_normal_logpdf(z, var=1.0):
    d = z.shape[1]
    return -0.5 * (z**2).sum(axis=1) / var - 0.5 * d * math.log(
        2 * math.pi * var
    )


def _ref_forward(model, x, dtype):
    """Reference assembled from the pieces of the torch model."""
    import torch

    xt = torch.from_numpy(np.ascontiguousarray(x)).type(dtype)
    model.eval()
    with torch.no_grad():
        z, lj = model._transform(xt)
        lb = model._distribution.log_prob(z)
    return (
        z.numpy().astype(np.float64),
        lj.numpy().astype(np.float64),
        lb.numpy().astype(np.float64),
    )


def _ref_inverse(model, z, dtype):
    import torch

    zt = torch.from_numpy(np.ascontiguousarray(z)).type(dtype)
    model.eval()
    with torch.no_grad():
        x, lj = model._transform.inverse(zt)
        lb = model._distribution.log_prob(zt)
    return (
        x.numpy().astype(np.float64),
        lj.numpy().astype(np.float64),
        lb.numpy().astype(np.float64),
    )


class _Twin:
    """float64 copy of a flow (same weights), used ONLY to measure how
    strongly the outputs react to a perturbation of the evaluation point
    (central differences): the conditioning that enters the tolerance."""

    def __init__(self, model, unit_box=False):
        import copy

        # data space restricted to [0, 1]^d (logit pre-transform)
        self.unit_box = unit_box
        self.m = copy.deepcopy(model).double()
        self.m.train()  # drops cached float32 LU factors
        self.m.eval()

    def _eval(self, which, p):
        import torch

        if which == "F":
            z, lj, lb = _ref_forward(self.m, p, torch.float64)
            return z, lj, lb + lj
        x, lj, _ = _ref_inverse(self.m, p, torch.float64)
        return x, lj, lj

    def sens(self, which, p):
        """For the map F: x -> (z, log|det|, log p) or I: z -> (x, log|det|)
        return S_point[n, d], S_logdet[n], S_logp[n] with
        S = sum_k |d out / d p_k| * max(1, |p_k|)."""
        p = np.asarray(p, dtype=np.float64)
        n, d = p.shape
        s_pt = np.zeros((n, d))
        s_lj = np.zeros(n)
        s_lp = np.zeros(n)
        with np.errstate(all="ignore"):
            for k in range(d):
                sc = np.maximum(1.0, np.abs(p[:, k]))
                h = 1e-6 * sc
                e = np.zeros_like(p)
                e[:, k] = h
                pa, pb = p + e, p - e
                if which == "F" and self.unit_box:
                    pa, pb = np.clip(pa, 0.0, 1.0), np.clip(pb, 0.0, 1.0)
                a = self._eval(which, pa)
                b = self._eval(which, pb)
                w = sc / (pa[:, k] - pb[:, k])
                s_pt += np.abs(a[0] - b[0]) * w[:, None]
                s_lj += np.abs(a[1] - b[1]) * w
                s_lp += np.abs(a[2] - b[2]) * w
        fix = lambda v: np.where(np.isfinite(v), v, np.inf)  # noqa: E731
        return fix(s_pt), fix(s_lj), fix(s_lp)


def check_flow(case):
    """Plain predicate for kind == 'flow'. Returns a dict of measurements,
    raises Violation."""
    import torch

    _reset_globals(case["seed"])
    dname = case["dtype"]
    dtype = torch.float64 if dname == "float64" else torch.float32
    old = torch.get_default_dtype()
    out = tempfile.mkdtemp(prefix="vf-c08-")
    try:
        torch.set_default_dtype(dtype)
        return _check_flow(case, out, dname, dtype)
    finally:
        torch.set_default_dtype(old)
        shutil.rmtree(out, ignore_errors=True)


def _check_flow(case, out, dname, dtype):
    import torch

    cfg = case["cfg"]
    d = cfg["n_inputs"]
    tol = RT_TOL[dname]
    exact = 64 * _eps(dname)
    ck = _Checker(case)
    meas = {}

    fm, info = _build_flow(case, out)
    model = fm.model
    x, z0 = _points(case)
    uniform = cfg.get("distribution") == "uniform"
    var = _base_var(cfg)

    # evaluation always precedes anything else (sets eval mode, and an unset
    # LARS constant from a large batch)
    _seed(case["seed"] + 11)
    _nessai(
        "FlowModel.forward_and_log_prob", case, fm.forward_and_log_prob,
        _first_batch(case, fm, x),
    )
    n_bn = _has_fresh_batchnorm(model)
    meas["fresh_bn_layers"] = n_bn

    # ---- 0. the weights file a training leaves behind holds the trained
    # flow: a second FlowModel that loads it (what a resumed run does)
    # reports the same latent points and densities
    wf = getattr(fm, "weights_file", None)
    if case["state"] in ("trained", "retrained") and wf and \
            os.path.exists(wf) and not _svd_degenerate(cfg):
        from nessai.flowmodel import FlowModel

        fm2 = _nessai(
            "FlowModel.__init__", case, FlowModel,
            flow_config=_flow_config(case),
            training_config=_training_config(case),
            output=os.path.join(out, "reloaded"),
        )
        _nessai("FlowModel.load_weights", case, fm2.load_weights, wf)
        za, lpa = _nessai("FlowModel.forward_and_log_prob", case,
                          fm.forward_and_log_prob, x)
        zb, lpb = _nessai("FlowModel.forward_and_log_prob", case,
                          fm2.forward_and_log_prob, x)
        ck.close("reloaded-weights:forward", zb, za, exact,
                 "latent points from a FlowModel that loaded the weights "
                 "file written by train() vs the trained FlowModel")
        if cfg.get("distribution") != "uniform":
            ck.close("reloaded-weights:log_prob", lpb, lpa, exact,
                     "log_prob from a FlowModel that loaded the weights file "
                     "written by train() vs the trained FlowModel")
        meas["reloaded"] = True

    # ---- 1. finite values and round trip in the data space
    z, lp = _nessai(
        "FlowModel.forward_and_log_prob", case, fm.forward_and_log_prob, x
    )
    if _svd_degenerate(cfg) and np.isnan(z).all():
        raise Violation(
            K_SVD,
            f"linear_transform='svd' with n_inputs={d} < 5: forward() is NaN "
            "for every input (create_linear_transform passes "
            "num_householder=10; glasflow builds the Householder vectors "
            "from eye(5, features), leaving zero vectors -> 2/0)",
            case,
        )
    why_bn = (
        f" [{n_bn} glasflow BatchNorm layer(s) with running_var == 0: "
        "eval-mode scale 1/sqrt(eps) = 316 per layer]" if n_bn else ""
    )
    ck.finite(K_BN if n_bn else "nan:forward", z,
              "latent points from forward_and_log_prob" + why_bn)
    if not uniform:
        ck.finite(K_BN if n_bn else "nan:log_prob", lp,
                  "log_prob from forward_and_log_prob" + why_bn)
    twin = _Twin(model, unit_box=_unit_data(cfg))
    zr, ljf, lbf = _ref_forward(model, x, dtype)
    xr, lji, _ = _ref_inverse(model, zr, dtype)
    rt_key, lj_key, rtz_key = "roundtrip:x", "roundtrip:logdet", "roundtrip:z"
    if n_bn:
        rt_key = lj_key = rtz_key = K_BN
    s_x, s_lj, _ = twin.sens("I", zr)
    if n_bn:
        # the conditioning allowance absorbs the conditioning of a learned /
        # structured map; here the ill-conditioning (1e10 for four layers) is
        # produced by an initial constant and IS the defect: literal reading
        s_x = s_lj = None
    meas["rt_x"] = ck.close(
        rt_key, xr, x, tol, "inverse(forward(x)) vs x" + why_bn, sens=s_x
    )
    ck.close(
        lj_key, ljf, -lji, tol,
        "log|det forward|(x) vs -log|det inverse|(forward(x))" + why_bn,
        sens=s_lj,
    )
    # ---- 2. round trip from the latent space
    x1, lji1, lb1 = _ref_inverse(model, z0, dtype)
    ck.finite(rtz_key if n_bn else "nan:inverse", x1, "inverse(z)" + why_bn)
    z1, ljf1, _ = _ref_forward(model, x1, dtype)
    s_z, s_lj, _ = twin.sens("F", x1)
    if n_bn:
        s_z = s_lj = None
    in1 = _interior(cfg, x1)
    meas["rt_z"] = ck.close(
        rtz_key, z1[in1], z0[in1], tol,
        "forward(inverse(z)) vs z" + why_bn,
        sens=None if s_z is None else s_z[in1],
    )
    ck.close(
        lj_key, ljf1[in1], -lji1[in1], tol,
        "log|det forward|(inverse(z)) vs -log|det inverse|(z)" + why_bn,
        sens=None if s_lj is None else s_lj[in1],
    )

    # ---- 3. array level == torch level
    ck.close("flowmodel!=model:forward_and_log_prob:z", z, zr, exact)
    ck.close("flowmodel!=model:forward_and_log_prob:log_prob", lp,
             lbf + ljf, exact)
    lp2 = _nessai("FlowModel.log_prob", case, fm.log_prob, x)
    ck.close("flowmodel!=model:log_prob", lp2, lbf + ljf, exact)
    # supplied latent points, base distribution
    xs, lps = _nessai(
        "FlowModel.sample_and_log_prob(z)", case, fm.sample_and_log_prob,
        z=z0.copy(),
    )
    ck.close("flowmodel!=model:sample_and_log_prob(z):x", xs, x1, exact)
    ck.close("flowmodel!=model:sample_and_log_prob(z):log_prob", lps,
             lb1 - lji1, exact)
    if cfg.get("distribution") in (None, "mvn"):
        # closed-form latent density: log_prob == latent_logpdf(z) - log|J|
        ck.close(
            "sample_and_log_prob(z)!=latent_logpdf-logdet",
            lps, _std_normal_logpdf(z0, var) - lji1, tol,
        )
    elif uniform:
        ck.close(
            "sample_and_log_prob(z)!=latent_logpdf-logdet",
            lps, 0.0 - lji1, tol,
        )
    # supplied latent points, alternative distribution (as FlowProposal does)
    from nessai.utils import get_uniform_distribution

    r_alt = 4.5 * math.sqrt(var) if not uniform else 1.0
    alt = get_uniform_distribution(d, r_alt, device=fm.device)
    xa, lpa = _nessai(
        "FlowModel.sample_and_log_prob(z,alt_dist)", case,
        fm.sample_and_log_prob, z=z0.copy(), alt_dist=alt,
    )
    ck.close("flowmodel!=model:sample_and_log_prob(z,alt):x", xa, x1, exact)
    ck.close(
        "sample_and_log_prob(z,alt_dist)!=alt_logpdf-logdet",
        lpa, -d * math.log(2 * r_alt) - lji1, tol,
    )
    # tensor input is accepted as well
    xt_, lpt_ = _nessai(
        "FlowModel.sample_and_log_prob(z:tensor)", case,
        fm.sample_and_log_prob,
        z=torch.from_numpy(z0.copy()).type(dtype),
    )
    ck.close("flowmodel!=model:sample_and_log_prob(z:tensor)", lpt_, lps,
             exact)
    # stochastic methods: same generator state, same draws
    n = int(case["n_sample"])
    s = case["seed"] + 101
    _seed(s)
    xs1, lps1 = _nessai(
        "FlowModel.sample_and_log_prob(N)", case, fm.sample_and_log_prob, N=n
    )
    _seed(s)
    with torch.no_grad():
        xm, lpm = model.sample_and_log_prob(n)
    ck.close("flowmodel!=model:sample_and_log_prob(N):x", xs1,
             xm.numpy().astype(np.float64), exact)
    ck.close("flowmodel!=model:sample_and_log_prob(N):log_prob", lps1,
             lpm.numpy().astype(np.float64), exact)
    _seed(s)
    xs2 = _nessai("FlowModel.sample", case, fm.sample, n)
    _seed(s)
    with torch.no_grad():
        xm2 = model.sample(n)
    ck.close("flowmodel!=model:sample", xs2, xm2.numpy().astype(np.float64),
             exact)
    _seed(s)
    zs = _nessai(
        "FlowModel.sample_latent_distribution", case,
        fm.sample_latent_distribution, n,
    )
    _seed(s)
    with torch.no_grad():
        zm = model._distribution.sample(n)
    ck.close("flowmodel!=model:sample_latent_distribution", zs,
             zm.numpy().astype(np.float64), exact)
    if xs1.shape != (n, d) or lps1.shape != (n,):
        raise Violation(
            "shape:sample_and_log_prob",
            f"shapes {xs1.shape}, {lps1.shape} for N={n}, d={d}", case,
        )

    # ---- 4. density reported with a sample == log_prob at that sample
    key4 = K_BN if n_bn else "sample-density!=log_prob"
    ck.finite(K_BN if n_bn else "nan:sample", xs1,
              "samples from sample_and_log_prob" + why_bn)
    lp_at = _nessai("FlowModel.log_prob", case, fm.log_prob, xs1)
    keep = _interior(cfg, xs1)
    if uniform:
        zz, _ = fm.forward_and_log_prob(xs1)
        keep &= (np.minimum(zz, 1 - zz) > 1e-3).all(axis=1)
    meas["n_density_points"] = int(keep.sum())
    _, _, s_lp = twin.sens("F", xs1)
    meas["density"] = ck.close(
        key4, lps1[keep], lp_at[keep], tol,
        "log-density returned by sample_and_log_prob vs log_prob(sample)"
        + why_bn, sens=s_lp[keep],
    )
    # same for the supplied latent points
    lp_at1 = _nessai("FlowModel.log_prob", case, fm.log_prob, xs)
    _, _, s_lp = twin.sens("F", xs)
    ck.close(
        key4, lps[in1], lp_at1[in1], tol,
        "sample_and_log_prob(z=..) density vs log_prob at the returned point"
        + why_bn, sens=s_lp[in1],
    )

    # ---- 5. two dimensions: the density integrates to one
    if d == 2 and case.get("grid", True):
        res = _integrate_2d(case, fm, model, dtype, var, uniform, twin)
        meas.update(res)
        if res["grid_status"] == "ok":
            lars = _is_lars(model)
            tol_i = (5e-2 if lars else 2e-2) + res["grid_left_out_mass"]
            key5 = "normalisation:2d"
            extra = ""
            if lars and info["lars_reset"]:
                key5 = K_LARS
                extra = (
                    " [LARS base distribution after reset_model(weights="
                    "True): acceptance network reset but the normalisation "
                    f"constant kept: norm={res['lars_norm']:.4f}, "
                    f"E[acceptance]={res['lars_z']:.4f}]"
                )
            elif n_bn:
                key5 = K_BN
                extra = why_bn
            ck.n_assert += 1
            if not abs(res["grid_integral"] - 1.0) <= tol_i:
                raise Violation(
                    key5,
                    f"2-D density integrates to {res['grid_integral']:.4f} "
                    f"(coarse grid {res['grid_coarse']:.4f}, tolerance "
                    f"{tol_i:.3g})" + extra,
                    case,
                )
    meas["n_assert"] = ck.n_assert
    return meas


def _lars_stats(model, dtype):
    """E[acc] and its relative spread under the base Gaussian (quadrature on
    a 2-D grid; 2-D only)."""
    import torch

    dist = model._distribution
    g = np.linspace(-7, 7, 281)
    h = g[1] - g[0]
    zz = np.stack(np.meshgrid(g, g, indexing="ij"), -1).reshape(-1, 2)
    w = np.exp(_std_normal_logpdf(zz)) * h * h
    with torch.no_grad():
        acc = dist.acceptance_fn(
            torch.from_numpy(zz).type(dtype)
        ).numpy().astype(np.float64)[:, 0]
    m = float((w * acc).sum())
    v = float((w * (acc - m) ** 2).sum())
    return m, math.sqrt(max(v, 0.0)) / m, float(dist.norm)


def _integrate_2d(case, fm, model, dtype, var, uniform, twin):
    """Riemann sum of the reported density over a curvilinear partition of
    the data space: the images of the cells of a regular latent grid under
    the (float64 twin's) inverse map.  Cell areas are polygon areas
    (shoelace formula) and the density is taken at the image of the cell's
    latent centre, so no reported log-determinant enters; any continuous
    injective mesh generator would do.

    Cells whose image is far from a parallelogram (image of the centre away
    from the mean of the corners by > 10% of the cell diameter: the map is
    strongly non-linear across the cell, e.g. spline slopes of 1e3 in the
    tails) are left out; their latent mass is added to the tolerance."""
    res = {"grid_status": "ok"}
    lars = _is_lars(model)
    dens_bound = 1.0  # latent density <= dens_bound * Gaussian density
    if lars:
        m, cv, norm = _lars_stats(model, dtype)
        res.update(lars_z=m, lars_cv=cv, lars_norm=norm)
        # the constant in use was estimated from >= 2048 draws
        if not 8 * cv / math.sqrt(2048) < 5e-2 or not norm > 0:
            res["grid_status"] = "inconclusive:lars-cv"
            return res
        dens_bound = max(1.0, 1.0 / norm)
    n = GRID_N
    if uniform:
        g = np.linspace(0.0, 1.0, n + 1)
    else:
        rad = 5.0 * math.sqrt(var)  # mass outside the square <= 1.2e-6
        g = np.linspace(-rad, rad, n + 1)
    gc = 0.5 * (g[:-1] + g[1:])

    def image(u, v):
        zz = np.stack(np.meshgrid(u, v, indexing="ij"), -1).reshape(-1, 2)
        xx = np.concatenate([
            twin._eval("I", zz[k:k + 40000])[0]
            for k in range(0, len(zz), 40000)
        ])
        return zz, xx.reshape(len(u), len(v), 2)

    _, xn = image(g, g)
    zcc, xc = image(gc, gc)
    if not (np.isfinite(xn).all() and np.isfinite(xc).all()):
        res["grid_status"] = "inconclusive:mesh-nonfinite"
        return res
    eps_d = _eps("float64" if str(dtype).endswith("64") else "float32")
    h = g[1] - g[0]

    def riemann(q, cen, zcen, hh):
        a, b, c, d_ = q[:-1, :-1], q[1:, :-1], q[1:, 1:], q[:-1, 1:]
        area = 0.5 * np.abs(
            (a[..., 0] * b[..., 1] - b[..., 0] * a[..., 1])
            + (b[..., 0] * c[..., 1] - c[..., 0] * b[..., 1])
            + (c[..., 0] * d_[..., 1] - d_[..., 0] * c[..., 1])
            + (d_[..., 0] * a[..., 1] - a[..., 0] * d_[..., 1])
        ).reshape(-1)
        diam = np.maximum(
            np.abs(c - a).max(axis=-1), np.abs(d_ - b).max(axis=-1)
        ).reshape(-1)
        mean_c = (0.25 * (a + b + c + d_)).reshape(-1, 2)
        cen = cen.reshape(-1, 2)
        bad = np.abs(cen - mean_c).max(axis=-1) > 0.1 * diam
        # cells must be resolvable in the flow's dtype
        under = diam < 64 * eps_d * np.maximum(1.0, np.abs(cen).max(axis=-1))
        if twin.unit_box:
            # data space [0, 1]^d behind a logit: a point closer to a face
            # than ~1e3 eps is not representable well enough for its density
            # to be evaluated (1 - x carries a relative error eps / (1 - x));
            # the mass the flow puts there cannot be integrated in its dtype
            under = under | (np.minimum(cen, 1.0 - cen).min(axis=-1)
                             < 1024 * eps_d)
        wz = (np.ones(len(zcen)) if uniform else np.exp(
            _std_normal_logpdf(zcen, var))) * hh * hh * dens_bound
        lp = np.concatenate([
            fm.log_prob(cen[k:k + 40000]) for k in range(0, len(cen), 40000)
        ])
        with np.errstate(over="ignore", invalid="ignore"):
            mass = np.exp(lp) * area
        return mass, bad, under, wz

    try:
        m1, bad1, und1, wz1 = riemann(xn, xc, zcc, h)
        # coarse mesh: 2x2 blocks; their latent centres are fine-mesh nodes
        zc0 = np.stack(
            np.meshgrid(g[1::2], g[1::2], indexing="ij"), -1
        ).reshape(-1, 2)
        m0, bad0, _, wz0 = riemann(xn[::2, ::2], xn[1::2, 1::2], zc0, 2 * h)
    except Exception as e:  # noqa: BLE001
        raise Violation(
            f"exception:{type(e).__name__}@FlowModel.log_prob(grid)",
            f"log_prob on a grid raised {type(e).__name__}: {str(e)[:200]}",
            case,
        )
    res["grid_unresolved_mass"] = float(wz1[und1].sum())
    if res["grid_unresolved_mass"] > 1e-3:
        res["grid_status"] = "inconclusive:resolution"
        return res
    left1, left0 = float(wz1[bad1].sum()), float(wz0[bad0].sum())
    res["grid_left_out_mass"] = left1
    if left1 > 2e-3:
        res["grid_status"] = "inconclusive:mesh-distortion"
        return res
    if np.isnan(m1[~bad1]).any() or np.isnan(m0[~bad0]).any():
        if _has_fresh_batchnorm(model):
            res["grid_status"] = "inconclusive:fresh-bn-nan"
            return res
        raise Violation(
            "nan:log_prob(grid)",
            f"{int(np.isnan(m1[~bad1]).sum())} NaN densities on the mesh "
            "inside the image of the latent square", case,
        )
    i1, i0 = float(m1[~bad1].sum()), float(m0[~bad0].sum())
    res.update(grid_integral=i1, grid_coarse=i0)
    if not math.isfinite(i1) or not abs(i1 - i0) <= 5e-3 + left1 + left0:
        res["grid_status"] = "inconclusive:quadrature"
    return res


# ----------------------------------------------------------- FlowProposal
def _make_model(bounds):
    from nessai.model import Model

    class BoxModel(Model):
        def __init__(self, bounds):
            self.names = [f"x_{i}" for i in range(len(bounds))]
            self.bounds = {
                n: [float(b[0]), float(b[1])]
                for n, b in zip(self.names, bounds)
            }

        def log_prior(self, x):
            log_p = np.log(self.in_bounds(x), dtype="float")
            for n in self.names:
                log_p -= np.log(self.bounds[n][1] - self.bounds[n][0])
            return log_p

        def log_likelihood(self, x):
            return np.sum(-0.5 * (self.unstructured_view(x) ** 2), axis=-1)

        def to_unit_hypercube(self, x):
            x_out = x.copy()
            for n in self.names:
                x_out[n] = (x[n] - self.bounds[n][0]) / (
                    self.bounds[n][1] - self.bounds[n][0]
                )
            return x_out

        def from_unit_hypercube(self, x):
            x_out = x.copy()
            for n in self.names:
                x_out[n] = (
                    self.bounds[n][1] - self.bounds[n][0]
                ) * x[n] + self.bounds[n][0]
            return x_out

    return BoxModel(bounds)


def _fp_reparams(case, names):
    r = case["reparam"]
    if r == "zscore":
        return None, "zscore"
    if r == "null":
        return None, None
    if r == "scale":
        return {"scale": {"parameters": list(names), "scale": 2.5}}, "zscore"
    if r == "mixed":
        return {names[0]: "logit"}, "zscore"
    return r, "zscore"  # rescaletobounds / logit as a string


def check_fp(case):
    import torch

    _reset_globals(case["seed"])
    dname = case["dtype"]
    dtype = torch.float64 if dname == "float64" else torch.float32
    old = torch.get_default_dtype()
    out = tempfile.mkdtemp(prefix="vf-c08-")
    try:
        torch.set_default_dtype(dtype)
        return _check_fp(case, out, dname, dtype)
    finally:
        torch.set_default_dtype(old)
        shutil.rmtree(out, ignore_errors=True)


def _check_fp(case, out, dname, dtype):
    import torch
    from nessai.proposal import FlowProposal

    tol = RT_TOL[dname]
    ck = _Checker(case)
    meas = {}
    model = _make_model(case["bounds"])
    d = model.dims
    reparams, fallback = _fp_reparams(case, model.names)
    lp_name = case["latent_prior"]
    cvm = bool(case["constant_volume_mode"])
    fp = _nessai(
        "FlowProposal.__init__", case, FlowProposal, model,
        flow_config=dict(case["cfg"]),
        training_config=_training_config(case),
        output=out, poolsize=100, plot=False, latent_prior=lp_name,
        constant_volume_mode=cvm,
        volume_fraction=float(case["volume_fraction"]),
        expansion_fraction=case["expansion_fraction"],
        fuzz=float(case["fuzz"]),
        reparameterisations=reparams,
        fallback_reparameterisation=fallback,
    )
    _seed(case["seed"] + 3)
    _nessai("FlowProposal.initialise", case, fp.initialise)
    _seed(case["seed"] + 5)
    live = model.new_point(N=int(case["n_live"]))
    live["logP"] = model.batch_evaluate_log_prior(live)
    live["logL"] = model.batch_evaluate_log_likelihood(live)
    if case["state"] == "trained":
        _nessai("FlowProposal.train", case, fp.train, live, plot=False)
    else:
        # what train() does before touching the flow
        _nessai("FlowProposal.check_state", case, fp.check_state, live)
    n_bn = _has_fresh_batchnorm(fp.flow.model)
    meas["fresh_bn_layers"] = n_bn
    why_bn = (
        f" [{n_bn} glasflow BatchNorm layer(s) with running_var == 0]"
        if n_bn else ""
    )

    # latent contour exactly as populate() prepares it
    if fp.fixed_radius:
        r = fp.fixed_radius
    else:
        worst = live[np.argmin(live["logL"])]
        wz, _ = _nessai(
            "FlowProposal.forward_pass", case, fp.forward_pass, worst,
            rescale=True, compute_radius=True,
        )
        r = fp.radius(wz)
        if not np.isfinite(r):
            raise Violation(
                K_BN if n_bn else "nan:forward_pass(worst)",
                f"latent radius of the worst point is {r!r}" + why_bn, case,
            )
        if fp.max_radius and r > fp.max_radius:
            r = fp.max_radius
        if fp.min_radius and r < fp.min_radius:
            r = fp.min_radius
    fp.r = float(r)
    fp.alt_dist = _nessai(
        "FlowProposal.get_alt_distribution", case, fp.get_alt_distribution
    )
    _nessai("FlowProposal.prep_latent_prior", case, fp.prep_latent_prior)
    _seed(case["seed"] + 7)
    z = _nessai(
        "FlowProposal.draw_latent_prior", case, fp.draw_latent_prior,
        int(case["n_draw"]),
    )
    meas["r"] = float(r)
    x, log_q, zk = _nessai(
        "FlowProposal.backward_pass", case, fp.backward_pass, z,
        rescale=True, return_z=True,
    )
    meas["n_kept"] = int(len(x))
    if len(x) == 0:
        meas["n_assert"] = ck.n_assert
        return meas
    if not (len(zk) == len(x) == len(log_q)):
        raise Violation(
            "backward_pass:lengths",
            f"x {len(x)}, log_q {len(log_q)}, z {len(zk)}", case,
        )
    # points returned must lie inside the prior bounds
    if not model.in_bounds(x).all():
        raise Violation("backward_pass:out-of-bounds",
                        "returned points outside the prior bounds", case)
    # points that saturated onto a face of the prior box (sigmoid of a large
    # x' in float64) carry an infinite Jacobian: not comparable
    xu = np.stack([
        (x[n] - model.bounds[n][0]) / (model.bounds[n][1] - model.bounds[n][0])
        for n in model.names
    ], -1)
    ok = np.isfinite(log_q) & (np.minimum(xu, 1 - xu) > 1e-6).all(axis=1)
    meas["n_compared"] = int(ok.sum())
    if not ok.any():
        meas["n_assert"] = ck.n_assert
        return meas
    x, log_q, zk = x[ok], log_q[ok], np.asarray(zk)[ok]
    zf, log_qf = _nessai(
        "FlowProposal.forward_pass", case, fp.forward_pass, x,
        rescale=True, compute_radius=False,
    )
    key_z = K_BN if n_bn else "proposal:backward!=forward:z"
    key_q = K_BN if n_bn else "proposal:backward!=forward:log_q"
    ck.finite(K_BN if n_bn else "nan:forward_pass", zf,
              "latent points from forward_pass" + why_bn)
    x2, log_j = _nessai("FlowProposal.rescale", case, fp.rescale, x)
    x2a = np.stack([x2[n] for n in fp.prime_parameters], -1).astype(float)
    twin = _Twin(fp.flow.model)
    s_z, s_lj, _ = twin.sens("F", x2a)
    if n_bn:
        s_z = s_lj = None  # see _check_flow
    meas["fp_z"] = ck.close(
        key_z, zf, zk, tol,
        "latent point recovered by forward_pass vs the one passed to "
        "backward_pass" + why_bn, sens=s_z,
    )
    # latent log-density actually used by backward_pass
    if fp.alt_dist is not None:
        rr = fp.r * fp.fuzz
        used = np.full(len(zk), -d * math.log(2 * rr))
        inside = (np.abs(zk) <= rr).all(axis=1)
        used = np.where(inside, used, -np.inf)
    else:
        used = _std_normal_logpdf(np.asarray(zk, dtype=float))
    base_f = _std_normal_logpdf(zf)
    # Jacobian parts (flow x reparameterisation) must agree
    meas["fp_q"] = ck.close(
        key_q, log_q - used, log_qf - base_f, tol,
        "log_q(backward_pass) - latent_logpdf_used(z) vs "
        "log_q(forward_pass) - base_logpdf(z)" + why_bn, sens=s_lj,
    )
    # without the rescaling both reduce to the flow alone
    xp, log_qp = _nessai(
        "FlowProposal.backward_pass(rescale=False)", case,
        fp.backward_pass, np.asarray(zk), rescale=False,
    )
    zf2, log_qf2 = _nessai(
        "FlowProposal.forward_pass(rescale=False)", case, fp.forward_pass,
        xp, rescale=False,
    )
    ck.close(key_q, log_qp - used, log_qf2 - _std_normal_logpdf(zf2), tol,
             "prime space: backward log_q vs forward log_q (reduced)"
             + why_bn, sens=s_lj)
    # the reparameterisation Jacobian is exactly the difference
    ck.close(
        "proposal:forward_pass!=flow+rescale-jacobian",
        log_qf, fp.flow.log_prob(x2a) + log_j, 64 * _eps(dname) + 1e-12,
        "forward_pass log_q vs flow log_prob + log|J rescale|",
    )
    meas["n_assert"] = ck.n_assert
    del torch
    return meas


# ------------------------------------------------- ImportanceFlowProposal
def check_ifp(case):
    import torch

    _reset_globals(case["seed"])
    dname = case["dtype"]
    dtype = torch.float64 if dname == "float64" else torch.float32
    old = torch.get_default_dtype()
    out = tempfile.mkdtemp(prefix="vf-c08-")
    try:
        torch.set_default_dtype(dtype)
        return _check_ifp(case, out, dname, dtype)
    finally:
        torch.set_default_dtype(old)
        from nessai.livepoint import reset_extra_live_points_parameters

        reset_extra_live_points_parameters()
        shutil.rmtree(out, ignore_errors=True)


def _check_ifp(case, out, dname, dtype):
    from scipy.special import logsumexp
    from nessai.livepoint import add_extra_parameters_to_live_points
    from nessai.proposal.importance import ImportanceFlowProposal

    add_extra_parameters_to_live_points(["logQ", "logW", "logU"])
    tol = RT_TOL[dname]
    ck = _Checker(case)
    meas = {}
    d = int(case["dims"])
    model = _make_model([[-5.0, 5.0]] * d)
    reparam = case["reparam"]
    ifp = _nessai(
        "ImportanceFlowProposal.__init__", case, ImportanceFlowProposal,
        model, out, flow_config=_flow_config(case),
        training_config=_training_config(case),
        reparameterisation=reparam, weighted_kl=bool(case["weighted_kl"]),
        reset_flow=case["reset_flow"], clip=bool(case["clip"]),
    )
    _seed(case["seed"] + 3)
    _nessai("ImportanceFlowProposal.initialise", case, ifp.initialise)
    rs = np.random.RandomState((case["seed"] + 4) % (2**32))
    n_train = int(case["n_train"])
    earlier = []
    for i in range(n_train):
        _seed(case["seed"] + 20 + i)
        samples = model.sample_unit_hypercube(int(case["n_live"]))
        # concentrate successive levels as the sampler would
        c = 0.5 + 0.2 * (rs.rand(d) - 0.5)
        w = 0.5 / (i + 1)
        for j, n in enumerate(model.names):
            samples[n] = np.clip(c[j] + w * (samples[n] - 0.5), 1e-3, 1 - 1e-3)
        samples["logW"] = rs.randn(samples.size) * 0.3
        kw = {}
        if case["explicit_weights"]:
            kw["weights"] = np.exp(samples["logW"])
        _nessai(
            "ImportanceFlowProposal.train", case, ifp.train, samples,
            max_epochs=int(case["epochs"]), **kw,
        )
        wraw = np.array(case["weights"][: i + 2], dtype=float)
        wraw = wraw / wraw.sum()
        _nessai(
            "ImportanceFlowProposal.update_proposal_weights", case,
            ifp.update_proposal_weights,
            {j - 1: float(wraw[j]) for j in range(i + 2)},
        )
        if i < n_train - 1 and case.get("draw_each_level"):
            # what the sampler does at every level: draw from the newest
            # proposal and store the per-proposal densities with the samples
            _seed(case["seed"] + 40 + i)
            calls = [0]
            sample_ith = ifp.flow.sample_ith

            def counted_level(*a, _c=calls, _f=sample_ith, **kw):
                _c[0] += 1
                if _c[0] > MAX_DRAW_BATCHES:
                    raise _Starved()
                return _f(*a, **kw)

            ifp.flow.sample_ith = counted_level
            try:
                xe, lqe = _nessai(
                    "ImportanceFlowProposal.draw", case, ifp.draw, 8)
                earlier.append((i, xe.copy(), np.array(lqe, copy=True)))
            except _Starved:
                pass
            finally:
                del ifp.flow.sample_ith
    weights = ifp.weights_array
    n_prop = n_train + 1
    flow_number = None
    if case["flow_number"] is not None:
        flow_number = int(case["flow_number"]) % n_train
    _seed(case["seed"] + 9)
    # draw() loops until enough points fall inside the unit cube; a barely
    # trained flow may put none there.  Count the batches (no clock) and give
    # up: such a case says nothing about densities.
    calls = [0]
    sample_ith = ifp.flow.sample_ith

    def counted(*a, **kw):
        calls[0] += 1
        if calls[0] > MAX_DRAW_BATCHES:
            raise _Starved()
        return sample_ith(*a, **kw)

    ifp.flow.sample_ith = counted
    try:
        x, log_q = _nessai(
            "ImportanceFlowProposal.draw", case, ifp.draw,
            int(case["n_draw"]), flow_number=flow_number,
        )
    except _Starved:
        meas["starved"] = True
        meas["n_assert"] = ck.n_assert
        return meas
    finally:
        del ifp.flow.sample_ith
    meas["n_kept"] = int(len(x))
    if log_q.shape != (len(x), n_prop):
        raise Violation("draw:shape", f"log_q shape {log_q.shape}, "
                        f"{len(x)} samples, {n_prop} proposals", case)
    xu = np.stack([x[n] for n in model.names], -1).astype(float)
    ok = (np.minimum(xu, 1 - xu) > 1e-6).all(axis=1)
    meas["n_compared"] = int(ok.sum())
    if not ok.any():
        meas["n_assert"] = ck.n_assert
        return meas
    ck.finite("nan:draw:log_q", log_q[ok][:, 1:][np.isfinite(
        log_q[ok][:, 1:]) | np.isnan(log_q[ok][:, 1:])], "log_q from draw")
    # (i) the same points evaluated again
    log_Q2, log_q2 = _nessai(
        "ImportanceFlowProposal.compute_meta_proposal_samples", case,
        ifp.compute_meta_proposal_samples, x,
    )
    # closed form of the rescaling and its Jacobian
    if reparam == "logit":
        xprime = np.log(xu) - np.log1p(-xu)
        log_j = (-np.log(xu) - np.log1p(-xu)).sum(axis=1)
    else:
        xprime = xu.copy()
        log_j = np.zeros(len(xu))
    ref = np.zeros((len(xu), n_prop))
    sens = np.zeros((len(xu), n_prop))
    for i in range(n_train):
        _, ljf, lbf = _ref_forward(ifp.flow.models[i], xprime, dtype)
        ref[:, i + 1] = lbf + ljf + log_j
        sens[:, i + 1] = _Twin(ifp.flow.models[i]).sens("F", xprime)[2]
    sens_q = sens.max(axis=1)
    meas["ifp_q"] = ck.close(
        "importance:draw!=compute_meta_proposal_samples:log_q",
        log_q[ok], log_q2[ok], tol,
        "log_q rows returned by draw vs compute_meta_proposal_samples",
        sens=sens[ok],
    )
    ck.close(
        "importance:draw!=compute_meta_proposal_samples:logQ",
        x["logQ"][ok], log_Q2[ok], tol,
        "logQ field set by draw vs compute_meta_proposal_samples",
        sens=sens_q[ok],
    )
    # (ii) flow density in x' plus Jacobian of the rescaling
    ck.close(
        "importance:log_q!=flow+rescale-jacobian", log_q[ok], ref[ok], tol,
        "log_q rows from draw vs flow_i.log_prob(x') + log|J rescale| "
        "(column 0: initial proposal, 0)", sens=sens[ok],
    )
    ck.close(
        "importance:logQ!=logsumexp(weights)",
        x["logQ"][ok], logsumexp(ref[ok], b=weights, axis=1), tol,
        "logQ vs logsumexp of the per-proposal densities with the weights",
        sens=sens_q[ok],
    )
    ck.close("importance:logW!=logU-logQ", x["logW"], x["logU"] - x["logQ"],
             1e-12)
    # (iii) update_log_q appends the current proposal's column
    upd = _nessai(
        "ImportanceFlowProposal.update_log_q", case, ifp.update_log_q,
        x, log_q[:, :-1].copy(),
    )
    if upd.shape != log_q.shape:
        raise Violation("update_log_q:shape", f"{upd.shape} vs {log_q.shape}",
                        case)
    ck.close("importance:update_log_q:last-column", upd[ok][:, -1],
             log_q[ok][:, -1], tol,
             "column appended by update_log_q vs last column from draw",
             sens=sens[ok][:, -1])
    ck.close("importance:update_log_q:kept-columns", upd[:, :-1],
             log_q[:, :-1], 0.0)
    ck.close(
        "importance:compute_meta_proposal_from_log_q",
        ifp.compute_meta_proposal_from_log_q(log_q[ok]), x["logQ"][ok], tol,
        sens=sens_q[ok],
    )
    # (iv) densities attached to points generated at earlier levels vs the
    # same points passed forwards now, after further proposals were trained
    # (a proposal, once trained, is fixed)
    for lvl, xe, lqe in earlier:
        xue = np.stack([xe[n] for n in model.names], -1).astype(float)
        oke = (np.minimum(xue, 1 - xue) > 1e-6).all(axis=1)
        if not oke.any():
            continue
        if reparam == "logit":
            xpe = np.log(xue) - np.log1p(-xue)
        else:
            xpe = xue.copy()
        k = lqe.shape[1]
        se = np.zeros((len(xue), k))
        for j in range(k - 1):
            se[:, j + 1] = _Twin(ifp.flow.models[j]).sens("F", xpe)[2]
        _, lq_now = _nessai(
            "ImportanceFlowProposal.compute_meta_proposal_samples", case,
            ifp.compute_meta_proposal_samples, xe,
        )
        meas["ifp_earlier"] = meas.get("ifp_earlier", 0) + int(oke.sum())
        ck.close(
            "importance:density-of-earlier-level-changed-by-later-training",
            lqe[oke], lq_now[oke][:, :k], tol,
            f"log_q rows stored when the points were drawn after training "
            f"{lvl + 1} of {n_train} vs the same points evaluated after the "
            f"last training (columns of the proposals that existed then)",
            sens=se[oke],
        )
    meas["n_assert"] = ck.n_assert
    return meas


# -------------------------------------------------------------- dispatcher
def check_case(case):
    kind = case["kind"]
    if kind == "flow":
        return check_flow(case)
    if kind == "fp":
        return check_fp(case)
    if kind == "ifp":
        return check_ifp(case)
    raise ValueError(f"unknown kind {kind!r}")


# --------------------------------------------------------------- generator
_ACT = ["relu", "relu", "tanh", "swish"]
_SEEDS = st.integers(0, 2**31 - 1)


@st.composite
def _dist(draw, cfg, allow=("default", "mvn", "lars", "uniform")):
    name = draw(st.sampled_from(
        ["default", "default", "mvn", "lars", "uniform"]
    ))
    if name not in allow:
        name = "default"
    if name == "mvn":
        cfg["distribution"] = "mvn"
        cfg["distribution_kwargs"] = {
            "var": draw(st.sampled_from([0.25, 1.0, 2.0, 4.0]))
        }
    elif name == "lars":
        cfg["distribution"] = "lars"
        if draw(st.booleans()):
            cfg["distribution_kwargs"] = {
                "n_layers": draw(st.integers(1, 2)),
                "n_neurons": draw(st.integers(2, 8)),
            }
    elif name == "uniform":
        cfg["distribution"] = "uniform"
    return name


@st.composite
def flow_configs(draw, ftypes=("realnvp", "maf", "nsf"), dims=None,
                 svd=True, dists=("default", "mvn", "lars", "uniform"),
                 pre=True, bn=None):
    ftype = draw(st.sampled_from(list(ftypes)))
    d = draw(st.sampled_from(dims or [2, 2, 2, 3, 4, 5, 6]))
    cfg = {
        "ftype": ftype,
        "n_inputs": d,
        "n_blocks": draw(st.integers(1, 4)),
        "n_layers": draw(st.integers(1, 2)),
        "n_neurons": draw(st.integers(2, 16)),
    }
    act = draw(st.sampled_from(_ACT))
    if act != "relu" or draw(st.booleans()):
        cfg["activation"] = act
    lts = [None, "permutation", "lu"] + (["svd"] if svd else [])
    bn_between = draw(st.booleans()) if bn is None else bn
    if ftype == "realnvp":
        lt = draw(st.sampled_from(lts + ["default"]))
        if lt != "default":
            cfg["linear_transform"] = lt
        actnorm = draw(st.sampled_from([False, False, True]))
        if actnorm:
            bn_between = False
            cfg["actnorm"] = True
        # RealNVP's default is batch_norm_between_layers=True
        if not (bn_between and draw(st.booleans())):
            cfg["batch_norm_between_layers"] = bn_between
        net = draw(st.sampled_from(["resnet", "resnet", "mlp"]))
        if net != "resnet":
            cfg["net"] = net
        elif draw(st.sampled_from([False, False, True])):
            cfg["batch_norm_within_layers"] = True
        if draw(st.sampled_from([False, False, False, True])):
            cfg["use_volume_preserving"] = True
        mk = draw(st.sampled_from(["none", "none", "1d", "2d"]))
        if mk != "none":
            def one():
                m = draw(st.lists(st.sampled_from([-1, 1]), min_size=d,
                                  max_size=d))
                if len(set(m)) == 1:
                    m[draw(st.integers(0, d - 1))] *= -1
                return m
            cfg["mask"] = one() if mk == "1d" else [
                one() for _ in range(cfg["n_blocks"])
            ]
        if pre:
            pt = draw(st.sampled_from([None, None, "logit", "batch_norm"]))
            if pt is not None:
                cfg["pre_transform"] = pt
        name = draw(_dist(cfg, dists))
        if name == "uniform":
            # additive couplings have a constant log-determinant and the
            # uniform base has no gradient: nothing to train (torch raises)
            cfg.pop("use_volume_preserving", None)
    elif ftype == "maf":
        if bn_between:
            cfg["batch_norm_between_layers"] = True
        if draw(st.sampled_from([False, False, True])):
            cfg["batch_norm_within_layers"] = True
        res = draw(st.booleans())
        if not res:
            cfg["use_residual_blocks"] = False
            if draw(st.booleans()):
                cfg["use_random_masks"] = True
        if draw(st.booleans()):
            cfg["use_random_permutations"] = True
    else:  # nsf
        lt = draw(st.sampled_from(lts + ["default"]))
        if lt != "default":
            cfg["linear_transform"] = lt
        if bn_between:
            cfg["batch_norm_between_layers"] = True
        if draw(st.sampled_from([False, False, True])):
            cfg["batch_norm_within_layers"] = True
        if draw(st.booleans()):
            cfg["num_bins"] = draw(st.sampled_from([4, 8]))
        if draw(st.booleans()):
            cfg["tail_bound"] = draw(st.sampled_from([3.0, 5.0]))
        if draw(st.sampled_from([False, False, True])):
            cfg["apply_unconditional_transform"] = True
        draw(_dist(cfg, dists))
    return cfg


_STATES = ["fresh", "trained", "reset:w", "reset:p", "reset:wp",
           "reset:none", "retrained"]
REPARAMS = ["zscore", "null", "rescaletobounds", "logit", "scale", "mixed"]
LATENT_PRIORS = ["truncated_gaussian", "gaussian", "uniform_nsphere",
                 "uniform_nball", "uniform", "flow"]


@st.composite
def flow_cases(draw, state=None):
    cfg = draw(flow_configs())
    if state is None:
        state = draw(st.sampled_from(_STATES))
    return {
        "kind": "flow",
        "cfg": cfg,
        "dtype": draw(st.sampled_from(["float32", "float32", "float64"])),
        "state": state,
        "pre_eval": draw(st.sampled_from([False, False, True])),
        "used_before_reset": draw(st.sampled_from(
            [None, "forward", "inverse"])),
        "epochs": draw(st.integers(3, 5)),
        "batch_size": draw(st.sampled_from([60, 100, 1000])),
        "val_size": draw(st.sampled_from([0.1, 0.1, 0.0, 0.25])),
        "batch": draw(st.sampled_from([1, 2, 7, 32, 64])),
        "n_sample": draw(st.sampled_from([1, 8, 50])),
        "seed": draw(_SEEDS),
    }


@st.composite
def fp_cases(draw, latent_prior=None, reparam=None):
    d = draw(st.sampled_from([2, 2, 3, 4]))
    cfg = draw(flow_configs(ftypes=("realnvp", "realnvp", "maf", "nsf"),
                            dims=[d], svd=False, dists=("default",),
                            pre=False))
    del cfg["n_inputs"]  # set by the proposal
    lp = latent_prior or draw(st.sampled_from(LATENT_PRIORS))
    cvm = lp in ("truncated_gaussian", "uniform_nsphere", "uniform_nball") \
        and draw(st.booleans())
    if reparam is None:
        reparam = draw(st.sampled_from(REPARAMS))
    # without a shift the flow's samples (around 0) must be able to land
    # inside the prior box
    boxes = [[-5.0, 5.0], [-2.0, 3.0]]
    if reparam not in ("null", "scale"):
        boxes = boxes + [[0.0, 1.0], [10.0, 20.0]]
    bounds = [draw(st.sampled_from(boxes)) for _ in range(d)]
    return {
        "kind": "fp",
        "cfg": cfg,
        "dtype": draw(st.sampled_from(["float32", "float32", "float64"])),
        "state": draw(st.sampled_from(["fresh", "trained", "trained"])),
        "epochs": draw(st.integers(3, 5)),
        "batch_size": draw(st.sampled_from([60, 100, 1000])),
        "val_size": 0.1,
        "bounds": bounds,
        "latent_prior": lp,
        "constant_volume_mode": cvm,
        "volume_fraction": draw(st.sampled_from([0.95, 0.8, 0.99])),
        "expansion_fraction": draw(st.sampled_from([4.0, None, 1.0])),
        "fuzz": draw(st.sampled_from([1.0, 1.3])),
        "reparam": reparam,
        "n_live": draw(st.sampled_from([100, 200])),
        "n_draw": draw(st.sampled_from([50, 200])),
        "seed": draw(_SEEDS),
    }


@st.composite
def ifp_cases(draw, reparam="any", n_train=None):
    d = draw(st.sampled_from([2, 2, 3]))
    cfg = draw(flow_configs(ftypes=("realnvp", "realnvp", "maf", "nsf"),
                            dims=[d], svd=False, dists=("default", "mvn"),
                            pre=False))
    del cfg["n_inputs"]
    # user-defined base distribution with learnable parameters, given as an
    # instance or as a class (both accepted by get_base_distribution)
    custom = draw(st.sampled_from([None, None, None, "vf:learnable-instance",
                                   "vf:learnable-class"]))
    if custom is not None and cfg["ftype"] != "maf":
        # (MaskedAutoregressiveFlow has no `distribution` argument)
        cfg["distribution"] = custom
        cfg.pop("distribution_kwargs", None)
    if n_train is None:
        n_train = draw(st.integers(1, 3))
    if reparam == "any":
        reparam = draw(st.sampled_from(["logit", "logit", None]))
    # proposal weights: any non-negative values that sum to one are accepted
    # by update_proposal_weights, including a proposal with weight exactly 0
    # (a level from which no sample has been drawn yet); the first weight is
    # kept positive so that every prefix can be normalised
    ws = [draw(st.floats(0.05, 1.0))] + draw(st.lists(
        st.one_of(st.floats(0.05, 1.0), st.floats(0.05, 1.0), st.just(0.0)),
        min_size=3, max_size=3))
    return {
        "kind": "ifp",
        "cfg": cfg,
        "dtype": draw(st.sampled_from(["float32", "float32", "float64"])),
        "dims": d,
        "reparam": reparam,
        "n_train": n_train,
        "epochs": draw(st.integers(2, 4)),
        "batch_size": draw(st.sampled_from([30, 60])),
        "val_size": 0.1,
        "weighted_kl": draw(st.booleans()),
        "explicit_weights": draw(st.booleans()),
        "reset_flow": draw(st.sampled_from([True, False, 2])),
        "clip": draw(st.booleans()),
        "weights": ws,
        "flow_number": draw(st.sampled_from([None, None, 0, 1])),
        "n_live": draw(st.sampled_from([100, 200])),
        "n_draw": draw(st.sampled_from([5, 40])),
        "draw_each_level": draw(st.sampled_from([True, True, False])),
        "seed": draw(_SEEDS),
    }


def classify(case):
    cfg = case["cfg"]
    kind = case["kind"]
    cl = [f"kind:{kind}", "ftype:" + cfg["ftype"], case["dtype"],
          "state:" + case.get("state", "trained")]
    if kind == "flow":
        cl.append("dist:" + str(cfg.get("distribution") or "default"))
        cl.append(f"d={'2' if cfg['n_inputs'] == 2 else '>2'}")
        if cfg.get("pre_transform"):
            cl.append("pre:" + cfg["pre_transform"])
        if case.get("pre_eval"):
            cl.append("pre_eval")
        if case.get("used_before_reset") and case.get(
                "state", "").startswith(("reset", "retrained")):
            cl.append("used-one-way-before-reset:" + case["used_before_reset"])
    if cfg["ftype"] in ("realnvp", "nsf"):
        default_lt = "lu" if cfg["ftype"] == "realnvp" else "permutation"
        cl.append("lt:" + str(cfg.get("linear_transform", default_lt)))
    bn = cfg.get(
        "batch_norm_between_layers", cfg["ftype"] == "realnvp"
    )
    if bn:
        cl.append("bn-between")
    if cfg.get("batch_norm_within_layers"):
        cl.append("bn-within")
    for k in ("actnorm", "use_volume_preserving"):
        if cfg.get(k):
            cl.append(k)
    if cfg.get("mask") is not None:
        cl.append("mask")
    if cfg.get("net") == "mlp":
        cl.append("net:mlp")
    if kind == "fp":
        cl.append("latent:" + case["latent_prior"])
        cl.append("reparam:" + str(case["reparam"]))
    if kind == "ifp":
        cl.append("ifp-reparam:" + str(case["reparam"]))
        cl.append(f"ifp-n_train={case['n_train']}")
        if any(w == 0.0 for w in case["weights"][: case["n_train"] + 1]):
            cl.append("ifp-zero-weight-proposal")
        if str(cfg.get("distribution")).startswith("vf:"):
            cl.append("ifp-dist:" + cfg["distribution"][3:])
        if case.get("draw_each_level") and case["n_train"] >= 2:
            cl.append("ifp-draws-at-earlier-levels")
    return cl, cfg["n_blocks"] >= 2


def _brief(case):
    return {k: v for k, v in case.items() if k != "weights"}


# ------------------------------------------- anticipated findings (minimal)
ANTICIPATED = [
    # F8: the default flow (RealNVP, batch norm between layers), untrained
    {"kind": "flow", "cfg": {"ftype": "realnvp", "n_inputs": 2,
                             "n_blocks": 4, "n_layers": 2, "n_neurons": 8},
     "dtype": "float32", "state": "fresh", "pre_eval": False, "epochs": 3,
     "batch_size": 100, "val_size": 0.1, "batch": 8, "n_sample": 8,
     "seed": 1},
    # F10: svd linear transform in fewer than five dimensions
    {"kind": "flow", "cfg": {"ftype": "realnvp", "n_inputs": 2,
                             "n_blocks": 1, "n_layers": 1, "n_neurons": 2,
                             "batch_norm_between_layers": False,
                             "linear_transform": "svd"},
     "dtype": "float64", "state": "fresh", "pre_eval": False, "epochs": 3,
     "batch_size": 100, "val_size": 0.1, "batch": 2, "n_sample": 1,
     "seed": 1},
    # F12: LARS base distribution, trained, then reset_model(weights=True)
    {"kind": "flow", "cfg": {"ftype": "realnvp", "n_inputs": 2,
                             "n_blocks": 2, "n_layers": 1, "n_neurons": 8,
                             "batch_norm_between_layers": False,
                             "distribution": "lars"},
     "dtype": "float64", "state": "reset:w", "pre_eval": False, "epochs": 5,
     "batch_size": 100, "val_size": 0.1, "batch": 8, "n_sample": 8,
     "seed": 1},
]


# ------------------------------------------------------------------ shards
def _quiet():
    import warnings

    logging.getLogger("nessai").setLevel(logging.CRITICAL)
    logging.getLogger("glasflow").setLevel(logging.CRITICAL)
    warnings.filterwarnings("ignore")


def shard(seed, kind, n, stratum=None, anticipated=False):
    _quiet()
    from ..core import Ctx

    ctx = Ctx("C08", "quick", seed)
    out = Outcome()
    stats = out.stats
    agg = stats.extra.setdefault("measured", {})
    mx = {}
    case_dtype = ["float32"]

    def record(meas):
        # largest |a-b| / (scale + S); the assertion is "<= tol"
        tag = "max_err_freshbn_" if meas.get("fresh_bn_layers") else "max_err_"
        for k in ("rt_x", "rt_z", "density", "fp_z", "fp_q", "ifp_q"):
            if k in meas:
                kk = tag + case_dtype[0] + "_" + k
                mx[kk] = max(mx.get(kk, 0.0), meas[k])
        agg["assertions"] = agg.get("assertions", 0) + meas.get(
            "n_assert", 0)
        gs = meas.get("grid_status")
        if gs is not None:
            agg["grid:" + gs] = agg.get("grid:" + gs, 0) + 1
            if gs != "ok":
                stats.inconclusive += 1
            else:
                kk = "max_grid_dev_lars" if "lars_norm" in meas else (
                    "max_grid_dev")
                mx[kk] = max(mx.get(kk, 0.0),
                             abs(meas["grid_integral"] - 1.0))

    if anticipated:
        for case in ANTICIPATED:
            cl, nt = classify(case)
            stats.case(_brief(case), nontrivial=nt,
                       classes=cl + ["anticipated"])
            try:
                case_dtype[0] = case["dtype"]
                record(check_case(case))
            except Violation as v:
                out.add(v)
        _flush(stats, mx)
        return out

    def body(case):
        cl, nt = classify(case)
        case_dtype[0] = case["dtype"]
        try:
            meas = check_case(case)
        except Violation as v:
            if ctx.known(v.key):
                stats.case(_brief(case), nontrivial=nt,
                           classes=cl + ["known:" + v.key])
                stats.excluded_known[v.key] += 1
                return
            stats.case(_brief(case), nontrivial=nt, classes=cl)
            raise
        if meas.get("grid_status") == "ok":
            cl = cl + ["grid-integrated"]
        if meas.get("n_compared", 0) > 0:
            cl = cl + [case["kind"] + "-compared"]
        elif case["kind"] != "flow":
            cl = cl + ["empty-draw"]
        if meas.get("reloaded"):
            cl = cl + ["weights-file-reloaded"]
        if meas.get("ifp_earlier"):
            cl = cl + ["ifp-earlier-levels-compared"]
        if meas.get("starved"):
            cl = cl + ["draw-starved"]
            stats.inconclusive += 1
        stats.case(_brief(case), nontrivial=nt, classes=cl)
        record(meas)

    make = {"flow": flow_cases, "fp": fp_cases, "ifp": ifp_cases}[kind]
    stratum = dict(stratum or {})
    # an inner stratum is enumerated inside the shard (list value)
    inner = [k for k, v in stratum.items() if isinstance(v, list)]
    if inner:
        (k,) = inner
        subs = [dict(stratum, **{k: v}) for v in stratum[k]]
    else:
        subs = [stratum]
    for j, sub in enumerate(subs):
        for v in run_given(body, make(**sub), seed + 7919 * j, n):
            out.add(v)
        if out.violations:
            break
    _flush(stats, mx)
    return out


def _flush(stats, mx):
    # Stats.merge concatenates lists: one maximum per shard, reduced in run()
    for k, v in mx.items():
        stats.extra[k] = [v]


def plan(quick):
    """Shards: the stratum (weight state / latent prior / rescaling x number
    of trainings) is enumerated, everything else is drawn by Hypothesis.
    quick: 14*15 + 6*6*2 + 6*9 = 336 cases (+3 anticipated);
    thorough: 14*275 + 6*6*32 + 6*180 = 6082."""
    jobs = []
    for rep_ in range(2):
        for state in _STATES:
            jobs.append(("flow", {"state": state}, 15 if quick else 275))
    for lp in LATENT_PRIORS:
        jobs.append(("fp", {"latent_prior": lp, "reparam": list(REPARAMS)},
                     2 if quick else 32))
    for reparam in ("logit", None):
        for n_train in (1, 2, 3):
            jobs.append(("ifp", {"reparam": reparam, "n_train": n_train},
                         9 if quick else 180))
    return jobs


def run(ctx):
    kws = [dict(seed=ctx.seed * 1000 + 99, kind="flow", n=0,
                anticipated=True)]
    # longest jobs first
    jobs = sorted(enumerate(plan(ctx.quick)),
                  key=lambda t: {"ifp": 0, "fp": 1, "flow": 2}[t[1][0]])
    for i, (kind, stratum, n) in jobs:
        kws.append(dict(seed=ctx.seed * 1000 + i, kind=kind, n=n,
                        stratum=stratum))
    out = run_shards("vf.checks.c08", "shard", kws)
    for k, v in list(out.stats.extra.items()):
        if k.startswith("max_") and isinstance(v, list):
            out.stats.extra[k] = max(v) if v else 0.0
    return out


def health(ctx, stats):
    lo = 2 if ctx.quick else 30
    need = [
        "kind:flow", "kind:fp", "kind:ifp", "ftype:realnvp", "ftype:maf",
        "ftype:nsf", "float32", "float64", "state:fresh", "state:trained",
        "state:reset:w", "state:reset:p", "state:reset:wp", "state:retrained",
        "dist:default", "dist:mvn", "dist:lars", "dist:uniform", "lt:None",
        "lt:permutation", "lt:lu", "lt:svd", "bn-between", "bn-within",
        "actnorm", "mask", "net:mlp", "use_volume_preserving", "pre:logit",
        "pre:batch_norm", "grid-integrated", "latent:truncated_gaussian",
        "latent:gaussian", "latent:uniform_nball", "latent:uniform_nsphere",
        "latent:uniform", "latent:flow", "reparam:zscore", "reparam:logit",
        "reparam:rescaletobounds", "reparam:null", "reparam:scale",
        "reparam:mixed", "fp-compared", "ifp-compared", "ifp-reparam:logit",
        "ifp-reparam:None",
    ]
    bad = [
        f"class {c} has only {stats.classes.get(c, 0)} cases (< {lo})"
        for c in need
        if stats.classes.get(c, 0) < lo
    ]
    if stats.classes.get("anticipated", 0) != len(ANTICIPATED):
        bad.append("the anticipated-finding cases were not all executed")
    n_grid = sum(
        v for k, v in stats.extra.get("measured", {}).items()
        if k.startswith("grid:")
    )
    if n_grid and stats.inconclusive > 0.25 * n_grid:
        bad.append(
            f"{stats.inconclusive} of {n_grid} 2-D integrations inconclusive"
        )
    return bad


def replay(ctx, case):
    _quiet()
    try:
        check_case(case)
    except Violation as v:
        return [v]
    return []
