"""C03 - every INS sample carries the exact meta-proposal density and weight.

Generator : Hypothesis strategy over ImportanceNestedSampler options
            (vf.configs.ins_job) + 0-2 kill/resume cycles; real seeded runs.
Oracle    : at the end of every iteration, after finalise and after a resume,
            for both sample stores: log_q columns == saved flows re-evaluated
            (independent logit + Jacobian), weights == sample fractions,
            logQ == log-mixture, logW == logU - logQ, samples in the unit
            hypercube, logL == model at the mapped physical point.
"""
from .. import configs, runcheck

USES_KNOWN_CASES = True
LEVEL = "exploration"
RULE = (
    "Real ImportanceNestedSampler runs through FlowSampler; options drawn by "
    "a Hypothesis strategy (model, seed, nlive, n_initial, min_samples, flow "
    "type, reparameterisation logit/None, strict/soft threshold, replace_all, "
    "draw_constant, draw_iid_live, threshold method/kwargs, weighted_kl, "
    "reset_flow, clip, save_log_q, 0-2 kill/resume cycles). evaluations = "
    "rows of the sample stores checked. Non-trivial run: completed and at "
    "least two flows were in the mixture when a store was checked; distinct "
    "by configuration hash."
)
ASSUMPTIONS = [
    "flows are re-evaluated through their own log_prob; the logit map and its "
    "Jacobian are recomputed independently",
    "tolerance 1e-3 + 1e-5|v| on per-flow densities (float32 flows; measured "
    "agreement ~5e-7, defects are O(0.1-10)); 1e-10 on logQ/logW; 1e-12 on "
    "weights; exact (<=4 ulp for models with transcendental unit-cube maps) "
    "on likelihoods",
    "runs that end in a nessai exception are not judged here (C20)",
]
MONITORS = ["ins"]


def make_history(case):
    return configs.history_from(case, MONITORS)


def judge(case, reports, add, stats):
    runcheck.monitor_violations(reports, add)
    rows = sum((r.get("counters") or {}).get("ins.rows_checked", 0)
               for r in reports)
    classes = list(case.get("labels", []))
    for r in reports:
        classes.extend(r.get("classes") or [])
        if r.get("status") == "exception":
            classes.append("errored:" + runcheck.exc_key(r))
    last = reports[-1]
    completed = last.get("status") == "completed"
    if completed:
        classes.append("completed")
    two = any("ins:>=2-flows-checked" in (r.get("classes") or [])
              for r in reports)
    return bool(completed and two), classes, rows


def strategy(ctx):
    return configs.ins_job(resume_cycles=(0, 2))


def run(ctx):
    n = 20 if ctx.quick else 300
    # fixed composition: 70 % uninterrupted runs, 30 % with 1-2 kill/resume
    n_res = max(3, (3 * n) // 10)
    cases = configs.collect(configs.ins_job(), ctx.seed, n - n_res)
    cases += configs.collect(configs.ins_job(resume_cycles=(1, 2)),
                             ctx.seed + 1, n_res)
    cases += runcheck.known_cases("C03")
    return runcheck.execute_cases(ctx, "c03", cases, make_history, judge)


def health(ctx, stats):
    need = {"completed": 6, "resumed": 1, "strict:True": 2, "strict:False": 2}
    if not ctx.quick:
        need = {"completed": 120, "resumed": 30, "strict:True": 50,
                "strict:False": 50, "iid:False": 20, "reparam:None": 20}
    return [f"class {k}: {stats.classes.get(k, 0)} < {v}"
            for k, v in need.items() if stats.classes.get(k, 0) < v]


def replay(ctx, case):
    case = {k: v for k, v in case.items() if k != "extra"}
    return runcheck.replay_case(ctx, "c03r", case, make_history, judge)
