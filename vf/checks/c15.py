"""C15 - sampling stops exactly per the stopping rule; finished runs are
idempotent.

Generator : Hypothesis strategy over tolerances, caps/minima, every INS
            criterion and alias, 1-3 criteria with any/all, seeds, models;
            histories run -> run again (same process) -> resume from the
            final checkpoint in a fresh process -> run.
Oracle    : per-iteration monitors record the compared values; the stop
            iteration must be the first one allowed by the rule; recorded
            values equal the run history; ess / log_dZ / fractional_error
            equal their standard definitions recomputed from the samples;
            digests of results before/after a second run / resume are equal
            and no likelihood is evaluated.
"""
from .. import configs, runcheck

USES_KNOWN_CASES = True
LEVEL = "exploration"
RULE = (
    "Real runs of both samplers with generated stopping configurations "
    "(tolerance, iteration cap/minimum, each importance-sampler criterion "
    "and alias, 1-3 criteria with any/all); each history = run, run again in "
    "the same process, then resume from the final checkpoint in a fresh "
    "process and run. evaluations = iterations whose compared value was "
    "recorded. Non-trivial: the run stopped because the rule was met (not "
    "the cap) after >= 2 recorded iterations and the resume-after-finish "
    "step was executed; distinct by configuration hash."
)
ASSUMPTIONS = [
    "the remaining-evidence value may use the volume before or after the "
    "current shrinkage and L_max before or after the replacement (the "
    "property does not fix it): any value in that interval is accepted",
    "criteria are compared with `criterion <= tolerance` (the only semantics "
    "nessai documents), for `ess` too",
    "the first iteration 'at or beyond the minimum' may count completed "
    "iterations from 0 or from 1: both are accepted",
    "ratio and ratio_ns are only checked for history/decision consistency "
    "(their normalisation is an implementation choice); Z_err (alias "
    "evidence_error) is compared with nessai's documented definition "
    "exp(sigma[ln Z]), sigma[ln Z] = se(Z)/Z, recomputed with every term "
    "scaled by the estimate (independent of the likelihood's magnitude)",
    "re-running / resuming a standard-sampler run that stopped at the "
    "iteration cap is reported under its own signature "
    "(rerun-of-capped-run:*, a recorded known finding)",
]


def monitors(case):
    return ["ins_stop"] if case.get("ins") else ["ns", "ns_stop"]


def make_history(case):
    base = {"model": case["model"], "ins": case["ins"],
            "kwargs": case["kwargs"], "monitors": monitors(case),
            "post": ["idem"]}
    steps = [dict(base), dict(base)]
    if case.get("kill_at_finalise"):
        # the process dies after the loop's last checkpoint and before the
        # checkpoint of the finalised run; the next process resumes with the
        # stopping rule already met
        steps = [dict(base, kill_event={"event": "finalise", "k": 1})] + steps
    return {"steps": steps}


def judge(case, reports, add, stats):
    for i, rep in enumerate(reports):
        for v in rep.get("violations", []) or []:
            key = v["key"]
            # from the live-set monitor only the finalise clauses belong here
            if not case.get("ins") and key.split(":")[0] not in (
                    "finalise",) and not any(
                    key.startswith(p) for p in (
                        "condition", "continued", "stopped", "iteration-cap",
                        "history", "tolerance-reached", "second-run",
                        "resume-after-finish", "rerun-of-capped-run")):
                continue
            add(key, f"step {i}: {v['msg']} (x{v['count']})", {"step": i})
    classes = list(case.get("labels", []))
    evals = 0
    for r in reports:
        classes.extend(r.get("classes") or [])
        c = r.get("counters") or {}
        evals += c.get("ns_stop.iterations", 0) + c.get(
            "ins_stop.iterations", 0)
        if r.get("status") == "exception":
            classes.append("errored:" + runcheck.exc_key(r))
    if case.get("kill_at_finalise"):
        classes.append("kill-at-finalise")
        if reports and reports[0].get("status") != "killed":
            classes.append("kill-at-finalise:not-reached")
        reports = reports[1:]
    ok = all(r.get("status") == "completed" for r in reports) and \
        len(reports) == 2
    if ok:
        classes.append("completed")
    if not reports:
        return False, classes, evals
    first = reports[0]
    by_tol = "stopped-by-tolerance" in (first.get("classes") or [])
    resumed = "resumed-after-finish" in (reports[-1].get("classes") or [])
    n_rec = ((first.get("data") or {}).get("ns_stop") or {}).get("n") or \
        ((first.get("data") or {}).get("ins_stop") or {}).get(
            "n_recorded") or 0
    return bool(ok and by_tol and resumed and n_rec >= 2), classes, evals


def strategy(ctx):
    return configs.stop_job()


ALIASES = {"ratio": "ratio", "ratio_all": "ratio", "ratio_ns": "ratio_ns",
           "Z_err": "Z_err", "evidence_error": "Z_err", "log_dZ": "log_dZ",
           "log_evidence": "log_dZ", "ess": "ess",
           "fractional_error": "fractional_error"}


def boundary_tolerance_cases(cases, results, limit):
    """Second generation: the same (seeded, deterministic) runs with the
    tolerance set a relative 1e-7 *below* a value the compared quantity took
    in the first generation - the run must go on past that iteration (the
    comparison is "criterion <= tolerance", not "approximately")."""
    import copy

    out = []
    n_of = {True: 0, False: 0}
    for case, reports in zip(cases, results):
        if case.get("kill_at_finalise"):
            continue
        # half of the budget for each sampler
        if n_of[bool(case.get("ins"))] >= (limit + 1) // 2:
            continue
        first = reports[0] if reports else {}
        if first.get("status") != "completed":
            continue
        kw = case["kwargs"]
        if case.get("ins"):
            crit = kw.get("stopping_criterion", "ratio")
            if not isinstance(crit, str):
                # several criteria: the derived run uses the first alone
                # (the trajectory of a seeded run does not depend on the rule)
                crit = crit[0]
            if crit not in ALIASES:
                continue
            vals = ((first.get("data") or {}).get("ins_stop") or {}).get(
                "values") or []
            series = [v.get(ALIASES[crit]) for v in vals]
            key = "tolerance"
        else:
            conds = ((first.get("data") or {}).get("ns_stop") or {}).get(
                "conds") or []
            series = [c for _, c in conds]
            key = "stopping"
        series = [v for v in series if isinstance(v, (int, float))]
        if len(series) < 3:
            continue
        head = series[:-1]
        k = min(range(len(head)), key=lambda i: head[i])
        v = float(head[k])
        t = v - abs(v) * 1e-7
        if not t < v:
            continue
        c = copy.deepcopy({k_: v_ for k_, v_ in case.items()
                           if k_ != "extra"})
        c["kwargs"][key] = t
        if case.get("ins"):
            c["kwargs"]["stopping_criterion"] = crit
            c["kwargs"].pop("check_criteria", None)
            c["kwargs"].pop("min_iteration", None)
        c["labels"] = [l_ for l_ in c.get("labels", [])
                       if not l_.startswith("stopping:")] + [
            "boundary-tolerance:just-below-a-value-of-the-criterion"]
        n_of[bool(case.get("ins"))] += 1
        out.append(c)
    return out


def run(ctx):
    n = 24 if ctx.quick else 300
    cases = configs.collect(strategy(ctx), ctx.seed, n)
    cases += runcheck.known_cases("C15")
    keep = {}
    out = runcheck.execute_cases(ctx, "c15", cases, make_history,
                                 lambda c, r, a, s: _judge_keep(
                                     keep, c, r, a, s))
    derived = boundary_tolerance_cases(
        cases[:n], [keep.get(id(c), []) for c in cases[:n]],
        6 if ctx.quick else 60)
    if derived:
        out.merge(runcheck.execute_cases(ctx, "c15b", derived, make_history,
                                         judge))
    return out


def _judge_keep(keep, case, reports, add, stats):
    keep[id(case)] = reports
    return judge(case, reports, add, stats)


def health(ctx, stats):
    need = {"completed": 10, "sampler:ins": 4, "sampler:standard": 4,
            "stopped-by-tolerance": 6, "resumed-after-finish": 8}
    if not ctx.quick:
        need = {k: v * 10 for k, v in need.items()}
    return [f"class {k}: {stats.classes.get(k, 0)} < {v}"
            for k, v in need.items() if stats.classes.get(k, 0) < v]


def replay(ctx, case):
    case = {k: v for k, v in case.items() if k != "extra"}
    return runcheck.replay_case(ctx, "c15r", case, make_history, judge)
