"""C15 - sampling stops exactly per the stopping rule; finished runs are
idempotent.

Generator : Hypothesis strategy over tolerances, caps/minima, every INS
            criterion and alias, 1-3 criteria with any/all, seeds, models;
            histories run -> run again (same process) -> resume from the
            final checkpoint in a fresh process -> run.
Oracle    : per-iteration monitors record the compared values; the stop
            iteration must be the first one allowed by the rule; recorded
            values equal the run history; ess / log_dZ / fractional_error
            equal their standard definitions recomputed from the samples;
            digests of results before/after a second run / resume are equal
            and no likelihood is evaluated.
"""
from .. import configs, runcheck

USES_KNOWN_CASES = True
LEVEL = "exploration"
RULE = (
    "Real runs of both samplers with generated stopping configurations "
    "(tolerance, iteration cap/minimum, each importance-sampler criterion "
    "and alias, 1-3 criteria with any/all); each history = run, run again in "
    "the same process, then resume from the final checkpoint in a fresh "
    "process and run. evaluations = iterations whose compared value was "
    "recorded. Non-trivial: the run stopped because the rule was met (not "
    "the cap) after >= 2 recorded iterations and the resume-after-finish "
    "step was executed; distinct by configuration hash."
)
ASSUMPTIONS = [
    "the remaining-evidence value may use the volume before or after the "
    "current shrinkage and L_max before or after the replacement (the "
    "property does not fix it): any value in that interval is accepted",
    "criteria are compared with `criterion <= tolerance` (the only semantics "
    "nessai documents), for `ess` too",
    "the first iteration 'at or beyond the minimum' may count completed "
    "iterations from 0 or from 1: both are accepted",
    "ratio and ratio_ns are only checked for history/decision consistency "
    "(their normalisation is an implementation choice); Z_err (alias "
    "evidence_error) is compared with nessai's documented definition "
    "exp(sigma[ln Z]), sigma[ln Z] = se(Z)/Z, recomputed with every term "
    "scaled by the estimate (independent of the likelihood's magnitude)",
    "re-running / resuming a standard-sampler run that stopped at the "
    "iteration cap is reported under its own signature "
    "(rerun-of-capped-run:*, a recorded known finding)",
]


def monitors(case):
    return ["ins_stop"] if case.get("ins") else ["ns", "ns_stop"]


def make_history(case):
    base = {"model": case["model"], "ins": case["ins"],
            "kwargs": case["kwargs"], "monitors": monitors(case),
            "post": ["idem"]}
    steps = [dict(base), dict(base)]
    if case.get("kill_at_finalise"):
        # the process dies after the loop's last checkpoint and before the
        # checkpoint of the finalised run; the next process resumes with the
        # stopping rule already met
        steps = [dict(base, kill_event={"event": "finalise", "k": 1})] + steps
    return {"steps": steps}


def judge(case, reports, add, stats):
    for i, rep in enumerate(reports):
        for v in rep.get("violations", []) or []:
            key = v["key"]
            # from the live-set monitor only the finalise clauses belong here
            if not case.get("ins") and key.split(":")[0] not in (
                    "finalise",) and not any(
                    key.startswith(p) for p in (
                        "condition", "continued", "stopped", "iteration-cap",
                        "history", "tolerance-reached", "second-run",
                        "resume-after-finish", "rerun-of-capped-run")):
                continue
            add(key, f"step {i}: {v['msg']} (x{v['count']})", {"step": i})
    classes = list(case.get("labels", []))
    evals = 0
    for r in reports:
        classes.extend(r.get("classes") or [])
        c = r.get("counters") or {}
        evals += c.get("ns_stop.iterations", 0) + c.get(
            "ins_stop.iterations", 0)
        if r.get("status") == "exception":
            classes.append("errored:" + runcheck.exc_key(r))
    if case.get("kill_at_finalise"):
        classes.append("kill-at-finalise")
        if reports and reports[0].get("status") != "killed":
            classes.append("kill-at-finalise:not-reached")
        reports = reports[1:]
    ok = all(r.get("status") == "completed" for r in reports) and \
        len(reports) == 2
    if ok:
        classes.append("completed")
    if not reports:
        return False, classes, evals
    first = reports[0]
    by_tol = "stopped-by-tolerance" in (first.get("classes") or [])
    resumed = "resumed-after-finish" in (reports[-1].get("classes") or [])
    n_rec = ((first.get("data") or {}).get("ns_stop") or {}).get("n") or \
        ((first.get("data") or {}).get("ins_stop") or {}).get(
            "n_recorded") or 0
    return bool(ok and by_tol and resumed and n_rec >= 2), classes, evals


def strategy(ctx):
    return configs.stop_job()


def run(ctx):
    n = 24 if ctx.quick else 300
    cases = configs.collect(strategy(ctx), ctx.seed, n)
    cases += runcheck.known_cases("C15")
    return runcheck.execute_cases(ctx, "c15", cases, make_history, judge)


def health(ctx, stats):
    need = {"completed": 10, "sampler:ins": 4, "sampler:standard": 4,
            "stopped-by-tolerance": 6, "resumed-after-finish": 8}
    if not ctx.quick:
        need = {k: v * 10 for k, v in need.items()}
    return [f"class {k}: {stats.classes.get(k, 0)} < {v}"
            for k, v in need.items() if stats.classes.get(k, 0) < v]


def replay(ctx, case):
    case = {k: v for k, v in case.items() if k != "extra"}
    return runcheck.replay_case(ctx, "c15r", case, make_history, judge)
