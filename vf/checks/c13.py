"""C13 - a termination signal at any instant leaves a consistent, resumable
state.

Generator : schedule enumeration.  The source lines of the functions that
            make up an iteration are read from the code objects of the tree
            under test; a probe run counts how often each line executes; a
            signal (SIGTERM / SIGINT / SIGALRM) is delivered by the process
            to itself just before the k-th execution of a line (k at several
            fractions of the line's execution count: uninformed sampling,
            around the switch, flow sampling), so nessai's own handler runs
            at that instant.  Then a fresh process resumes to completion.
Oracle    : exit status == configured exit code; resumed run completes;
            live-set / record / integral-state / insertion-index counts agree
            (C01 monitor + shadow history), no duplicated live point, final
            results pass the C05 recomputation; importance sampler: resume
            file byte-identical to the last iteration-boundary checkpoint.
"""
import math

from hypothesis import strategies as st

from .. import configs, runs
from ..core import HarnessError, Outcome, Violation, jhash
from .. import runcheck

USES_KNOWN_CASES = True
LEVEL = "fault_enumeration"
RULE = (
    "Signal schedules against real runs: (function, source line, k-th "
    "execution, signal) with lines enumerated from the code objects of the "
    "iteration-level functions of both samplers and k placed at fractions "
    "{first, ~25%, ~60%, ~90%} of the line's execution count in a probe run; "
    "each schedule = run until the self-delivered signal, then resume in a "
    "fresh process to completion. evaluations = schedules executed. "
    "Non-trivial: the signal fired inside the replacement step, a proposal "
    "population/training, or the importance sampler's add/remove step; "
    "distinct by (config, function, line, occurrence, signal)."
)
ASSUMPTIONS = [
    "line granularity subsamples the bytecode boundaries at which CPython "
    "can run a handler; finer instants are not generated",
    "delivery uses os.kill(os.getpid(), sig) from a sys.monitoring LINE "
    "callback; the handler installed by FlowSampler runs before the target "
    "line executes",
    "known-finding signatures are structural: checkpoint written while "
    "NestedSampler.consume_sample / NestedSampler.finalise was executing",
]

STD_FUNCS = [
    "nessai.samplers.nestedsampler:NestedSampler.nested_sampling_loop",
    "nessai.samplers.nestedsampler:NestedSampler.check_state",
    "nessai.samplers.nestedsampler:NestedSampler.check_training",
    "nessai.samplers.nestedsampler:NestedSampler.train_proposal",
    "nessai.samplers.nestedsampler:NestedSampler.consume_sample",
    "nessai.samplers.nestedsampler:NestedSampler.yield_sample",
    "nessai.samplers.nestedsampler:NestedSampler.insert_live_point",
    "nessai.samplers.nestedsampler:NestedSampler.update_state",
    "nessai.samplers.nestedsampler:NestedSampler.check_proposal_switch",
    "nessai.samplers.nestedsampler:NestedSampler.finalise",
    "nessai.samplers.nestedsampler:NestedSampler.populate_live_points",
    "nessai.samplers.base:BaseNestedSampler.checkpoint",
    # the writers themselves: a signal while a periodic checkpoint / a weights
    # file is being written makes the handler checkpoint re-entrantly
    "nessai.utils.io:safe_file_dump",
    "nessai.flowmodel.base:FlowModel.save_weights",
    # ... and the pickling hooks that run inside pickle.dump
    "nessai.samplers.base:BaseNestedSampler.__getstate__",
    "nessai.proposal.base:Proposal.__getstate__",
    "nessai.proposal.flowproposal:FlowProposal.__getstate__",
    "nessai.flowmodel.base:FlowModel.__getstate__",
    "nessai.model:Model.__getstate__",
    # inside a training (weights half-updated in memory, file not yet saved)
    "nessai.flowmodel.base:FlowModel.train",
    "nessai.evidence:_NSIntegralState.increment",
    "nessai.proposal.flowproposal:FlowProposal.draw",
    "nessai.proposal.flowproposal:FlowProposal.populate",
    "nessai.proposal.flowproposal:FlowProposal.train",
    "nessai.proposal.flowproposal:FlowProposal.backward_pass",
    "nessai.proposal.flowproposal:FlowProposal.convert_to_samples",
    "nessai.proposal.analytic:AnalyticProposal.draw",
    "nessai.proposal.rejection:RejectionProposal.populate",
]
INS_FUNCS = [
    "nessai.samplers.importancesampler:ImportanceNestedSampler."
    "nested_sampling_loop",
    "nessai.samplers.importancesampler:ImportanceNestedSampler."
    "add_and_update_points",
    "nessai.samplers.importancesampler:ImportanceNestedSampler."
    "remove_samples",
    "nessai.samplers.importancesampler:ImportanceNestedSampler."
    "add_new_proposal",
    "nessai.samplers.importancesampler:ImportanceNestedSampler."
    "add_new_proposal_weight",
    "nessai.samplers.importancesampler:ImportanceNestedSampler."
    "update_history",
    "nessai.samplers.importancesampler:ImportanceNestedSampler.finalise",
    "nessai.samplers.importancesampler:ImportanceNestedSampler.checkpoint",
    "nessai.samplers.base:BaseNestedSampler.checkpoint",
    "nessai.utils.io:safe_file_dump",
    "nessai.samplers.importancesampler:ImportanceNestedSampler.__getstate__",
    "nessai.samplers.importancesampler:OrderedSamples.__getstate__",
    "nessai.proposal.importance:ImportanceFlowProposal.__getstate__",
    "nessai.flowmodel.importance:ImportanceFlowModel.__getstate__",
    "nessai.flowmodel.base:FlowModel.train",
    "nessai.flowmodel.importance:ImportanceFlowModel.add_new_flow",
    "nessai.flowmodel.importance:ImportanceFlowModel.save_weights",
    "nessai.samplers.importancesampler:ImportanceNestedSampler."
    "update_evidence",
    "nessai.samplers.importancesampler:OrderedSamples.add_samples",
    "nessai.samplers.importancesampler:OrderedSamples.remove_samples",
    "nessai.samplers.importancesampler:OrderedSamples.add_to_nested_samples",
    "nessai.samplers.importancesampler:OrderedSamples.finalise",
    "nessai.proposal.importance:ImportanceFlowProposal.draw",
    "nessai.proposal.importance:ImportanceFlowProposal.train",
    "nessai.proposal.importance:ImportanceFlowProposal.update_log_q",
]

WRITERS = ("checkpoint", "safe_file_dump", "save_weights", "__getstate__")

INTERESTING = ("consume_sample", "yield_sample", "insert_live_point",
               "populate", "train", "draw", "backward_pass", "increment",
               "add_samples", "remove_samples", "add_and_update_points",
               "add_to_nested_samples", "update_log_q", "convert_to_samples",
               "checkpoint", "safe_file_dump", "save_weights")


def func_name(spec):
    """'module:Class.func' or 'module:func' -> 'func'"""
    return spec.split(":")[-1].split(".")[-1]


def base_configs(seed):
    std = {"model": {"name": "gauss_uniform", "dims": 2}, "ins": False,
           "kwargs": {"nlive": 50, "seed": 1000 + seed, "plot": False,
                      "flow_config": {"n_blocks": 2, "n_neurons": 8},
                      "training_config": {"max_epochs": 20, "patience": 5},
                      "checkpointing": True, "checkpoint_on_iteration": True,
                      "checkpoint_interval": 40, "stopping": 0.5}}
    std2 = {"model": {"name": "gauss_gauss", "dims": 2}, "ins": False,
            "kwargs": {"nlive": 40, "seed": 2000 + seed, "plot": False,
                       "flow_config": {"n_blocks": 1, "n_neurons": 8,
                                       "ftype": "maf"},
                       "training_config": {"max_epochs": 15, "patience": 5},
                       "maximum_uninformed": 20, "poolsize": 60,
                       "reparameterisations": "default",
                       "checkpointing": True, "checkpoint_interval": 100000,
                       "stopping": 1.0, "exit_code": 7}}
    ins = {"model": {"name": "gauss_uniform", "dims": 2}, "ins": True,
           "kwargs": {"nlive": 150, "seed": 3000 + seed, "plot": False,
                      "min_samples": 40, "max_iteration": 5,
                      "flow_config": {"n_blocks": 2, "n_neurons": 8},
                      "training_config": {"max_epochs": 100, "patience": 10},
                      "checkpointing": True, "checkpoint_on_iteration": True,
                      "checkpoint_interval": 1}}
    ins2 = {"model": {"name": "gauss_uniform", "dims": 2}, "ins": True,
            "kwargs": {"nlive": 120, "seed": 4000 + seed, "plot": False,
                       "min_samples": 30, "max_iteration": 4,
                       "strict_threshold": True, "draw_iid_live": False,
                       "flow_config": {"n_blocks": 1, "n_neurons": 8,
                                       "ftype": "nsf"},
                       "training_config": {"max_epochs": 100,
                                           "patience": 10},
                       "checkpointing": True, "checkpoint_on_iteration": True,
                       "checkpoint_interval": 2, "exit_code": 5}}
    return [std, std2, ins, ins2]


def job_of(cfg, **extra):
    mons = ["ins", "ckpt"] if cfg["ins"] else ["ns", "ckpt"]
    j = {"model": cfg["model"], "ins": cfg["ins"], "kwargs": cfg["kwargs"],
         "monitors": mons, "post": ["results"]}
    j.update(extra)
    return j


def enumerate_schedules(ctx, cfgs):
    """Probe every base configuration, then list (cfg, func, line, occ)."""
    probes = [runs.single(job_of(
        c, fault={"count_lines": INS_FUNCS if c["ins"] else STD_FUNCS},
        monitors=[], post=[])) for c in cfgs]
    res = runs.run_histories("c13p", probes)
    out = []
    for ci, (cfg, reps) in enumerate(zip(cfgs, res)):
        r = reps[0]
        if r.get("status") != "completed":
            raise HarnessError("C13 probe run failed: %r" % {
                k: r.get(k) for k in ("status", "exc_type", "exc_msg",
                                      "traceback")})
        counts = (r.get("data") or {}).get("line_counts") or {}
        for key, n in sorted(counts.items()):
            func, rel = key.split("|")
            occs = sorted({1, max(1, int(0.25 * n)), max(1, int(0.6 * n)),
                           max(1, int(0.9 * n))})
            for occ in occs:
                out.append({"cfg": ci, "func": func, "rel_line": int(rel),
                            "occurrence": occ, "count": n})
    return out


def make_history(cfgs, sched):
    cfg = cfgs[sched["cfg"]]
    fault = {"signal": {"func": sched["func"], "rel_line": sched["rel_line"],
                        "occurrence": sched["occurrence"],
                        "signum": sched["signum"]}}
    extra = {}
    if func_name(sched["func"]) in WRITERS:
        # the signal interrupts a checkpoint that is being written: as for a
        # crash during the write (C11), the state found by the next process
        # may be the previous or the new checkpoint
        extra["ckpt_allow_previous"] = True
    first = {}
    if sched.get("two_samplers"):
        # two FlowSampler objects exist in the process (the other one was
        # created first and has run to completion) when the signal arrives
        # in the run under test
        first["prelude"] = "interleaved"
    return {"steps": [job_of(cfg, fault=fault, **first),
                      job_of(cfg, **extra)]}


def judge(ctx, cfgs, sched, reports, out):
    cfg = cfgs[sched["cfg"]]
    case = {"sched": sched, "cfg": cfg}
    fname = func_name(sched["func"])
    classes = ["sampler:ins" if cfg["ins"] else "sampler:standard",
               "func:" + fname, "signal:%d" % sched["signum"]]
    if sched.get("two_samplers"):
        classes.append("two-samplers-created-up-front")
    first = reports[0]
    for r in reports:
        if r.get("status") == "exception" and r.get("exc_in_harness"):
            raise HarnessError(r.get("traceback", ""))
    viols = []

    def add(key, msg):
        viols.append(Violation(key, msg, case))

    fired = bool((first.get("data") or {}).get("signal"))
    sig = (first.get("data") or {}).get("signal") or {}
    where = ("@consume_sample" if sig.get("in_consume") else
             "@finalise" if sig.get("in_finalise") else "")
    if not fired:
        classes.append("signal-not-reached")
    else:
        classes.append("signal-fired")
        want = cfg["kwargs"].get("exit_code", 130)
        if first.get("status") != "exit" or first.get("exit_code") != want:
            add("exit-status!=configured-exit-code" + where,
                f"status {first.get('status')} code "
                f"{first.get('exit_code')} (wanted {want}); "
                f"{first.get('exc_type')}: {first.get('exc_msg')}")
        if cfg["ins"]:
            d = first.get("data") or {}
            a, b = d.get("resume_file_sha_last_checkpoint"), d.get(
                "resume_file_sha_at_exit")
            if a is not None and a != b:
                add("ins:last-boundary-checkpoint-not-intact",
                    f"resume file hash {a} -> {b}")
        if len(reports) < 2:
            add("not-resumed" + where, "no resume step executed")
        else:
            last = reports[-1]
            if last.get("status") != "completed":
                add("resumed-run-did-not-complete:%s@%s" % (
                    last.get("exc_type"), last.get("exc_where")) + where,
                    f"{last.get('status')}: {last.get('exc_type')}@"
                    f"{last.get('exc_where')}: {last.get('exc_msg')}")
            # none lost: the run must continue from where the signal found
            # it (standard sampler: the handler checkpoints the current
            # iteration; importance sampler: the last iteration boundary)
            sig_it = sig.get("iteration")
            second = reports[1]
            d2 = second.get("data") or {}
            res_it = None
            if cfg["ins"]:
                res_it = (d2.get("ckpt") or {}).get("resumed_iteration")
            elif (d2.get("ns") or {}).get("resumed_at"):
                res_it = d2["ns"]["resumed_at"][0]
            afresh = "restarted-afresh" in (second.get("classes") or []) or \
                "resumed" not in (second.get("classes") or [])
            expected = sig_it
            if cfg["ins"] and sig_it is not None:
                # iteration-triggered boundary checkpoints at multiples of
                # the interval; before the first one nothing can be resumed
                iv = int(cfg["kwargs"].get("checkpoint_interval", 1))
                expected = (sig_it // iv) * iv
            slack = 0
            if cfg["ins"] and sig_it is not None:
                # a signal between the iteration increment and the write of
                # that iteration's checkpoint resumes one interval earlier
                slack = iv
                expected = max(0, expected - iv) if expected - iv <= 0 \
                    else expected
            if sig_it is not None and expected > 0 and (
                    not cfg["ins"] or (sig_it // iv) * iv - iv > 0):
                sig_it = (sig_it // iv) * iv if cfg["ins"] else sig_it
                if afresh or res_it is None:
                    add("signal:discarded-points-lost:restarted-afresh"
                        + where,
                        f"signal at iteration {sig_it}; the next process did "
                        f"not resume from a checkpoint")
                elif not (sig_it - slack <= res_it <= sig_it):
                    add("signal:resumed-at-wrong-iteration" + where,
                        f"signal at iteration {sig_it}, resumed at {res_it}")
            skip = runcheck.known_elsewhere(["C03", "C05"])
            for i, rep in enumerate(reports):
                for v in rep.get("violations") or []:
                    if skip(v["key"]):
                        continue
                    k = v["key"]
                    if where and not k.endswith(where):
                        k += where
                    add(k, f"step {i}: {v['msg']} (x{v['count']})")
    for r in reports:
        classes.extend(r.get("classes") or [])
    nontrivial = fired and (fname in INTERESTING or bool(where))
    for v in viols:
        if ctx.known(v.key):
            out.stats.excluded_known[v.key] += 1
        out.add(v)
    out.stats.case(
        {"config": cfg["kwargs"], "func": sched["func"],
         "rel_line": sched["rel_line"], "occurrence": sched["occurrence"],
         "signum": sched["signum"]},
        nontrivial=nontrivial, classes=classes,
        key=jhash([sched, cfg["kwargs"]["seed"]]))


def select(ctx, schedules, n):
    """Seeded, stratified by function: round-robin over functions."""
    import random

    rng = random.Random(ctx.seed)  # selection of a finite enumeration
    byf = {}
    for s in schedules:
        byf.setdefault((s["cfg"], s["func"]), []).append(s)
    for v in byf.values():
        rng.shuffle(v)
    keys = sorted(byf)
    rng.shuffle(keys)
    out = []
    while len(out) < n and any(byf.values()):
        for k in keys:
            if byf[k] and len(out) < n:
                out.append(byf[k].pop())
    return out


def run(ctx):
    cfgs = base_configs(ctx.seed)
    schedules = enumerate_schedules(ctx, cfgs)
    sigs = [15, 2, 14]
    if ctx.quick:
        chosen = select(ctx, schedules, 60)
    else:
        chosen = schedules
    for i, s in enumerate(chosen):
        s["signum"] = sigs[i % 3]
        if i % 6 == 4:
            s["two_samplers"] = True
    out = Outcome()
    out.stats.extra["schedules_enumerated"] = len(schedules)
    out.stats.extra["exhaustive"] = (not ctx.quick)
    hist = [make_history(cfgs, s) for s in chosen]
    res = runs.run_histories("c13", hist)
    for s, reps in zip(chosen, res):
        judge(ctx, cfgs, s, reps, out)
    # recorded known findings: their own schedules are replayed on every run
    import glob
    import json
    import os
    from ..core import ROOT

    for p in sorted(glob.glob(os.path.join(ROOT, "replays", "known",
                                           "C13-*.json"))):
        out.merge(replay(ctx, json.load(open(p))["case"]))
    return out


def health(ctx, stats):
    need = {"signal-fired": 30 if ctx.quick else 300,
            "sampler:ins": 8, "sampler:standard": 8}
    return [f"class {k}: {stats.classes.get(k, 0)} < {v}"
            for k, v in need.items() if stats.classes.get(k, 0) < v]


def replay(ctx, case):
    out = Outcome()
    cfgs = [case["cfg"]]
    s = dict(case["sched"], cfg=0)
    reps = runs.run_histories("c13r", [make_history(cfgs, s)])[0]
    judge(ctx, cfgs, s, reps, out)
    return out
