"""C10 - batched, chunked and pooled evaluation equals pointwise evaluation,
once.

Generator : (1) exhaustive grid: batch size 0..12 x likelihood_chunksize
            {None, 1..13} x {no pool, deterministic fake pool with
            `_processes` 1..4} x {vectorised (auto-detected), vectorised but
            switched off, non-vectorised raising on batches, non-vectorised
            silently reducing batches} x {scalar-, array-returning user
            function} x {plain, unit-hypercube};
            (2) Hypothesis: larger shapes (d 2..8, n 0..2000), arbitrary float
            content, sequences of calls on one model (counter accumulates),
            pools whose size cannot be determined, `evaluate_log_likelihood`;
            (3) real fork pools with 1..4 processes, created by nessai
            (`configure_pool(n_pool=k)`) or supplied by the user (after
            `initialise_pool_variables(model)` or with it as initializer), one
            fresh spawned interpreter per (size, creator) group.
Oracle    : pure-Python float evaluation of the same formulas, one point at a
            time (`[f(x_i)]`), compared with exact equality and in order; the
            counter `likelihood_evaluations` moves by exactly len(batch) per
            likelihood call and not at all for prior calls; in unit-hypercube
            mode the rows the user function received (call log) are exactly
            `from_unit_hypercube(x_i)`; with `likelihood_chunksize` set no call
            of the user likelihood receives more points than that.
"""
import itertools
import logging
import math
import signal

import numpy as np
from hypothesis import strategies as st

from ..core import Ctx, HarnessError, Outcome, Violation, jhash
from ..hyp import run_given
from ..par import run_shards

LEVEL = "exploration"
RULE = (
    "Exhaustive grid (n 0..12 x chunksize None,1..13 x pool none/fake 1..4 x "
    "4 vectorisation kinds x scalar/array return x plain/unit-cube; every "
    "cell evaluates likelihood, prior and, in unit mode, the unit-cube prior) "
    "+ Hypothesis cases (d 2..8, n up to 2000, 1-4 calls per model, fake "
    "pools of 1..8 processes in forward/reverse task order, pools of "
    "undeterminable size, arbitrary finite floats) + real fork pools of 1..4 "
    "processes (nessai-created and user-supplied). One evaluation = one call "
    "of a batch interface compared with the pointwise reference. Non-trivial: "
    "n >= 2 points with at least two different reference values and the batch "
    "is really split (chunksize < n, a pool is used, or the point-by-point "
    "path is taken); distinct by hash of (model kind, pool, chunksize, "
    "function, mode, rows)."
)
ASSUMPTIONS = [
    "test models use only exactly rounded operations (* + and comparisons) in "
    "a fixed order, so a NumPy batch, a NumPy scalar and a Python float "
    "evaluation agree bit for bit; the harness verifies this for every model "
    "kind at start-up and exits 2 otherwise",
    "a fake pool is an object with `map`, `close`, `join`, `terminate` and "
    "(optionally) `_processes`; it evaluates tasks in forward or reverse order "
    "and returns results in task order, as multiprocessing.Pool.map does",
    "the documented contract of likelihood_chunksize ('the likelihood will be "
    "called with at most chunksize points at once') is read as part of "
    "'chunked evaluation'; it is only asserted for calls made after the "
    "vectorisation probe (which evaluates its own 10 prior draws at once)",
    "prior evaluations are not likelihood evaluations: the counter must not "
    "move during batch_evaluate_log_prior*",
    "call-log clauses are only evaluated for in-process (no/fake pool) cases; "
    "real pools are checked on values, order and the counter",
    "real pools use the fork start method (the one nessai recommends)",
]

VKS = ["vec", "vec-off", "nv-raise", "nv-sum",
       # mixed models: likelihood kind / prior kind differ (vectorisation is
       # detected separately per function)
       "mix:vec/nv-sum", "mix:nv-sum/vec", "mix:vec/nv-raise",
       "mix:nv-raise/vec",
       # accepts arrays, but its array path differs from its single-point
       # path in the 11th digit (a different reduction order, an interpolated
       # array path): not vectorised in the sense of the property
       "nv-approx", "mix:vec/nv-approx", "mix:nv-approx/vec",
       # the two prior functions differ (each is probed separately)
       "mix:vec/vec/nv-sum", "mix:vec/nv-sum/vec", "mix:nv-sum/vec/nv-raise"]
RKS = ["scalar", "array"]
UKS = ["default", "custom"]

SOFT_UNSIZED = "TypeError:batch_evaluate_function:vectorised-prior+pool-of-unknown-size"
# minimal fixed cases of anticipated defects: always executed by run()
ANTICIPATED = [
    {
        "model": {"d": 2, "vk": "vec", "rk": "scalar", "uk": "default"},
        "pool": {"kind": "unsized", "procs": 1, "order": "fwd",
                 "n_pool": None},
        "pp": True, "chunksize": None, "pre_detect": False,
        "configure": True, "seed": 0,
        "calls": [{"fn": "lp", "unit": False,
                   "rows": [[0.0, 0.0], [0.5, 1.0]]}],
    },
]


# ------------------------------------------------------------ reference
def _coefs(d):
    a = [(k + 1) / 4.0 for k in range(d)]
    b = [(k % 3 - 1) / 8.0 for k in range(d)]
    g = [((k + 1) % 3 - 1) / 4.0 for k in range(d)]
    lo = [-(k + 1.0) for k in range(d)]
    hi = [k + 2.0 for k in range(d)]
    w = [h - l for h, l in zip(hi, lo)]
    return a, b, g, lo, hi, w


C0 = -0.5
G0 = 0.25


def ref_ll(d, row):
    a = _coefs(d)[0]
    s = 0.0
    for k in range(d):
        t = row[k] * row[k]
        t = a[k] * t
        s = s + t
    return -0.5 * s


def ref_lp(d, row):
    _, b, _, lo, hi, _ = _coefs(d)
    if not all(lo[k] <= row[k] <= hi[k] for k in range(d)):
        return -math.inf
    lp = C0
    for k in range(d):
        lp = lp + b[k] * row[k]
    return lp


def ref_map(d, u):
    _, _, _, lo, _, w = _coefs(d)
    return [w[k] * u[k] + lo[k] for k in range(d)]


def ref_lpu(d, u, uk):
    if not all(0.0 <= v < 1.0 for v in u):
        return -math.inf
    if uk == "default":
        return 0.0
    g = _coefs(d)[2]
    lp = G0
    for k in range(d):
        lp = lp + g[k] * u[k]
    return lp


# ------------------------------------------------------------ test model
def make_model(spec):
    from nessai.model import Model

    d = spec["d"]
    vk, rk, uk = spec["vk"], spec["rk"], spec["uk"]
    a, b, g, lo, hi, w = _coefs(d)

    class CaseModel(Model):
        def __init__(self):
            self.names = [f"x{k}" for k in range(d)]
            self.bounds = {
                n: [lo[k], hi[k]] for k, n in enumerate(self.names)
            }
            self.calls = []
            if vk == "vec-off":
                self.allow_vectorised = False
                self.allow_vectorised_prior = False

        # -- helpers
        def _rows(self, x):
            arr = np.atleast_1d(x)
            cols = [arr[n].tolist() for n in self.names]
            return [tuple(c[i] for c in cols) for i in range(arr.size)]

        def _ret(self, out, vk=vk):
            if rk == "array":
                return np.atleast_1d(out)
            if vk in ("nv-raise", "nv-sum"):
                return float(out)
            return out

        def _eval(self, fn, x, rows, vk=vk):
            """Shared arithmetic: fn in ll/lp/lpu (custom)."""
            if vk.startswith("mix:"):
                parts = vk[4:].split("/")
                k_ll, k_pr = parts[0], parts[1]
                # (third entry: the unit-hypercube prior has a kind of its
                # own, otherwise that of the prior)
                k_pu = parts[2] if len(parts) > 2 else k_pr
                vk = k_ll if fn == "ll" else k_pr if fn == "lp" else k_pu
            _ret = self._ret
            self_ret = lambda out: _ret(out, vk)  # noqa: E731
            return self._eval_kind(fn, x, rows, vk, self_ret)

        def _eval_kind(self, fn, x, rows, vk, ret):
            if vk == "nv-raise":
                if np.size(x) != 1:
                    raise TypeError("this function takes one point")
                row = rows[0]
                if fn == "ll":
                    return ret(ref_ll(d, row))
                if fn == "lp":
                    return ret(ref_lp(d, row))
                return ret(ref_lpu(d, row, "custom"))
            red = np.sum if vk == "nv-sum" else (lambda v: v)
            if vk == "nv-approx" and np.size(x) > 1:
                exact_ret = ret

                def ret(out):
                    out = np.asarray(out, dtype=float)
                    with np.errstate(invalid="ignore"):
                        out = np.where(np.isfinite(out),
                                       out + np.abs(out) * 2.0 ** -36, out)
                    return exact_ret(out)
            if fn == "ll":
                s = 0.0
                for k, n in enumerate(self.names):
                    t = x[n] * x[n]
                    t = a[k] * t
                    s = s + red(t)
                return ret(-0.5 * s)
            if fn == "lp":
                inb = True
                lp = C0
                for k, n in enumerate(self.names):
                    inb = inb & (x[n] >= lo[k]) & (x[n] <= hi[k])
                    lp = lp + red(b[k] * x[n])
                if vk == "nv-sum":
                    inb = np.all(inb)
                return ret(np.where(inb, lp, -np.inf))
            inb = True
            lp = G0
            for k, n in enumerate(self.names):
                inb = inb & (x[n] >= 0.0) & (x[n] < 1.0)
                lp = lp + red(g[k] * x[n])
            if vk == "nv-sum":
                inb = np.all(inb)
            return ret(np.where(inb, lp, -np.inf))

        # -- user functions
        def log_likelihood(self, x):
            rows = self._rows(x)
            self.calls.append(("ll", len(rows), rows))
            return self._eval("ll", x, rows)

        def log_prior(self, x):
            rows = self._rows(x)
            self.calls.append(("lp", len(rows), rows))
            return self._eval("lp", x, rows)

        def log_prior_unit_hypercube(self, x):
            rows = self._rows(x)
            self.calls.append(("lpu", len(rows), rows))
            if uk == "default":
                with np.errstate(divide="ignore"):
                    return super().log_prior_unit_hypercube(x)
            return self._eval("lpu", x, rows)

        def from_unit_hypercube(self, x):
            x_out = x.copy()
            for k, n in enumerate(self.names):
                x_out[n] = w[k] * x[n] + lo[k]
            return x_out

        def to_unit_hypercube(self, x):
            x_out = x.copy()
            for k, n in enumerate(self.names):
                x_out[n] = (x[n] - lo[k]) / w[k]
            return x_out

    return CaseModel()


class FakePool:
    """Deterministic stand-in for multiprocessing.Pool."""

    def __init__(self, procs, order="fwd", sized=True):
        if sized:
            self._processes = procs
        self.order = order
        self.tasks = []
        self.open = True

    def map(self, func, iterable):
        items = list(iterable)
        self.tasks.append([int(np.size(i)) for i in items])
        res = [None] * len(items)
        idx = range(len(items))
        if self.order == "rev":
            idx = reversed(idx)
        for i in idx:
            res[i] = func(items[i])
        return res

    def close(self):
        self.open = False

    def terminate(self):
        self.open = False

    def join(self):
        pass


# ------------------------------------------------------------ predicate
def _to_float(v):
    if isinstance(v, str):
        return {"-inf": -math.inf, "inf": math.inf, "nan": math.nan}[v]
    return float(v)


def _same(a, b):
    """Exact, NaN-aware equality of two float sequences."""
    a = np.asarray(a, dtype=float)
    b = np.asarray(b, dtype=float)
    if a.shape != b.shape:
        return False
    return bool(np.all((a == b) | (np.isnan(a) & np.isnan(b))))


def _first_diff(a, b):
    a = np.asarray(a, dtype=float)
    b = np.asarray(b, dtype=float)
    if a.shape != b.shape:
        return f"shape {a.shape} vs {b.shape}"
    bad = ~((a == b) | (np.isnan(a) & np.isnan(b)))
    i = int(np.argmax(bad))
    perm = sorted(a.tolist()) == sorted(b.tolist())
    return (
        f"index {i}: got {a[i]!r} expected {b[i]!r} "
        f"({int(bad.sum())} of {a.size} differ"
        f"{'; a permutation of the expected values' if perm else ''})"
    )


FN_NAMES = {
    "ll": "batch_evaluate_log_likelihood",
    "lp": "batch_evaluate_log_prior",
    "lpu": "batch_evaluate_log_prior_unit_hypercube",
    "ell": "evaluate_log_likelihood",
}


def _reset_globals(seed):
    import nessai.utils.multiprocessing as nmp
    from nessai import config

    fresh = type(config.livepoints)()
    vars(config.livepoints).clear()
    vars(config.livepoints).update(vars(fresh))
    config.general.eps = 1e-8
    nmp._model = None
    np.random.seed(seed % (2**32))


def _make_pool(case, model):
    """Returns (pool, n_pool kwarg, real?)."""
    import multiprocessing as mp

    from nessai.utils.multiprocessing import initialise_pool_variables

    p = case["pool"]
    kind = p["kind"]
    if kind == "none":
        return None, None
    if kind == "fake":
        initialise_pool_variables(model)
        return FakePool(p["procs"], p.get("order", "fwd")), None
    if kind == "unsized":
        initialise_pool_variables(model)
        return (
            FakePool(p["procs"], p.get("order", "fwd"), sized=False),
            p.get("n_pool"),
        )
    # real pools
    _allow_children()
    if kind == "real-nessai":
        return None, p["procs"]
    ctx = mp.get_context("fork")
    if kind == "real-user-global":
        initialise_pool_variables(model)
        return ctx.Pool(p["procs"]), None
    if kind == "real-user-init":
        return (
            ctx.Pool(
                p["procs"],
                initializer=initialise_pool_variables,
                initargs=(model,),
            ),
            None,
        )
    raise HarnessError(f"unknown pool kind {kind}")


def _second_model(case, d):
    """A second model of the same process gets a pool of its own, set up in
    the second documented way (a process pool whose workers are initialised
    with that model), and evaluates a batch.  What the first model's pool
    evaluates afterwards must still be the first model's functions."""
    import multiprocessing as mp

    from nessai.livepoint import numpy_array_to_live_points
    from nessai.utils.multiprocessing import initialise_pool_variables

    _allow_children()
    d2 = d + 1
    other = make_model({"d": d2, "vk": "vec", "rk": "array",
                        "uk": "default"})
    ctx = mp.get_context("fork")
    pool2 = ctx.Pool(2, initializer=initialise_pool_variables,
                     initargs=(other,))
    try:
        other.configure_pool(pool=pool2)
        rows = grid_rows(5, d2, False)
        x = numpy_array_to_live_points(
            np.array(rows, dtype=float).reshape(len(rows), d2), other.names)
        got = np.asarray(other.batch_evaluate_log_likelihood(x))
        exp = [ref_ll(d2, r) for r in rows]
        if not _same(got, exp):
            raise Violation(
                "values:batch_evaluate_log_likelihood:second-model",
                f"second model (own process pool): {_first_diff(got, exp)}",
                case)
    except Violation:
        pool2.terminate()
        pool2.join()
        raise
    except Exception as e:  # noqa: BLE001
        pool2.terminate()
        pool2.join()
        raise Violation(
            f"{type(e).__name__}:second-model", f"{e!r}", case)
    return other, pool2


def _allow_children():
    """Shards are daemonic pool workers of the runner; real-pool cases need
    children, and nessai's own Pool must use fork."""
    import multiprocessing as mp

    mp.current_process()._config["daemon"] = False
    if mp.get_start_method(allow_none=True) != "fork":
        mp.set_start_method("fork", force=True)


def execute(case, on_call=None, handler=None):
    """Run one case against nessai.  Raises Violation.

    on_call(info) is called once per batch call that was compared;
    handler(v) -> True means "recorded, carry on with the next call".
    """
    from nessai.livepoint import (
        empty_structured_array,
        numpy_array_to_live_points,
    )

    spec = case["model"]
    d = spec["d"]
    _reset_globals(case.get("seed", 0))
    _LAST_ARRAY.clear()
    model = make_model(spec)
    kind = case["pool"]["kind"]
    real = kind.startswith("real")
    cs = case.get("chunksize")
    if cs is not None:
        model.likelihood_chunksize = cs
    model.parallelise_prior = bool(case.get("pp"))
    pool = None
    second = None
    try:
        try:
            pool, n_pool = _make_pool(case, model)
            if pool is not None or n_pool is not None or case.get(
                "configure"
            ):
                model.configure_pool(pool=pool, n_pool=n_pool)
        except Violation:
            raise
        except HarnessError:
            raise
        except Exception as e:
            raise Violation(
                f"{type(e).__name__}:configure_pool",
                f"{e!r}",
                case,
            )
        if case.get("pre_detect"):
            try:
                model.vectorised_likelihood
                model.vectorised_prior
                model.vectorised_prior_unit_hypercube
            except Exception as e:
                raise Violation(
                    f"{type(e).__name__}:vectorised-probe", f"{e!r}", case
                )
        if case.get("second_model"):
            second = _second_model(case, d)
        probed = None
        for ci, call in enumerate(case["calls"]):
            try:
                info = _one_call(
                    case, ci, call, model, d, spec, real, cs, probed,
                    numpy_array_to_live_points, empty_structured_array,
                )
            except Violation as v:
                if handler is not None and handler(v):
                    continue
                raise
            if on_call is not None:
                on_call(info)
    finally:
        try:
            model.close_pool()
        finally:
            if pool is not None and real:
                pool.terminate()
                pool.join()
            if second is not None:
                try:
                    second[0].close_pool()
                finally:
                    second[1].terminate()
                    second[1].join()
            _reset_globals(0)


_LAST_ARRAY = {}


def _one_call(case, ci, call, model, d, spec, real, cs, probed, to_lp,
              empty):
    fn = call["fn"]
    unit = bool(call.get("unit")) or fn == "lpu"
    rows = [[_to_float(v) for v in r] for r in call["rows"]]
    n = len(rows)
    if n:
        x = to_lp(np.array(rows, dtype=float).reshape(n, d), model.names)
    else:
        x = empty(0, names=model.names)
    if x.shape != (n,):
        raise HarnessError("input construction failed")
    prev = _LAST_ARRAY.get(id(model))
    if call.get("same_array_as_previous") and prev is not None and \
            prev.shape == x.shape:
        # refill the array object of the previous call in place
        for name in model.names:
            prev[name][:] = x[name]
        x = prev
    _LAST_ARRAY.clear()
    _LAST_ARRAY[id(model)] = x
    # reference
    if fn == "lpu":
        phys = rows
        exp = [ref_lpu(d, r, spec["uk"]) for r in rows]
    else:
        phys = [ref_map(d, r) for r in rows] if unit else rows
        f = ref_lp if fn == "lp" else ref_ll
        exp = [f(d, r) for r in phys]
    # can the (lazy) vectorisation probe run inside this call?
    lazy = {
        "ll": model.allow_vectorised
        and model._vectorised_likelihood is None,
        "lp": model.allow_vectorised_prior
        and model._vectorised_prior is None,
        "lpu": model.allow_vectorised_prior
        and model._vectorised_prior_unit_hypercube is None,
        "ell": False,
    }[fn]
    before = model.likelihood_evaluations
    model.calls = []
    where = f"call {ci} {FN_NAMES[fn]}"
    arg = x
    if fn == "ell" and call.get("void"):
        arg = x[0]
    try:
        with np.errstate(all="ignore"):
            if fn == "ll":
                out = model.batch_evaluate_log_likelihood(
                    arg, unit_hypercube=unit
                ) if unit else model.batch_evaluate_log_likelihood(arg)
            elif fn == "lp":
                out = model.batch_evaluate_log_prior(
                    arg, unit_hypercube=unit
                ) if unit else model.batch_evaluate_log_prior(arg)
            elif fn == "lpu":
                out = model.batch_evaluate_log_prior_unit_hypercube(arg)
            else:
                out = model.evaluate_log_likelihood(arg)
    except Exception as e:
        p = case["pool"]
        if (
            isinstance(e, TypeError)
            and p["kind"] == "unsized"
            and p.get("n_pool") is None
            and case.get("pp")
            and fn in ("lp", "lpu")
        ):
            raise Violation(
                SOFT_UNSIZED,
                f"{where}: {e!r} (user pool without _processes, n_pool not "
                "given, parallelise_prior=True, vectorised prior)",
                case,
            )
        raise Violation(
            f"{type(e).__name__}:{FN_NAMES[fn]}", f"{where}: {e!r}", case
        )
    after = model.likelihood_evaluations
    log = model.calls
    # ---- values, order, shape
    got = np.asarray(out)
    if fn == "ell":
        got = got.reshape(-1)
    if got.shape != (n,):
        raise Violation(
            f"shape:{FN_NAMES[fn]}",
            f"{where}: result shape {got.shape}, batch of {n}",
            case,
        )
    if not _same(got, exp):
        raise Violation(
            f"values:{FN_NAMES[fn]}" + (":unit" if unit else ""),
            f"{where}: {_first_diff(got, exp)}",
            case,
        )
    # ---- counter
    want = n if fn in ("ll", "ell") else 0
    if after - before != want:
        raise Violation(
            f"counter:{FN_NAMES[fn]}",
            f"{where}: likelihood_evaluations moved by {after - before}, "
            f"batch of {n}",
            case,
        )
    # ---- call log (in-process only, after the vectorisation probe)
    pooled = case["pool"]["kind"] != "none" and (
        fn == "ll" or case.get("pp")
    )
    if not real and not lazy and fn != "ell":
        seen = [r for c in log if c[0] == fn for r in c[2]]
        if set(seen) != set(tuple(r) for r in phys) and not any(
            any(v != v for v in r) for r in phys
        ):
            extra = sorted(set(seen) - set(tuple(r) for r in phys))[:3]
            miss = sorted(set(tuple(r) for r in phys) - set(seen))[:3]
            raise Violation(
                f"calls:{FN_NAMES[fn]}:points" + (":unit" if unit else ""),
                f"{where}: user function saw rows {extra} that are not in "
                f"the batch / never saw {miss}",
                case,
            )
        if fn == "ll" and cs:
            biggest = max([c[1] for c in log if c[0] == "ll"] or [0])
            if biggest > cs:
                raise Violation(
                    "chunk-size-exceeded",
                    f"{where}: likelihood called with {biggest} points at "
                    f"once, likelihood_chunksize={cs}",
                    case,
                )
    vec = {
        "ll": model.allow_vectorised and bool(model._vectorised_likelihood),
        "lp": model.allow_vectorised_prior and bool(model._vectorised_prior),
        "lpu": model.allow_vectorised_prior
        and bool(model._vectorised_prior_unit_hypercube),
        "ell": False,
    }[fn]
    return dict(
        fn=fn, unit=unit, n=n, exp=exp, rows=rows, lazy=lazy, vec=vec,
        pooled=pooled, ncalls=len(log),
        same_array=bool(call.get("same_array_as_previous")),
    )


# ------------------------------------------------------------ statistics
def _record(stats, case, info):
    p = case["pool"]
    cs = case.get("chunksize")
    n = info["n"]
    fn = info["fn"]
    cl = [
        "fn:" + fn,
        "vk:" + case["model"]["vk"],
        "rk:" + case["model"]["rk"],
        "pool:" + p["kind"],
        "mode:unit" if info["unit"] else "mode:plain",
        "vectorised-path" if info["vec"] else "pointwise-path",
    ]
    if p["kind"] != "none":
        cl.append(f"procs:{p['procs']}")
        if info["pooled"]:
            cl.append("pooled-call")
            if n and n < p["procs"]:
                cl.append("n<procs")
    if fn == "lpu":
        cl.append("uk:" + case["model"]["uk"])
    if info.get("same_array"):
        cl.append("array-refilled-in-place")
    if n == 0:
        cl.append("empty-batch")
    elif n == 1:
        cl.append("single-point")
    if info["lazy"]:
        cl.append("lazy-probe")
    if fn == "ll":
        if cs is None:
            cl.append("chunk:none")
        elif cs > n:
            cl.append("chunk>n")
        elif cs == n:
            cl.append("chunk=n")
        elif n % cs:
            cl.append("chunk<n:remainder")
        else:
            cl.append("chunk<n:exact")
    if any(v == -math.inf for v in info["exp"]):
        cl.append("has--inf")
    split = (
        (fn == "ll" and cs is not None and cs < n)
        or info["pooled"]
        or not info["vec"]
    )
    distinct = len(set(info["exp"]))
    nontrivial = n >= 2 and distinct >= 2 and split and fn != "ell"
    if n >= 2 and distinct == n:
        cl.append("all-values-distinct")
    key = jhash([case["model"], p, cs, case.get("pp"), fn, info["unit"],
                 info["rows"]])
    desc = None
    if nontrivial:
        desc = {
            "model": case["model"], "pool": p, "chunksize": cs,
            "parallelise_prior": case.get("pp"), "fn": FN_NAMES[fn],
            "unit_hypercube": info["unit"], "n": n,
            "rows_head": info["rows"][:3],
        }
    stats.case(desc, nontrivial=nontrivial, classes=cl, key=key)


def _run_case(case, stats, ctx, out):
    """Execute with the known / anticipated-finding protocol."""

    def handler(v):
        if ctx.known(v.key) or v.key == SOFT_UNSIZED:
            stats.excluded_known[v.key] += 1
            return True
        return False

    execute(case, on_call=lambda info: _record(stats, case, info),
            handler=handler)


# ------------------------------------------------------------ grid
def grid_rows(n, d, unit):
    """Deterministic, pairwise different rows with exactly representable
    coordinates; some outside the prior / the unit cube."""
    rows = []
    for i in range(n):
        u = [((5 * i + 3 * k + 1) % 16 + 16 * (i // 16)) / 16.0 / (
            1 + i // 16) for k in range(d)]
        u = [v if v < 1.0 else v - math.floor(v) for v in u]
        if i % 5 == 4:
            u[0] = 1.0
        if i % 7 == 6:
            u[1] = -0.25
        rows.append(u if unit else ref_map(d, u))
    if not unit:
        for i, r in enumerate(rows):
            if i % 5 == 4:
                r[0] = r[0] + 1.0  # above the upper bound
    return rows


def grid_cells(nmax, csmax):
    pools = [{"kind": "none", "procs": 0}] + [
        {"kind": "fake", "procs": k} for k in (1, 2, 3, 4)
    ]
    css = [None] + list(range(1, csmax + 1))
    return list(
        itertools.product(range(nmax + 1), css, pools, VKS, RKS,
                          [False, True])
    )


def grid_case(cell, idx):
    n, cs, pool, vk, rk, unit = cell
    d = 2 + n % 3
    c = (cs or 0)
    pool = dict(pool, order="rev" if (n + c) % 2 else "fwd", n_pool=None)
    calls = [
        {"fn": "ll", "unit": unit, "rows": grid_rows(n, d, unit)},
        {"fn": "lp", "unit": unit, "rows": grid_rows(n, d, unit)},
    ]
    if unit:
        calls.append({"fn": "lpu", "unit": True,
                      "rows": grid_rows(n, d, True)})
    return {
        "model": {"d": d, "vk": vk, "rk": rk,
                  "uk": UKS[(n + c + pool["procs"]) % 2]},
        "pool": pool,
        "pp": (n + c) % 3 != 0,
        "chunksize": cs,
        "pre_detect": (n + pool["procs"] + c) % 2 == 0,
        "configure": (n + c) % 2 == 0,
        "seed": idx,
        "calls": calls,
    }


# ------------------------------------------------------------ Hypothesis
_UNIT_VALUES = st.one_of(
    st.integers(0, 63).map(lambda k: k / 64.0),
    st.floats(0.0, 1.0, exclude_max=True),
    st.sampled_from([0.0, 1.0, -0.25, 1.5, 5e-324, 1.0 - 2.0**-53, -0.0]),
)
_PHYS_VALUES = st.one_of(
    st.floats(-1.0, 2.0),
    st.floats(-10.0, 10.0),
    st.integers(-3, 4).map(float),
    st.floats(-1e300, 1e300),
    st.sampled_from([-1.0, 2.0, 0.0, -0.0, 1e300, -1e300, 1e-320, 1e155]),
)


@st.composite
def hyp_cases(draw, big):
    d = draw(st.integers(2, 8))
    spec = {
        "d": d,
        "vk": draw(st.sampled_from(VKS)),
        "rk": draw(st.sampled_from(RKS)),
        "uk": draw(st.sampled_from(UKS)),
    }
    pk = draw(st.sampled_from(["none", "fake", "fake", "unsized"]))
    pool = {"kind": pk, "procs": 0, "order": "fwd", "n_pool": None}
    if pk != "none":
        pool["procs"] = draw(st.integers(1, 8))
        pool["order"] = draw(st.sampled_from(["fwd", "rev"]))
    if pk == "unsized":
        pool["n_pool"] = draw(st.one_of(st.none(), st.integers(1, 5)))
    ncalls = draw(st.integers(1, 4))
    calls = []
    nmax = 0
    for _ in range(ncalls):
        fn = draw(st.sampled_from(["ll", "ll", "lp", "lpu", "ell"]))
        unit = fn == "lpu" or (fn != "ell" and draw(st.booleans()))
        if fn == "ell":
            n = 1
        elif big:
            n = draw(st.one_of(st.integers(0, 40), st.integers(41, 2000)))
        else:
            n = draw(st.one_of(st.integers(0, 13), st.integers(0, 60)))
        nb = min(n, 24)
        vals = _UNIT_VALUES if unit else _PHYS_VALUES
        block = draw(
            st.lists(
                st.lists(vals, min_size=d, max_size=d),
                min_size=nb, max_size=nb,
            )
        )
        rows = [list(block[i % nb]) for i in range(n)]
        call = {"fn": fn, "unit": unit, "rows": rows}
        if fn == "ell":
            call["void"] = draw(st.booleans())
        calls.append(call)
        nmax = max(nmax, n)
        if fn in ("ll", "lp") and n >= 1 and draw(st.integers(0, 2)) == 0:
            # a caller that refills one work array in place: the next call
            # gets the same array object with other contents
            fn2 = draw(st.sampled_from(["ll", "lp"]))
            rows2 = [list(r) for r in rows[1:] + rows[:1]]
            rows2[0] = list(draw(st.lists(vals, min_size=d, max_size=d)))
            calls.append({"fn": fn2, "unit": unit, "rows": rows2,
                          "same_array_as_previous": True})
    cs = draw(
        st.one_of(
            st.none(),
            st.integers(1, 14),
            st.integers(1, max(1, nmax + 1)),
            st.just(max(1, nmax)),
            st.just(nmax + 1),
        )
    )
    return {
        "model": spec,
        "pool": pool,
        "pp": draw(st.booleans()),
        "chunksize": cs,
        "pre_detect": draw(st.booleans()),
        "configure": draw(st.booleans()),
        "seed": draw(st.integers(0, 2**31 - 1)),
        "calls": calls,
    }


# ------------------------------------------------------------ real pools
REAL_KINDS = ["real-nessai", "real-user-global", "real-user-init"]


def real_cases(kind, procs, full):
    if full:
        ns = list(range(0, 13)) + [40]
        css = [None] + list(range(1, 14))
    else:
        ns = [0, 1, 2, 3, 5, 8, 12, 40]
        css = [None, 1, 3, 4, 13]
    out = []
    idx = 0
    for vk, rk, unit in itertools.product(VKS, RKS, [False, True]):
        calls = []
        d = 3
        # one model + one pool, chunksize changes are separate cases
        for cs in css:
            calls = []
            for n in ns:
                calls.append({"fn": "ll", "unit": unit,
                              "rows": grid_rows(n, d, unit)})
                if cs in (None, 3):
                    calls.append({"fn": "lp", "unit": unit,
                                  "rows": grid_rows(n, d, unit)})
                    if unit:
                        calls.append({"fn": "lpu", "unit": True,
                                      "rows": grid_rows(n, d, True)})
            idx += 1
            out.append({
                "model": {"d": d, "vk": vk, "rk": rk, "uk": UKS[idx % 2]},
                "pool": {"kind": kind, "procs": procs, "order": "fwd",
                         "n_pool": None},
                "pp": idx % 3 != 0,
                "chunksize": cs,
                "pre_detect": idx % 2 == 0,
                "configure": True,
                "seed": idx,
                "calls": calls,
            })
    return out


def two_model_cases():
    """First model: in-process (fake) pool after initialise_pool_variables;
    a second model with its own process pool is configured in between."""
    out = []
    idx = 0
    d = 3
    for vk, rk, procs in itertools.product(
            ("vec", "nv-sum", "nv-raise", "vec-off"), RKS, (1, 3)):
        idx += 1
        calls = []
        for n in (1, 2, 5, 12):
            calls.append({"fn": "ll", "unit": False,
                          "rows": grid_rows(n, d, False)})
            calls.append({"fn": "lp", "unit": False,
                          "rows": grid_rows(n, d, False)})
        out.append({
            "model": {"d": d, "vk": vk, "rk": rk, "uk": "default"},
            "pool": {"kind": "fake", "procs": procs, "order": "fwd",
                     "n_pool": None},
            "pp": True, "chunksize": None if idx % 2 else 3,
            "pre_detect": idx % 2 == 0, "configure": True, "seed": idx,
            "second_model": True, "calls": calls,
        })
    return out


class _Timeout(Exception):
    pass


def _alarm(signum, frame):  # pragma: no cover
    raise _Timeout()


# ------------------------------------------------------------ shards
def self_test():
    """The models must be exact: NumPy batch == NumPy scalar == Python."""
    from nessai.livepoint import numpy_array_to_live_points

    for d, vk, rk in itertools.product((2, 5, 8), ("vec", "nv-sum",
                                                   "nv-raise"), RKS):
        m = make_model({"d": d, "vk": vk, "rk": rk, "uk": "custom"})
        rows = grid_rows(13, d, False) + [[1e155 * (k + 1) for k in
                                           range(d)]]
        urows = grid_rows(13, d, True)
        x = numpy_array_to_live_points(np.array(rows), m.names)
        u = numpy_array_to_live_points(np.array(urows), m.names)
        with np.errstate(all="ignore"):
            for i in range(len(rows)):
                for pt in (x[i], x[i:i + 1]):
                    a = np.asarray(m.log_likelihood(pt)).reshape(-1)[0]
                    b = np.asarray(m.log_prior(pt)).reshape(-1)[0]
                    if not _same([a, b], [ref_ll(d, rows[i]),
                                          ref_lp(d, rows[i])]):
                        raise HarnessError(f"model {vk}/{rk} not exact")
            for i in range(len(urows)):
                for pt in (u[i], u[i:i + 1]):
                    a = np.asarray(
                        m.log_prior_unit_hypercube(pt)).reshape(-1)[0]
                    ph = m.from_unit_hypercube(pt)
                    b = [float(np.atleast_1d(ph)[n][0]) for n in m.names]
                    if not _same([a], [ref_lpu(d, urows[i], "custom")]) or \
                            not _same(b, ref_map(d, urows[i])):
                        raise HarnessError(f"unit model {vk}/{rk} not exact")
            if vk == "vec":
                if not _same(m.log_likelihood(x),
                             [ref_ll(d, r) for r in rows]) or not _same(
                        m.log_prior(x), [ref_lp(d, r) for r in rows]):
                    raise HarnessError("vectorised model not exact")


def shard(kind, seed, known=(), **kw):
    logging.getLogger("nessai").setLevel(logging.CRITICAL)
    ctx = Ctx("C10", "quick", seed)
    out = Outcome()
    stats = out.stats
    self_test()
    if kind == "grid":
        cells = grid_cells(kw["nmax"], kw["csmax"])
        mine = range(kw["part"], len(cells), kw["parts"])
        for idx in mine:
            case = grid_case(cells[idx], idx)
            try:
                _run_case(case, stats, ctx, out)
            except Violation as v:
                # one failing cell per key is enough; keep going to find
                # different keys but stop after a handful
                if v.key not in {x["key"] for x in out.violations}:
                    out.add(v)
                if len(out.violations) >= 5:
                    stats.extra["grid_stopped_early"] = 1
                    break
        stats.extra["grid_cells"] = len(mine)
    elif kind == "hyp":
        def body(case):
            _run_case(case, stats, ctx, out)

        for v in run_given(body, hyp_cases(False), seed, kw["n_small"]):
            out.add(v)
        if not out.violations and kw.get("n_big"):
            for v in run_given(body, hyp_cases(True), seed + 7,
                               kw["n_big"]):
                out.add(v)
    elif kind == "real":
        signal.signal(signal.SIGALRM, _alarm)
        signal.alarm(kw.get("timeout", 3600))
        try:
            ncase = 0
            for case in real_cases(kw["pool_kind"], kw["procs"],
                                   kw["full"]):
                try:
                    _run_case(case, stats, ctx, out)
                except Violation as v:
                    out.add(v)
                    break
                ncase += 1
            stats.extra["real_pools_created"] = ncase
        except _Timeout:
            raise HarnessError(
                f"real pool group {kw['pool_kind']}/{kw['procs']} hung"
            )
        finally:
            signal.alarm(0)
    elif kind == "two-models":
        signal.signal(signal.SIGALRM, _alarm)
        signal.alarm(kw.get("timeout", 1800))
        try:
            for case in two_model_cases():
                try:
                    _run_case(case, stats, ctx, out)
                    stats.classes["two-models-in-one-process"] += 1
                except Violation as v:
                    out.add(v)
                    break
        except _Timeout:
            raise HarnessError("two-model group hung")
        finally:
            signal.alarm(0)
    elif kind == "anticipated":
        for case in ANTICIPATED:
            try:
                execute(case, on_call=lambda i: _record(stats, case, i))
            except Violation as v:
                out.add(v)
    else:
        raise HarnessError(kind)
    return out


def run(ctx):
    nmax, csmax = (12, 13) if ctx.quick else (16, 17)
    parts = 12 if ctx.quick else 16
    n_small, n_big = (250, 25) if ctx.quick else (6000, 400)
    # real-pool groups first: each gets a worker that has run nothing else
    kws = [
        dict(kind="real", seed=ctx.seed * 1000 + 200 + 10 * j + k,
             pool_kind=pk, procs=k, full=not ctx.quick)
        for j, pk in enumerate(REAL_KINDS)
        for k in (1, 2, 3, 4)
    ]
    kws += [dict(kind="two-models", seed=ctx.seed * 1000 + 300)]
    kws += [dict(kind="anticipated", seed=ctx.seed)]
    kws += [
        dict(kind="grid", seed=ctx.seed * 1000 + i, part=i, parts=parts,
             nmax=nmax, csmax=csmax)
        for i in range(parts)
    ]
    kws += [
        dict(kind="hyp", seed=ctx.seed * 1000 + 100 + i, n_small=n_small,
             n_big=n_big)
        for i in range(16)
    ]
    out = run_shards("vf.checks.c10", "shard", kws)
    expected = len(grid_cells(nmax, csmax))
    if not out.stats.extra.get("grid_stopped_early") and \
            out.stats.extra.get("grid_cells") != expected:
        raise HarnessError(
            f"grid incomplete: {out.stats.extra.get('grid_cells')} of "
            f"{expected} cells"
        )
    out.stats.extra["grid_cells_expected"] = expected
    out.stats.extra["grid_space"] = (
        f"n 0..{nmax} x chunksize None,1..{csmax} x pool none,fake1..4 x "
        f"{len(VKS)} vectorisation kinds x {len(RKS)} return kinds x "
        "plain/unit (enumerated completely)"
    )
    return out


def health(ctx, stats):
    need = {
        "pool:none": 200, "pool:fake": 200, "pool:unsized": 20,
        "pool:real-nessai": 50, "pool:real-user-global": 50,
        "pool:real-user-init": 50,
        "vk:vec": 200, "vk:vec-off": 200, "vk:nv-raise": 200,
        "vk:nv-sum": 200, "vk:nv-approx": 200, "rk:scalar": 200, "rk:array": 200,
        "mode:unit": 200, "mode:plain": 200,
        "vectorised-path": 200, "pointwise-path": 200,
        "empty-batch": 50, "single-point": 50, "n<procs": 50,
        "chunk:none": 50, "chunk>n": 50, "chunk=n": 50,
        "chunk<n:remainder": 50, "chunk<n:exact": 50,
        "lazy-probe": 50, "fn:ll": 200, "fn:lp": 200, "fn:lpu": 100,
        "fn:ell": 20, "uk:default": 50, "uk:custom": 50, "has--inf": 50,
        "pooled-call": 200, "all-values-distinct": 200,
        "array-refilled-in-place": 100,
    }
    return [
        f"class {c} has only {stats.classes.get(c, 0)} cases (< {m})"
        for c, m in need.items()
        if stats.classes.get(c, 0) < m
    ]


def replay(ctx, case):
    logging.getLogger("nessai").setLevel(logging.CRITICAL)
    try:
        execute(case)
    except Violation as v:
        return [v]
    return []
