"""C20 - every algorithmic option runs to completion or is rejected up front.

Generator : option tables of documented values for both samplers; cases =
            each value alone against a small base configuration, plus
            Hypothesis-drawn combinations of 2-4 options (pairs covered are
            counted), on 2- and 3-parameter models, several seeds.
Oracle    : outcome classes of a bounded real run: exception before the first
            live point is drawn -> rejected up front (pass); completes and the
            results pass the C05 recomputation (pass); exception after
            sampling started (violation); > 2e6 latent draws in one pool
            population (violation, non-terminating); wall-clock backstop
            (inconclusive).
"""
import math

from hypothesis import strategies as st

from .. import configs, runcheck
from ..core import jhash

USES_KNOWN_CASES = True
LEVEL = "exploration"
RULE = (
    "Real bounded runs, one per configuration: every documented algorithmic "
    "option value on its own against a small base configuration of the "
    "standard and the importance sampler, plus Hypothesis-drawn combinations "
    "of 2-4 options (the number of distinct option-value pairs covered is "
    "reported), on 2- and 3-parameter analytic models, seeds from "
    "Hypothesis. evaluations = runs. Non-trivial: the case differs from the "
    "defaults in >= 2 option values and reached flow sampling / level >= 1; "
    "distinct by configuration hash."
)
ASSUMPTIONS = [
    "only option values offered by a docstring or docs/*.rst are generated",
    "every case carries an iteration cap (a documented option): convergence "
    "of a stopping criterion is a statistical matter (C06/C15); the bound on "
    "proposal draws is about the code's own loops",
    "an exception raised before the sampler draws its first live point is a "
    "configuration error 'before any sampling starts'",
    "violations are keyed by exception type + innermost nessai frame (or the "
    "draw bound + proposal class), i.e. by call site",
]

BASE_STD = {
    "nlive": 60, "plot": False, "max_iteration": 500, "stopping": 0.5,
    "flow_config": {"n_blocks": 2, "n_neurons": 8},
    "training_config": {"max_epochs": 20, "patience": 5},
    "checkpointing": False,
}
BASE_INS = {
    "nlive": 150, "plot": False, "max_iteration": 4, "min_samples": 40,
    "flow_config": {"n_blocks": 2, "n_neurons": 8},
    "training_config": {"max_epochs": 100, "patience": 10},
    "checkpointing": False,
}

# option -> list of values; keys with "." address nested dictionaries,
# "run." addresses FlowSampler.run keyword arguments, "model" swaps the model
STD_OPTIONS = {
    "flow_proposal_class": ["flowproposal", "augmentedflowproposal",
                            "clusteringflowproposal"],
    "flow_config.ftype": ["realnvp", "maf", "nsf"],
    "flow_config.linear_transform": [None, "permutation", "lu", "svd"],
    "flow_config.batch_norm_between_layers": [True, False],
    "flow_config.batch_norm_within_layers": [True],
    "flow_config.n_layers": [1, 3],
    "flow_config.n_blocks": [1, 4],
    "flow_config.distribution": ["lars", "mvn"],
    "training_config.annealing": [True],
    "training_config.noise_scale": [0.01],
    "training_config.noise_type": ["constant", "adaptive"],
    "training_config.clip_grad_norm": [None, 1.0],
    "training_config.val_size": [0.2, 0.0],
    "training_config.batch_size": [10, 5000],
    "training_config.use_dataloader": [True],
    "training_config.optimiser": ["adam", "sgd"],
    "latent_prior": ["truncated_gaussian", "gaussian", "uniform_nsphere",
                     "uniform_nball", "flow"],
    "constant_volume_mode": [True, False],
    "volume_fraction": [0.8, 0.99],
    "fuzz": [1.2],
    "expansion_fraction": [None, 1.0],
    "fixed_radius": [2.0],
    "min_radius": [1.0],
    "max_radius": [5.0, False],
    "compute_radius_with_all": [True],
    "reparameterisations": ["default", "rescaletobounds", "offset",
                            "inversion", "inversion-duplicate", "logit",
                            "log-rescale", "zscore", "none"],
    "fallback_reparameterisation": [None, "default", "zscore"],
    "reverse_reparameterisations": [True],
    "use_default_reparameterisations": [True, False],
    "reset_weights": [True, 2],
    "reset_permutations": [True, 2],
    "reset_flow": [True, 2],
    "retrain_acceptance": [False],
    "reset_acceptance": [True],
    "acceptance_threshold": [0.1],
    "train_on_empty": [False],
    "training_frequency": [50],
    "cooldown": [10],
    "memory": [30],
    "maximum_uninformed": [10, 0, False],
    "uninformed_acceptance_threshold": [0.5],
    "analytic_priors": [True],
    "poolsize": [20, 500],
    "drawsize": [1, 30, 2000],
    "update_poolsize": [False],
    "max_poolsize_scale": [2],
    "check_acceptance": [True],
    "truncate_log_q": [True],
    "accumulate_weights": [True],
    "shrinkage_expectation": ["t"],
    "run.posterior_sampling_method": ["rejection_sampling",
                                      "multinomial_resampling",
                                      "importance_sampling"],
    "prior_sampling": [True],
    "n_pool": [2],
    "likelihood_chunksize": [7],
    "torch_dtype": ["float64"],
    "disable_vectorisation": [True],
    "model": [{"name": "gauss_uniform", "dims": 3},
              {"name": "gauss_gauss", "dims": 2}],
}
INS_OPTIONS = {
    "threshold_method": ["entropy", "quantile"],
    "threshold_kwargs": [{"q": 0.3}, {"q": 0.8, "include_likelihood": True}],
    "strict_threshold": [True],
    "replace_all": [True],
    "draw_constant": [False],
    "draw_iid_live": [False],
    "n_initial": [80, 400],
    "min_samples": [10, 150],
    "min_remove": [20],
    "max_samples": [400],
    "n_update": [50],
    "weighted_kl": [True, False],
    "reset_flow": [False, 2],
    "clip": [True],
    "reparameterisation": [None, "logit"],
    "stopping_criterion": ["ratio", "ratio_all", "ratio_ns", "Z_err",
                           "evidence_error", "log_dZ", "log_evidence", "ess",
                           "fractional_error",
                           # several criteria, listed in an order of their own
                           ["log_dZ", "ratio"], ["fractional_error", "ess"],
                           ["ess", "evidence_error", "log_evidence"]],
    "tolerance": [1.0],
    "check_criteria": ["all"],
    "min_iteration": [2],
    "train_final_flow": [True],
    "bootstrap": [True],
    "save_log_q": [True],
    "flow_config.ftype": ["realnvp", "maf", "nsf"],
    "flow_config.linear_transform": ["permutation", "lu"],
    "training_config.val_size": [0.2, 0.0],
    "training_config.batch_size": [10, 5000],
    "training_config.noise_type": ["constant"],
    "training_config.clip_grad_norm": [None],
    "training_config.optimiser": ["sgd"],
    "run.redraw_samples": [True],
    "run.posterior_sampling_method": ["rejection_sampling",
                                      "multinomial_resampling",
                                      "importance_sampling"],
    "n_pool": [2],
    "model": [{"name": "gauss_uniform", "dims": 3},
              {"name": "gauss_gauss", "dims": 2}],
}
GW_OPTIONS = {
    "flow_proposal_class": ["gwflowproposal", "augmentedgwflowproposal",
                            "clusteringgwflowproposal"],
    "reparameterisations": [None, "default"],
}


def apply(base, model, opts):
    import copy

    kw = copy.deepcopy(base)
    run_kwargs = {}
    for name, val in opts:
        if name == "model":
            model = val
        elif name.startswith("run."):
            run_kwargs[name[4:]] = val
        elif "." in name:
            a, b = name.split(".")
            kw.setdefault(a, {})
            kw[a][b] = val
        else:
            kw[name] = val
    # dependent values that make a documented option meaningful
    if kw.get("analytic_priors") and model["name"] == "gauss_gauss":
        model = dict(model, analytic_new_point=True)
    elif kw.get("analytic_priors"):
        model = {"name": "gauss_gauss", "dims": 2, "analytic_new_point": True}
    tc = kw.get("training_config", {})
    if tc.get("noise_type") and "noise_scale" not in tc:
        tc["noise_scale"] = 0.01
    if kw.get("train_on_empty") is False and "training_frequency" not in kw:
        kw["training_frequency"] = 50
    if isinstance(kw.get("stopping_criterion"), str) and \
            "tolerance" not in kw and kw["stopping_criterion"] in (
                "Z_err", "evidence_error"):
        kw["tolerance"] = 1.1
    if isinstance(kw.get("stopping_criterion"), list) and \
            "tolerance" not in kw:
        tol = {"log_dZ": 0.5, "ratio": 0.0, "fractional_error": 0.2,
               "ess": 300.0, "evidence_error": 1.2, "log_evidence": 0.5}
        kw["tolerance"] = [tol[c] for c in kw["stopping_criterion"]]
    return model, kw, run_kwargs


# options that act on the same mechanism: every pair of values of two
# different options of a group is enumerated (exhaustive pairwise inside the
# group; across groups pairs are sampled by the Hypothesis combinations)
GROUPS = {
    "contour": (False, [
        "latent_prior", "constant_volume_mode", "volume_fraction", "fuzz",
        "expansion_fraction", "fixed_radius", "min_radius", "max_radius",
        "compute_radius_with_all", "check_acceptance", "truncate_log_q",
        "accumulate_weights", "drawsize", "poolsize"]),
    "training": (False, [
        "reset_weights", "reset_permutations", "reset_flow",
        "retrain_acceptance", "reset_acceptance", "acceptance_threshold",
        "train_on_empty", "training_frequency", "cooldown", "memory",
        "maximum_uninformed"]),
    # how the flow is built and what each reset policy re-initialises
    "flow": (False, [
        "flow_config.ftype", "flow_config.linear_transform",
        "flow_config.batch_norm_between_layers",
        "flow_config.batch_norm_within_layers", "flow_config.distribution",
        "flow_config.n_blocks", "reset_weights", "reset_permutations",
        "reset_flow"]),
    # how a training is carried out
    "optimisation": (False, [
        "training_config.annealing", "training_config.noise_type",
        "training_config.clip_grad_norm", "training_config.val_size",
        "training_config.batch_size", "training_config.use_dataloader",
        "training_config.optimiser"]),
    "levels": (True, [
        "threshold_method", "strict_threshold", "replace_all",
        "draw_constant", "draw_iid_live", "n_initial", "min_samples",
        "min_remove", "max_samples", "n_update"]),
}


def group_pairs():
    out = []
    for gname, (ins, names) in sorted(GROUPS.items()):
        table = INS_OPTIONS if ins else STD_OPTIONS
        for i, a in enumerate(names):
            for b in names[i + 1:]:
                for va in table[a]:
                    for vb in table[b]:
                        out.append({"ins": ins, "opts": [(a, va), (b, vb)],
                                    "group": gname})
    return out


def single_cases(ins):
    table = INS_OPTIONS if ins else STD_OPTIONS
    out = []
    for name, vals in table.items():
        for v in vals:
            out.append([(name, v)])
    return out


@st.composite
def combo(draw, ins):
    table = INS_OPTIONS if ins else STD_OPTIONS
    names = sorted(table)
    k = draw(st.integers(2, 4))
    chosen = draw(st.lists(st.sampled_from(names), min_size=k, max_size=k,
                           unique=True))
    opts = [(n, draw(st.sampled_from(table[n]))) for n in sorted(chosen)]
    seed = draw(st.integers(0, 2**31 - 1))
    return {"ins": ins, "opts": opts, "seed": seed}


def to_case(spec, default_seed):
    ins = spec["ins"]
    base = BASE_INS if ins else BASE_STD
    model = {"name": "gauss_uniform", "dims": 2}
    if spec.get("gw"):
        model = {"name": "gw_named"}
    model, kw, run_kwargs = apply(base, model, spec["opts"])
    kw["seed"] = spec.get("seed", default_seed)
    labels = ["sampler:ins" if ins else "sampler:standard",
              f"n_options:{len(spec['opts'])}"]
    labels += [f"opt:{n}={v}" for n, v in spec["opts"] if n != "model"]
    return {"model": model, "ins": ins, "kwargs": kw, "kills": [],
            "run_kwargs": run_kwargs, "labels": labels,
            "opts": [[n, v] for n, v in spec["opts"]]}


# options whose value lives in state that a checkpoint must carry: each value
# is also run as a history that is killed once and resumed
RESUME_OPTS = {
    False: ["latent_prior", "flow_proposal_class", "reparameterisations",
            "flow_config.ftype", "flow_config.distribution",
            "flow_config.linear_transform", "constant_volume_mode",
            "analytic_priors", "accumulate_weights", "shrinkage_expectation",
            "maximum_uninformed", "n_pool", "fixed_radius", "max_radius",
            "truncate_log_q", "check_acceptance", "reset_flow",
            "torch_dtype", "fallback_reparameterisation"],
    True: ["threshold_method", "threshold_kwargs", "draw_iid_live",
           "reparameterisation", "replace_all", "strict_threshold",
           "save_log_q", "draw_constant", "reset_flow", "stopping_criterion",
           "min_remove", "max_samples", "n_update", "weighted_kl", "clip",
           "flow_config.ftype"],
}


# options that are read when a pool is populated: their values are also run
# as a history that is resumed and repopulates *without* a new training
# (train_on_empty=False, rare scheduled trainings)
NO_RETRAIN_OPTS = ["truncate_log_q", "compute_radius_with_all",
                   "latent_prior", "accumulate_weights", "fixed_radius",
                   "flow_proposal_class", "reparameterisations",
                   "constant_volume_mode", "check_acceptance"]


def with_resume(case, no_retrain=False):
    import copy

    c = copy.deepcopy(case)
    kw = c["kwargs"]
    if no_retrain:
        kw["train_on_empty"] = False
        kw["training_frequency"] = 150
        kw["poolsize"] = 60
        kw["update_poolsize"] = False
        c["labels"] = list(c["labels"]) + ["history:no-retrain-after-resume"]
    kw["checkpointing"] = True
    kw["checkpoint_on_iteration"] = True
    if c["ins"]:
        kw["checkpoint_interval"] = 1
        c["kills"] = [{"event": "level", "k": 4}]
    else:
        kw["checkpoint_interval"] = 20
        c["kills"] = [{"event": "iteration", "k": kw["nlive"] + 90}]
    c["labels"] = list(c["labels"]) + ["history:killed-and-resumed"]
    return c


def make_history(case):
    # importance sampler: the stopping rule in use must be the configured one
    # (a mis-paired criterion / tolerance ends only at the iteration cap)
    mons = ["draws"] + (["ins_stop"] if case.get("ins") else [])
    return configs.history_from(case, mons, post=["results"])


def judge(case, reports, add, stats):
    r = reports[-1]
    classes = list(case.get("labels", []))
    status = r.get("status")
    # (a process that resumes a killed run does not draw the initial live
    # points again: sampling had started before)
    started = bool(r.get("sampling_started")) or any(
        q.get("status") == "killed" for q in reports[:-1])
    if len(reports) > 1:
        classes.append("resumed")
    res = r.get("result") or {}
    if status == "completed":
        classes.append("outcome:completed")
        runcheck.monitor_violations(
            reports, add, skip=runcheck.known_elsewhere(["C03", "C05"]))
    elif status == "exception" and not started:
        classes.append("outcome:rejected-up-front")
        classes.append("rejected:%s" % r.get("exc_type"))
    elif status == "exception":
        phase = "after-sampling-finished" if (
            r.get("exc_where") or "").split(":")[0] in (
                "flowsampler.py",) or "finalise" in (
                r.get("traceback") or "") else "during-sampling"
        classes.append("outcome:failed-late")
        add("late-failure:%s@%s" % (r.get("exc_type"), r.get("exc_where")),
            f"{phase}: {r.get('exc_type')}: {r.get('exc_msg')} "
            f"(options {case.get('opts')})")
    elif r.get("returncode") == 21:
        classes.append("outcome:population-never-ends")
        db = (r.get("data") or {}).get("draw_bound") or {}
        add("population-draw-bound@%s" % db.get("proposal"),
            f"more than {db.get('draws')} latent draws "
            f"({db.get('batches')} batches of {db.get('drawsize')}) in one "
            f"pool population "
            f"(options {case.get('opts')})")
    elif r.get("timed_out"):
        classes.append("outcome:timeout")
    elif isinstance(r.get("returncode"), int) and r["returncode"] < 0:
        # the process was killed by a signal raised in native code (seen:
        # SIGSEGV inside torch under full load in the thorough tier): not
        # attributable to the property, counted as inconclusive
        classes.append("outcome:killed-by-signal:%d" % -r["returncode"])
        stats.inconclusive += 1
        stats.extra.setdefault("killed_by_signal", []).append(
            {"opts": case.get("opts"), "signal": -r["returncode"],
             "where": (r.get("log_tail") or "")[-300:]})
    else:
        classes.append("outcome:" + str(status))
        add("run-died:%s" % status, f"return code {r.get('returncode')}; "
            f"{(r.get('log_tail') or '')[-300:]}")
    reached = (res.get("n_trainings") or 0) >= 1 if not case["ins"] else \
        (res.get("iteration") or 0) >= 1
    nt = len(case.get("opts", [])) >= 2 and status == "completed" and reached
    stats.extra.setdefault("pairs", {})
    if len(case.get("opts", [])) >= 2:
        o = sorted(f"{n}={v}" for n, v in case["opts"])
        for i in range(len(o)):
            for j in range(i + 1, len(o)):
                stats.extra["pairs"][jhash([case["ins"], o[i], o[j]])] = 1
    return bool(nt), classes, 1


def build_cases(ctx):
    cases = []
    seeds = [ctx.seed * 7 + 11]
    if not ctx.quick:
        seeds += [ctx.seed * 7 + 12]
    singles = []
    for ins in (False, True):
        for opts in single_cases(ins):
            singles.append({"ins": ins, "opts": opts})
    for name, vals in GW_OPTIONS.items():
        for v in vals:
            singles.append({"ins": False, "opts": [(name, v)], "gw": True})
    if ctx.quick:
        # seeded rotation through the single-option table: every run of the
        # quick tier covers a different third, the thorough tier covers all
        k = ctx.seed % 3
        singles = [s for i, s in enumerate(singles) if i % 3 == k]
    for s in seeds:
        for spec in singles:
            cases.append(to_case(spec, s))
            if s == seeds[0] and not spec.get("gw") and \
                    spec["opts"][0][0] in RESUME_OPTS[spec["ins"]]:
                base_case = cases[-1]
                cases.append(with_resume(base_case))
                if not spec["ins"] and \
                        spec["opts"][0][0] in NO_RETRAIN_OPTS:
                    cases.append(with_resume(base_case, no_retrain=True))
    pairs = group_pairs()
    if ctx.quick:
        k = ctx.seed % 3
        pairs = [p_ for i, p_ in enumerate(pairs) if i % 3 == k]
    for spec in pairs:
        c = to_case(spec, seeds[0])
        c["labels"].append("group-pair:" + spec["group"])
        cases.append(c)
    n_combo = 24 if ctx.quick else 400
    for ins, n in ((False, n_combo * 2 // 3), (True, n_combo // 3)):
        specs = configs.collect(combo(ins), ctx.seed + (1 if ins else 0), n,
                                key=lambda c: [c["ins"], c["opts"]])
        cases += [to_case(sp, seeds[0]) for sp in specs]
    return cases


def strategy(ctx):  # for vf.tools.explore
    return st.one_of(combo(False), combo(True)).map(
        lambda sp: to_case(sp, ctx.seed))


def run(ctx):
    cases = build_cases(ctx)
    cases += runcheck.known_cases("C20")
    out = runcheck.execute_cases(ctx, "c20", cases, make_history, judge)
    out.stats.extra["option_pairs_covered"] = len(
        out.stats.extra.pop("pairs", {}))
    return out


def health(ctx, stats):
    need = {"outcome:completed": 40, "sampler:ins": 15,
            "sampler:standard": 30}
    return [f"class {k}: {stats.classes.get(k, 0)} < {v}"
            for k, v in need.items() if stats.classes.get(k, 0) < v]


def replay(ctx, case):
    case = {k: v for k, v in case.items() if k != "extra"}
    out = runcheck.replay_case(ctx, "c20r", case, make_history, judge)
    out.stats.extra.pop("pairs", None)
    return out
