"""C11 - a process kill during checkpointing never leaves the run
unresumable.

Generator : fault enumeration.  For each scenario {standard, importance
            (save_existing False/True)} x {first checkpoint, late checkpoint}
            x {sampler-state write, flow-weights write} a probe run lists the
            file-system operations of the write (vf.fscrash); crash points =
            before every operation, after the last one, and after b bytes of
            the serialised stream for b in {0, 1, len-1} plus Hypothesis-
            chosen lengths.  The writer is re-run (seeded, deterministic) and
            killed with os._exit at that point; a fresh process then resumes.
Oracle    : the fresh process constructs with resume=True, its state equals
            the digest recorded for the previous or for the new checkpoint
            (never a mixture), it continues to completion and checkpoints
            again; if no checkpoint had completed it starts afresh.
"""
from hypothesis import strategies as st

from .. import configs, runs, runcheck
from ..core import HarnessError, Outcome, Violation, jhash

USES_KNOWN_CASES = True
LEVEL = "fault_enumeration"
RULE = (
    "Crash points of real checkpoint writes: for 8+ scenarios (sampler, "
    "save_existing, first/late checkpoint, state file / weights file) the "
    "operations of the write are enumerated by a probe run; every "
    "operation boundary and a set of byte-prefix lengths of the serialised "
    "stream (0, 1, len-1 and Hypothesis-drawn) is a crash point; each case = "
    "writer killed there + resume in a fresh process. evaluations = crash "
    "points executed. Non-trivial: crash strictly inside the operation "
    "sequence (not before the first, not after the last operation); distinct "
    "by (scenario, crash point)."
)
ASSUMPTIONS = [
    "process death (os._exit), not power loss: data handed to the OS is "
    "assumed to reach the file; data still in the user-space buffer of the "
    "open file object (modelled as the last <= 4 KiB written, the capacity "
    "of a BufferedWriter being 8 KiB) is lost",
    "crash points are operation boundaries of safe_file_dump / save_weights "
    "plus sampled byte prefixes; a partial weights file is the prefix of "
    "the bytes torch.save produces",
    "the restored state may equal the previous or the new checkpoint",
]


def scenarios(seed):
    std = {"model": {"name": "gauss_uniform", "dims": 2}, "ins": False,
           "kwargs": {"nlive": 50, "seed": 500 + seed, "plot": False,
                      "flow_config": {"n_blocks": 2, "n_neurons": 8},
                      "training_config": {"max_epochs": 20, "patience": 5},
                      "checkpointing": True, "checkpoint_on_iteration": True,
                      "checkpoint_interval": 40, "stopping": 0.5}}
    ins = {"model": {"name": "gauss_uniform", "dims": 2}, "ins": True,
           "kwargs": {"nlive": 150, "seed": 600 + seed, "plot": False,
                      "min_samples": 40, "max_iteration": 5,
                      "flow_config": {"n_blocks": 2, "n_neurons": 8},
                      "training_config": {"max_epochs": 100, "patience": 10},
                      "checkpointing": True, "checkpoint_on_iteration": True,
                      "checkpoint_interval": 1}}
    ins_old = {"model": ins["model"], "ins": True,
               "kwargs": dict(ins["kwargs"], save_existing_checkpoint=True,
                              seed=700 + seed, save_log_q=True)}
    out = []
    for name, cfg in (("standard", std), ("ins", ins), ("ins-keep-old",
                                                        ins_old)):
        for scope in ("checkpoint", "weights"):
            for when in ("first", "late"):
                out.append({"name": f"{name}/{scope}/{when}", "cfg": cfg,
                            "scope": scope, "when": when})
    # a serialised state of several pickle frames (> 64 KB): the stream
    # reaches the file in several writes and its tail sits in the writer's
    # buffer until the file is closed
    big = {"model": std["model"], "ins": False,
           "kwargs": dict(std["kwargs"], nlive=150, seed=800 + seed,
                          checkpoint_interval=300, stopping=0.1)}
    out.append({"name": "standard-large/checkpoint/late", "cfg": big,
                "scope": "checkpoint", "when": "late"})
    return out


def job_of(cfg, **extra):
    mons = ["ins", "ckpt"] if cfg["ins"] else ["ns", "ckpt"]
    j = {"model": cfg["model"], "ins": cfg["ins"], "kwargs": cfg["kwargs"],
         "monitors": mons, "post": ["results"]}
    j.update(extra)
    return j


def probe(scens):
    """Two probe rounds: (1) at=1 -> ops of the first write + how many writes
    the run makes; (2) at=late -> ops of a late write."""
    def fault(sc, at):
        return {"fs_crash": {"scope": sc["scope"], "at": at}}

    res = runs.run_histories("c11p", [runs.single(job_of(
        sc["cfg"], fault=fault(sc, 1))) for sc in scens])
    for sc, reps in zip(scens, res):
        r = reps[0]
        if r.get("status") != "completed":
            raise HarnessError("C11 probe failed: %r" % {k: r.get(k) for k in (
                "status", "exc_type", "exc_msg", "traceback")})
        c = r.get("counters") or {}
        n_writes = c.get("ckpt.writes", 0) if sc["scope"] == "checkpoint" \
            else (r.get("result") or {}).get("n_trainings") or \
            (r.get("result") or {}).get("iteration") or 1
        sc["n_writes"] = int(n_writes)
        sc["at"] = 1 if sc["when"] == "first" else max(2, int(n_writes) - 1)
        sc["ops"] = (r.get("data") or {}).get("fs_ops")
        sc["bytes"] = (r.get("data") or {}).get("fs_bytes")
    late = [sc for sc in scens if sc["when"] == "late"]
    res = runs.run_histories("c11q", [runs.single(job_of(
        sc["cfg"], fault=fault(sc, sc["at"]))) for sc in late])
    for sc, reps in zip(late, res):
        r = reps[0]
        if r.get("status") != "completed":
            raise HarnessError("C11 probe (late) failed")
        sc["ops"] = (r.get("data") or {}).get("fs_ops")
        sc["bytes"] = (r.get("data") or {}).get("fs_bytes")
    for sc in scens:
        if not sc["ops"]:
            raise HarnessError(f"no operations observed for {sc['name']} "
                               f"(at={sc['at']})")


def crash_points(ctx, sc, n_prefix):
    pts = [{"op": k} for k in range(len(sc["ops"]) + 1)]
    nb = int(sc["bytes"] or 0)
    if nb > 2:
        lens = {0, 1, nb - 1}
        extra = configs.collect(
            st.integers(2, nb - 2), ctx.seed * 131 + len(sc["name"]),
            n_prefix, key=lambda v: v)
        lens.update(extra)
        pts += [{"prefix": int(b)} for b in sorted(lens)]
    return pts


def make_history(sc, pt):
    f = {"scope": sc["scope"], "at": sc["at"]}
    f.update({k: v for k, v in pt.items() if k != "second"})
    steps = [job_of(sc["cfg"], fault={"fs_crash": f})]
    if pt.get("second"):
        # double fault: the resumed process is killed again inside its own
        # first write of the same kind
        f2 = {"scope": sc["scope"]}
        f2.update(pt["second"])
        steps.append(job_of(sc["cfg"], fault={"fs_crash": f2},
                            ckpt_allow_previous=True))
    steps.append(job_of(sc["cfg"], ckpt_allow_previous=True))
    return {"steps": steps}


def judge(ctx, sc, pt, reports, out):
    case = {"scenario": {k: sc[k] for k in ("name", "cfg", "scope", "when",
                                            "at")}, "point": pt}
    classes = ["scenario:" + sc["name"], "scope:" + sc["scope"],
               "when:" + sc["when"]]
    for r in reports:
        if r.get("status") == "exception" and r.get("exc_in_harness"):
            raise HarnessError(r.get("traceback", ""))
    first = reports[0]
    viols = []

    def add(key, msg):
        viols.append(Violation(key, msg, case))

    crashed = first.get("returncode") == 17
    if pt.get("second"):
        classes.append("double-fault")
        if len(reports) >= 3 and reports[1].get("returncode") == 17:
            classes.append("double-fault:second-crash-reached")
    inside = False
    if not crashed:
        classes.append("crash-point-not-reached")
    else:
        classes.append("crashed")
        classes.append("kind:" + ("prefix" if "prefix" in pt else "op"))
        if "op" in pt:
            inside = 0 < pt["op"] < len(sc["ops"])
            classes.append("before:" + (sc["ops"][pt["op"]] if pt["op"] < len(
                sc["ops"]) else "end"))
        else:
            inside = True
        if len(reports) < 2:
            add("not-resumed", "")
        else:
            last = reports[-1]
            sig = f":{sc['scope']}"
            if last.get("status") != "completed":
                add(f"resume-failed{sig}:{last.get('exc_type')}@"
                    f"{last.get('exc_where')}",
                    f"after crash {first.get('data', {}).get('fs_crash_at')}"
                    f": {last.get('status')} {last.get('exc_type')}: "
                    f"{last.get('exc_msg')}")
            skip = runcheck.known_elsewhere(["C01", "C03", "C05", "C12"])
            for v in last.get("violations") or []:
                if skip(v["key"]):
                    continue
                add(v["key"] + sig, f"{v['msg']} (x{v['count']})")
            # a checkpoint had completed before a *late* write was killed:
            # the fresh process must resume from one, not start afresh
            resumed = any("resumed" in (r.get("classes") or [])
                          for r in reports[1:])
            if sc["when"] == "late" and not resumed and \
                    last.get("status") == "completed":
                add("completed-checkpoint-lost:restarted-afresh" + sig,
                    f"crash {first.get('data', {}).get('fs_crash_at')} during "
                    f"write number {sc['at']}; the resumed process started "
                    f"from iteration 0 although earlier checkpoints had "
                    f"completed")
            if last.get("status") == "completed" and \
                    (last.get("counters") or {}).get("ckpt.writes", 0) < 1:
                add("resumed-run-never-checkpointed" + sig, "")
            classes.extend(last.get("classes") or [])
            ck = (last.get("data") or {}).get("ckpt") or {}
            if ck.get("resumed_is_previous"):
                classes.append("restored:previous")
            elif ck.get("resumed_serial"):
                classes.append("restored:new")
    for v in viols:
        if ctx.known(v.key):
            out.stats.excluded_known[v.key] += 1
        out.add(v)
    out.stats.case({"scenario": sc["name"], "at": sc["at"], "point": pt,
                    "ops": sc["ops"], "bytes": sc["bytes"]},
                   nontrivial=bool(crashed and inside), classes=classes,
                   key=jhash([sc["name"], pt]))


def run(ctx):
    scens = scenarios(ctx.seed)
    probe(scens)
    out = Outcome()
    plan = []
    for sc in scens:
        pts = crash_points(ctx, sc, 1 if ctx.quick else 22)
        plan.extend((sc, pt) for pt in pts)
    # double-fault histories (kill in a write, resume, kill again in the
    # next write of the same kind, resume)
    for sc in scens:
        nb = int(sc["bytes"] or 0)
        if sc["when"] == "late" and nb > 4:
            plan.append((sc, {"prefix": nb // 2,
                              "second": {"at": 1, "prefix": nb // 3}}))
            if sc["scope"] == "weights":
                # first kill directly after the new file was created (0
                # bytes), second kill part-way through the next write
                plan.append((sc, {"prefix": 0,
                                  "second": {"at": 1, "prefix": nb // 3}}))
            if not ctx.quick:
                plan.append((sc, {"prefix": 0,
                                  "second": {"at": 1, "op": 2}}))
    out.stats.extra["crash_points_enumerated"] = len(plan)
    if ctx.quick and len(plan) > 92:
        # seeded stratified subset: every scenario keeps its op boundaries
        # round-robin until 92 cases
        import random

        rng = random.Random(ctx.seed)
        bysc = {}
        for sc, pt in plan:
            bysc.setdefault(sc["name"], []).append((sc, pt))
        for v in bysc.values():
            rng.shuffle(v)
        # always kept: the double faults and, for every scenario, the end of
        # its operation sequence (before the last two operations and after
        # the last one: the window in which the new file replaces the old)
        def tail(sc, pt):
            return "op" in pt and pt["op"] >= len(sc["ops"]) - 2

        keep = [(sc, pt) for sc, pt in plan
                if pt.get("second") or tail(sc, pt)]
        for k in bysc:
            bysc[k] = [x for x in bysc[k]
                       if not x[1].get("second") and not tail(*x)]
        plan = list(keep)
        while len(plan) < 92 and any(bysc.values()):
            for k in sorted(bysc):
                if bysc[k] and len(plan) < 92:
                    plan.append(bysc[k].pop())
    out.stats.extra["exhaustive"] = False
    res = runs.run_histories("c11", [make_history(sc, pt) for sc, pt in plan])
    for (sc, pt), reps in zip(plan, res):
        judge(ctx, sc, pt, reps, out)
    import glob
    import json
    import os
    from ..core import ROOT

    for p in sorted(glob.glob(os.path.join(ROOT, "replays", "*",
                                           "C11-*.json"))):
        if "/known/" in p or "/regress/" in p:
            out.merge(replay(ctx, json.load(open(p))["case"]))
    return out


def health(ctx, stats):
    need = {"crashed": 40 if ctx.quick else 200, "scope:weights": 10,
            "scope:checkpoint": 10}
    return [f"class {k}: {stats.classes.get(k, 0)} < {v}"
            for k, v in need.items() if stats.classes.get(k, 0) < v]


def replay(ctx, case):
    out = Outcome()
    sc = dict(case["scenario"])
    probe_sc = dict(sc)
    # operations are re-enumerated on the current tree
    r = runs.run_histories("c11rp", [runs.single(job_of(
        sc["cfg"], fault={"fs_crash": {"scope": sc["scope"],
                                       "at": sc["at"]}}))])[0][0]
    probe_sc["ops"] = (r.get("data") or {}).get("fs_ops") or []
    probe_sc["bytes"] = (r.get("data") or {}).get("fs_bytes")
    reps = runs.run_histories("c11r", [make_history(probe_sc,
                                                    case["point"])])[0]
    judge(ctx, probe_sc, case["point"], reps, out)
    return out
