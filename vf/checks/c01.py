"""C01 - the live set evolves only by likelihood-constrained replacement.

Generator : Hypothesis strategy over models x standard-sampler options
            (proposal class, latent prior, reparameterisation, flow, pool
            sizes, training policy, checkpoints, 0-3 kill/resume cycles);
            cases are collected from the strategy, then executed as real
            seeded runs in fresh processes with the passive live-set monitor.
Oracle    : per-iteration invariants evaluated from before/after snapshots
            (vf.monitors.install_ns) + shadow history across resumes.
"""
from .. import configs, runcheck
from ..core import Outcome

USES_KNOWN_CASES = True
LEVEL = "exploration"
RULE = (
    "Real NestedSampler runs through FlowSampler; configurations drawn by a "
    "Hypothesis strategy from documented option values (model, seed, nlive, "
    "proposal class, latent prior / radius options, reparameterisation, flow "
    "type and size, pool/draw sizes, training/reset policy, iteration-"
    "triggered checkpoints, 0-3 kills at generated likelihood calls followed "
    "by resumes). evaluations = monitored iterations. Non-trivial run: the "
    "flow was trained at least once and >= nlive points were replaced from a "
    "flow-proposal pool; distinct by hash of the configuration."
)
ASSUMPTIONS = [
    "monitors are passive wrappers (they copy state, re-evaluate the model "
    "outside nessai's counters and use no random numbers)",
    "test models use exactly rounded arithmetic, so a stored logL/logP must "
    "equal the model re-evaluated at the stored parameters bit for bit",
    "'recorded exactly once' is decided by counting records against observed "
    "removals (shadow history), not by value equality",
    "runs that end in a nessai exception are not judged here (C20 decides "
    "them); they are counted under classes['errored:*']",
]

MONITORS = ["ns"]


def make_history(case):
    return configs.history_from(case, MONITORS)


def judge(case, reports, add, stats):
    runcheck.monitor_violations(
        reports, add, skip=lambda k: k.startswith("policy:"))
    its = sum((r.get("counters") or {}).get("ns.iterations", 0)
              for r in reports)
    flow_repl = sum((r.get("counters") or {}).get("ns.flow_replacements", 0)
                    for r in reports)
    last = reports[-1]
    classes = list(case.get("labels", []))
    for r in reports:
        classes.extend(r.get("classes") or [])
        if r.get("status") == "exception":
            classes.append("errored:" + runcheck.exc_key(r))
    res = last.get("result") or {}
    completed = last.get("status") == "completed"
    if completed:
        classes.append("completed")
    n_resumes = sum((r.get("counters") or {}).get("ns.resumes", 0)
                    for r in reports)
    if n_resumes:
        classes.append("resumed-run")
    nontrivial = bool(
        completed and res.get("n_trainings", 0) >= 1
        and flow_repl >= case["kwargs"]["nlive"]
    )
    return nontrivial, classes, its


def strategy(ctx):
    return configs.standard_job(
        nlive=(20, 200), resume_cycles=(0, 3), allow_ckpt_on_training=True,
    )


def run(ctx):
    n = 20 if ctx.quick else 400
    n_res = max(4, (4 * n) // 10)
    cases = configs.collect(configs.standard_job(
        nlive=(20, 200), allow_ckpt_on_training=True), ctx.seed, n - n_res)
    cases += configs.collect(configs.standard_job(
        nlive=(20, 200), resume_cycles=(1, 3), allow_ckpt_on_training=True),
        ctx.seed + 1, n_res)
    cases += runcheck.known_cases("C01")
    return runcheck.execute_cases(ctx, "c01", cases, make_history, judge)


def health(ctx, stats):
    probs = []
    need = {"resumed-run": 1, "completed": 6}
    if not ctx.quick:
        need = {"resumed-run": 40, "completed": 150}
    for k, v in need.items():
        if stats.classes.get(k, 0) < v:
            probs.append(f"class {k}: {stats.classes.get(k, 0)} < {v}")
    return probs


def replay(ctx, case):
    case = {k: v for k, v in case.items() if k != "extra"}
    return runcheck.replay_case(ctx, "c01r", case, make_history, judge)
