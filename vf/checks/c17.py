"""C17 (unit part) - INS level thresholds honour min_samples, min_remove and
max_samples.

Code under test : ImportanceNestedSampler.determine_threshold_quantile /
                  determine_threshold_entropy /
                  determine_log_likelihood_threshold (called on an instance
                  made with object.__new__ that carries exactly the
                  attributes those methods read) and
                  nessai.utils.stats.weighted_quantile.

Generator : Hypothesis. (A) "threshold" cases: sorted live sets of size
            1..2000 (tie-free / tied / all equal), log-weights (equal, random,
            one dominant, point mass, some -inf, all -inf, mixed sign),
            method + its parameters, min_samples, min_remove, max_samples,
            draw_constant, nlive.  (B) "wq" cases: values, log-weights and an
            increasing list of quantiles for weighted_quantile.

Oracle    : the clauses of the property, each in the direction ties allow
            (see check_threshold_case), and for weighted_quantile
            monotonicity in q, range, and equality with SciPy's Harrell-Davis
            estimator for equal weights.

The real-run part of the property (every proposal is trained on at least
min_samples samples) is decided by `check_training_sizes(records)`, a hook
for the run driver; this module performs no sampler runs.
"""
import logging
import math
import traceback

import numpy as np
from hypothesis import strategies as st

from ..core import HarnessError, Outcome, Violation
from ..hyp import run_given
from ..par import run_shards

LEVEL = "exploration"
RULE = (
    "Hypothesis. (A) threshold cases: sorted live log-likelihoods of size "
    "1..2000 (strictly increasing, tied, all equal; offset up to +-1e3), "
    "log-weights in styles equal/random/dominant/point-mass/some -inf/all "
    "-inf/mixed sign, method in {entropy, quantile} with q, "
    "include_likelihood, use_log_weights, min_samples in 1..size+5, "
    "min_remove in 1..size-1, nlive, max_samples None or >= nlive+1, "
    "draw_constant; the real determine_log_likelihood_threshold is called. "
    "Non-trivial: size >= 3, the call returned, and at least one clamp was "
    "active (min_samples branch, method's choice below min_remove, or the "
    "max_samples cap binding). (B) weighted_quantile cases: 1..2000 values "
    "(with duplicates), the same weight styles, 2..6 increasing quantiles in "
    "[0,1]; non-trivial: >= 3 values that are not all equal. Distinct by hash "
    "of the whole case."
)
ASSUMPTIONS = [
    "domain: min_samples >= 1, 1 <= min_remove <= max(1, size-1) (a live "
    "threshold with min_remove >= size removed cannot exist), max_samples "
    "None or >= nlive+1, likelihoods finite, log-weights finite or -inf "
    "(never +inf/NaN), q in [0,1]",
    "'the method's own choice' is the value returned by the real "
    "determine_threshold_<method>; the n==0 -> 1 adjustment made before the "
    "min_samples test may be read either way, so when the two readings "
    "select different branches both outcomes are accepted",
    "ties: with K = all indices whose likelihood equals the returned "
    "threshold, a clause holds if it holds for some k in K",
    "when the cap (draw_constant and max_samples) cannot be met together "
    "with the min_samples outcome, only the cap is required",
    "size < min_samples: nothing may be removed (unless the cap requires it)",
    "ValueError('Effective sample size is not finite') and "
    "RuntimeError('Could not determine valid quantile') are documented "
    "rejections when every weight is -inf; on any other generated input "
    "they are violations",
    "weighted_quantile tolerance 1e-10*max(1,max|v|): betainc absolute "
    "error <= 2e-14 for a,b <= 2001 gives |sum dw_i v_i| <= 2*n*2e-14*max|v| "
    "<= 8e-11*max|v| at n = 2000; summation rounding n*eps*max|v| is below "
    "that (a bound, not tuned)",
    "weighted_quantile documents the Harrell-Davis estimator: equal weights "
    "are compared with scipy.stats.mstats.hdquantiles (n >= 2)",
]

DTYPE = np.dtype(
    [("x", "f8"), ("logP", "f8"), ("logL", "f8"), ("it", "i4"),
     ("logW", "f8"), ("logQ", "f8"), ("logU", "f8")]
)
WQ_RTOL = 1e-10


def _f(v):
    if isinstance(v, str):
        return {"-inf": -math.inf, "inf": math.inf, "nan": math.nan}[v]
    return float(v)


def _reset_globals():
    from nessai import config

    config.livepoints.reset()
    config.general.eps = 1e-8
    np.random.seed(0)


def _site(exc):
    site = "?"
    for fr in traceback.extract_tb(exc.__traceback__):
        if "nessai" in fr.filename.replace("\\", "/").split("/"):
            site = fr.name
    return site


# ---------------------------------------------------------------- hook
def check_training_sizes(records):
    """Real-run part of C17 (to be wired to the run driver).

    records: iterable of dicts, one per call of proposal.train in an
    ImportanceNestedSampler run, with keys
        n_train      number of rows of the training set passed to train()
        min_samples  the sampler's min_samples
      optional
        iteration, n_stored (rows in training_samples at that time), run
    Returns a list of Violations (empty if every proposal was trained on at
    least min_samples samples).
    """
    out = []
    for r in records:
        n, ms = int(r["n_train"]), int(r["min_samples"])
        if n < ms:
            out.append(Violation(
                "runs:training-set<min_samples",
                f"iteration {r.get('iteration')}: proposal trained on {n} "
                f"samples, min_samples={ms}, stored={r.get('n_stored')}",
                dict(kind="training-size", record={
                    k: (v if isinstance(v, (int, float, str, type(None)))
                        else repr(v)) for k, v in r.items()}),
            ))
    return out


# ---------------------------------------------------------------- sampler
def make_sampler(case):
    from nessai.samplers.importancesampler import ImportanceNestedSampler

    s = object.__new__(ImportanceNestedSampler)
    s.min_samples = int(case["min_samples"])
    s.min_remove = int(case["min_remove"])
    s.max_samples = (
        None if case["max_samples"] is None else int(case["max_samples"])
    )
    s.draw_constant = bool(case["draw_constant"])
    s.nlive = int(case["nlive"])
    s.plot = False
    s._plot_level_cdf = False
    if case.get("plot"):
        # documented diagnostics (plot=True, plot_level_cdf=True): the CDF of
        # every level is drawn; it must not change what is chosen
        import tempfile

        s.plot = True
        s._plot_level_cdf = True
        s.output = tempfile.mkdtemp(prefix="vf-c17-")
        s.iteration = 0
    return s


def make_samples(case):
    logL = np.array([_f(v) for v in case["logL"]], dtype=float)
    logW = np.array([_f(v) for v in case["logW"]], dtype=float)
    x = np.zeros(len(logL), dtype=DTYPE)
    x["logL"] = logL
    x["logW"] = logW
    x["x"] = np.arange(len(logL))
    return x


def _is_rejection(e):
    return (
        isinstance(e, ValueError)
        and "Effective sample size is not finite" in str(e)
    ) or (
        isinstance(e, RuntimeError)
        and "Could not determine valid quantile" in str(e)
    )


def check_threshold_case(case):
    """Plain predicate; returns (labels, nontrivial). Raises Violation."""
    _reset_globals()
    samples = make_samples(case)
    logL = samples["logL"]
    size = len(logL)
    ms, mr = int(case["min_samples"]), int(case["min_remove"])
    nlive, mx = int(case["nlive"]), case["max_samples"]
    method = case["method"]
    kw = dict(case["kwargs"])
    labels = [method, "weights:" + case.get("wstyle", "?"),
              "logL:" + case.get("lstyle", "?")]
    eff_w = samples["logW"] + (logL if kw.get("include_likelihood") else 0.0)
    all_inf = bool(np.all(np.isneginf(eff_w)))

    # -- the method's own choice
    sampler = make_sampler(case)
    fn = getattr(sampler, f"determine_threshold_{method}")
    try:
        with np.errstate(all="ignore"):
            n_m = fn(samples.copy(), **kw)
    except Exception as e:
        if _is_rejection(e) and all_inf:
            return labels + ["rejected:all-weights--inf"], False
        raise Violation(
            f"own-choice:exception:{type(e).__name__}@{_site(e)}",
            f"{type(e).__name__}: {e}", case)
    if (isinstance(n_m, bool) or not isinstance(n_m, (int, np.integer))
            or not 0 <= int(n_m) < size):
        raise Violation(
            f"own-choice:not-an-index@{method}",
            f"determine_threshold_{method} returned {n_m!r} for "
            f"{size} samples", case)
    n_m = int(n_m)
    # point mass: the weighted quantile of a point mass is its location for
    # every q in (0,1), so exactly the samples strictly below it go
    finite_w = np.flatnonzero(np.isfinite(eff_w))
    if (method == "quantile" and len(finite_w) == 1
            and 0.0 < kw.get("q", 0.8) < 1.0):
        want = int(np.searchsorted(logL, logL[finite_w[0]], side="left"))
        labels.append("point-mass")
        if n_m != want:
            raise Violation(
                "own-choice:point-mass-quantile",
                f"all weight on sample {int(finite_w[0])} (logL "
                f"{logL[finite_w[0]]!r}): {want} samples are strictly below "
                f"the quantile, method returned {n_m}", case)

    # -- the clamped threshold
    arg = samples.copy()
    try:
        with np.errstate(all="ignore"):
            thr = sampler.determine_log_likelihood_threshold(
                arg, method=method, **kw)
    except Exception as e:
        raise Violation(
            f"threshold:exception:{type(e).__name__}@{_site(e)}",
            f"{type(e).__name__}: {e} (own choice {n_m}, size {size})", case)
    finally:
        if case.get("plot"):
            import shutil

            import matplotlib.pyplot as plt

            plt.close("all")
            shutil.rmtree(sampler.output, ignore_errors=True)
    if case.get("plot"):
        labels.append("level-cdf-plotted")
    # choosing a threshold is a query: the live samples are the sampler's own
    # array and must come back as they went in
    if arg.tobytes() != samples.tobytes():
        raise Violation(
            "threshold:live-samples-modified",
            "determine_log_likelihood_threshold changed the live samples it "
            f"was given (plot={bool(case.get('plot'))})", case)
    try:
        thr = float(thr)
    except Exception:
        raise Violation("threshold:not-a-number", f"{thr!r}", case)
    K = np.flatnonzero(logL == thr)
    if K.size == 0:
        raise Violation(
            "threshold:not-a-live-likelihood",
            f"returned {thr!r}; own choice {n_m}, size {size}", case)
    k_lo, k_hi = int(K[0]), int(K[-1])
    if k_hi > k_lo:
        labels.append("threshold-in-tie-group")

    n0, n1 = n_m, max(n_m, 1)
    few_lit = (size - n0) < ms
    few_code = (size - n1) < ms
    cap_on = bool(case["draw_constant"]) and mx is not None
    info = (f"size={size} own={n_m} min_samples={ms} min_remove={mr} "
            f"nlive={nlive} max_samples={mx} draw_constant="
            f"{case['draw_constant']} threshold index in [{k_lo},{k_hi}]")

    def cap_ok(k):
        return size - k + nlive <= mx

    clamp = False
    if cap_on:
        labels.append("cap-configured")
        if not cap_ok(k_hi):
            raise Violation("cap:next-level>max_samples", info, case)
        # (label only) would the uncapped outcome exceed the cap?
        n_ref = max(0, size - ms) if few_code else max(n1, mr)
        if not cap_ok(min(n_ref, size - 1)):
            labels.append("cap-binding")
            clamp = True
    # min_samples / min_remove
    ms_outcome_meets_cap = (not cap_on) or cap_ok(max(0, size - ms))
    if size < ms:
        labels.append("size<min_samples")
        ms_ok = (k_lo == 0) or not ms_outcome_meets_cap
        ms_key = "min_samples:removes-although-size<min_samples"
    else:
        ms_ok = (k_lo <= size - ms <= k_hi) or not ms_outcome_meets_cap
        ms_key = "min_samples:kept!=min_samples"
    mr_ok = k_hi >= mr
    if few_lit and few_code:
        labels.append("branch:min_samples")
        clamp = True
        if not ms_ok:
            raise Violation(ms_key, info, case)
    elif not few_lit and not few_code:
        labels.append("branch:min_remove")
        if n1 < mr:
            labels.append("own-choice<min_remove")
            clamp = True
        if not mr_ok:
            raise Violation("min_remove:removed<min_remove", info, case)
    else:
        labels.append("branch:either-reading")
        clamp = True
        if not (ms_ok or mr_ok):
            raise Violation("min_samples-or-min_remove", info, case)
    if size - n1 == ms:
        labels.append("own-choice-leaves-exactly-min_samples")
    return labels, (size >= 3 and clamp)


# ---------------------------------------------------------------- wq
def check_wq_case(case):
    from scipy.stats.mstats import hdquantiles

    from nessai.utils.stats import weighted_quantile

    _reset_globals()
    v = np.array([_f(t) for t in case["values"]], dtype=float)
    lw = (None if case["log_weights"] is None
          else np.array([_f(t) for t in case["log_weights"]], dtype=float))
    qs = [float(q) for q in case["quantiles"]]
    n = len(v)
    labels = ["wq", "wq:weights:" + case.get("wstyle", "?")]
    srt = bool(case["values_sorted"])
    if srt:
        labels.append("wq:presorted")
    tol = WQ_RTOL * max(1.0, float(np.abs(v).max()))
    all_inf = lw is not None and bool(np.all(np.isneginf(lw)))

    def call(q):
        try:
            with np.errstate(all="ignore"):
                r = weighted_quantile(
                    v.copy(), q, log_weights=None if lw is None else lw.copy(),
                    values_sorted=srt)
        except Exception as e:
            if _is_rejection(e) and all_inf:
                return None
            raise Violation(
                f"wq:exception:{type(e).__name__}@{_site(e)}",
                f"{type(e).__name__}: {e}", case)
        return np.asarray(r, dtype=float).ravel()

    res = call(np.array(qs))
    if res is None:
        return labels + ["wq:rejected:all-weights--inf"], False
    if res.shape != (len(qs),):
        raise Violation("wq:shape", f"{res.shape} for {len(qs)} quantiles",
                        case)
    if not np.all(np.isfinite(res)):
        raise Violation("wq:non-finite", f"{res!r}", case)
    lo, hi = float(v.min()), float(v.max())
    if res.min() < lo - tol or res.max() > hi + tol:
        raise Violation(
            "wq:outside-data-range",
            f"quantiles {res!r} outside [{lo!r}, {hi!r}] (tol {tol:.3g})",
            case)
    d = np.diff(res)
    if d.size and d.min() < -tol:
        i = int(np.argmin(d))
        raise Violation(
            "wq:not-monotone-in-q",
            f"q={qs[i]!r} -> {res[i]!r} but q={qs[i+1]!r} -> {res[i+1]!r} "
            f"(tol {tol:.3g})", case)
    # scalar call agrees with the vector call
    one = call(qs[0])
    if one is None or one.shape != (1,) or abs(one[0] - res[0]) > tol:
        raise Violation("wq:scalar!=vector", f"{one!r} vs {res[0]!r}", case)
    equal = lw is None or (np.all(np.isfinite(lw)) and np.all(lw == lw[0]))
    if equal:
        labels.append("wq:equal-weights")
        if n >= 2:
            ref = np.asarray(hdquantiles(v, prob=qs), dtype=float)
        else:
            ref = np.full(len(qs), v[0])
        if np.abs(ref - res).max() > tol:
            i = int(np.argmax(np.abs(ref - res)))
            raise Violation(
                "wq:equal-weights!=harrell-davis",
                f"q={qs[i]!r}: {res[i]!r} vs hdquantiles {ref[i]!r} "
                f"(tol {tol:.3g})", case)
    if lw is not None and np.isfinite(lw).sum() == 1:
        labels.append("wq:point-mass")
        want = v[int(np.flatnonzero(np.isfinite(lw))[0])]
        inner = [r for q, r in zip(qs, res) if 0.0 < q < 1.0]
        if inner and max(abs(r - want) for r in inner) > tol:
            raise Violation("wq:point-mass", f"{res!r} vs {want!r}", case)
    if 0.0 in qs:
        labels.append("wq:q=0")
    if 1.0 in qs:
        labels.append("wq:q=1")
    return labels, (n >= 3 and hi > lo)


def check_case(case):
    if case.get("kind") == "wq":
        return check_wq_case(case)
    if case.get("kind") == "training-size":
        vs = check_training_sizes([case["record"]])
        if vs:
            raise vs[0]
        return ["training-size"], False
    return check_threshold_case(case)


# ---------------------------------------------------------------- generators
def _tile(block, n):
    return (block * (n // len(block) + 1))[:n]


def _sizes():
    return st.one_of(st.integers(1, 8), st.integers(1, 8),
                     st.integers(1, 60), st.integers(1, 2000))


@st.composite
def _log_weights(draw, n):
    style = draw(st.sampled_from(
        ["equal", "equal", "random", "random", "dominant", "dominant",
         "point-mass", "point-mass", "some-inf", "some-inf", "all-inf",
         "mixed-sign", "tiny-spread"]))
    nb = min(n, 300)
    if style == "equal":
        c = draw(st.sampled_from([0.0, 0.0, -3.5, 2.0]))
        w = [c] * n
    elif style == "random":
        w = _tile(draw(st.lists(st.floats(-30, 0), min_size=nb,
                                max_size=nb)), n)
    elif style == "mixed-sign":
        w = _tile(draw(st.lists(st.floats(-10, 10), min_size=nb,
                                max_size=nb)), n)
    elif style == "tiny-spread":
        w = _tile(draw(st.lists(st.floats(-1e-9, 1e-9), min_size=nb,
                                max_size=nb)), n)
    elif style == "dominant":
        w = _tile(draw(st.lists(st.floats(-5, 0), min_size=nb,
                                max_size=nb)), n)
        w[draw(st.integers(0, n - 1))] = draw(st.sampled_from([40.0, 700.0]))
    elif style == "point-mass":
        w = [-math.inf] * n
        w[draw(st.integers(0, n - 1))] = draw(st.floats(-5, 5))
    elif style == "some-inf":
        w = _tile(draw(st.lists(
            st.one_of(st.floats(-5, 0), st.just(-math.inf)),
            min_size=nb, max_size=nb)), n)
        w[draw(st.integers(0, n - 1))] = 0.0
    else:
        w = [-math.inf] * n
    return style, [float(t) for t in w]


@st.composite
def _sorted_logL(draw, n):
    style = draw(st.sampled_from(["tiefree", "tiefree", "tied", "all-equal",
                                  "tiny-gaps"]))
    start = draw(st.one_of(st.just(0.0), st.floats(-50, 50),
                           st.floats(-1e3, 1e3)))
    elem = {
        "tiefree": st.floats(1e-3, 5.0),
        "tied": st.sampled_from([0.0, 0.0, 0.0, 0.5, 2.0]),
        "all-equal": st.just(0.0),
        "tiny-gaps": st.floats(1e-9, 1e-6),
    }[style]
    nb = max(1, min(n - 1, 300))
    block = draw(st.lists(elem, min_size=nb, max_size=nb))
    vals = [start]
    for d in _tile(block, n - 1) if n > 1 else []:
        vals.append(vals[-1] + d)
    return style, vals


def _q():
    return st.one_of(st.floats(0.01, 0.99), st.floats(0.01, 0.99),
                     st.sampled_from([0.5, 0.8, 0.0, 1.0, 1e-6, 1 - 1e-6]))


@st.composite
def threshold_cases(draw):
    n = draw(_sizes())
    lstyle, logL = draw(_sorted_logL(n))
    wstyle, logW = draw(_log_weights(n))
    method = draw(st.sampled_from(["entropy", "quantile"]))
    kw = {"q": draw(_q()), "include_likelihood": draw(st.booleans())}
    if method == "entropy":
        kw["use_log_weights"] = draw(st.booleans())
    elif draw(st.integers(0, 3)) == 0:
        del kw["q"]  # default 0.8
    min_samples = draw(st.one_of(
        st.integers(1, n + 5), st.integers(1, max(1, n // 2)),
        st.integers(max(1, n - 3), n + 1)))
    min_remove = draw(st.one_of(
        st.just(1), st.integers(1, max(1, n - 1)),
        st.integers(1, max(1, min(n - 1, 10)))))
    nlive = draw(st.one_of(st.integers(1, 10), st.integers(1, 2000)))
    max_samples = draw(st.one_of(
        st.none(),
        st.integers(nlive + 1, nlive + n + 50),
        st.integers(nlive + 1, nlive + 1 + max(1, n // 2)),
    ))
    return {
        "kind": "threshold", "logL": logL, "logW": logW, "lstyle": lstyle,
        "wstyle": wstyle, "method": method, "kwargs": kw,
        "min_samples": min_samples, "min_remove": min_remove,
        "nlive": nlive, "max_samples": max_samples,
        "draw_constant": draw(st.sampled_from([True, True, False])),
        "plot": method == "entropy" and n <= 400 and draw(
            st.integers(0, 15)) == 0,
    }


@st.composite
def wq_cases(draw):
    n = draw(_sizes())
    nb = min(n, 300)
    vstyle = draw(st.sampled_from(["floats", "few-values", "wide", "offset"]))
    elem = {
        "floats": st.floats(-10, 10),
        "few-values": st.sampled_from([-1.0, 0.0, 0.0, 2.5]),
        "wide": st.floats(-1e4, 1e4),
        "offset": st.floats(1e3, 1e3 + 1e-3),
    }[vstyle]
    values = _tile(draw(st.lists(elem, min_size=nb, max_size=nb)), n)
    wstyle, lw = draw(_log_weights(n))
    values_sorted = draw(st.booleans())
    if values_sorted:
        values = sorted(values)
    if wstyle == "equal" and draw(st.booleans()):
        lw, wstyle = None, "none"
    qs = sorted(set(draw(st.lists(_q(), min_size=2, max_size=6))))
    if len(qs) < 2:
        qs = sorted(set(qs + [0.25, 0.75]))
    return {"kind": "wq", "values": values, "log_weights": lw,
            "wstyle": wstyle, "values_sorted": values_sorted,
            "quantiles": qs, "vstyle": vstyle}


def _brief(case):
    d = {k: v for k, v in case.items()
         if k not in ("logL", "logW", "values", "log_weights")}
    for k in ("logL", "logW", "values", "log_weights"):
        if case.get(k) is not None:
            d[k + "_n"] = len(case[k])
            d[k + "_head"] = case[k][:4]
    return d


# ---------------------------------------------------------------- shard/run
def shard(seed, n_thr, n_wq, tier="quick"):
    logging.getLogger("nessai").setLevel(logging.CRITICAL)
    from ..core import Ctx

    ctx = Ctx("C17", tier, seed)
    out = Outcome()
    stats = out.stats

    def body(case):
        try:
            labels, nt = check_case(case)
        except Violation as v:
            stats.case(_brief(case), nontrivial=False,
                       classes=["violating"])
            if ctx.known(v.key):
                stats.excluded_known[v.key] += 1
                return
            raise
        stats.case(_brief(case), nontrivial=nt, classes=labels)

    for v in run_given(body, threshold_cases(), seed, n_thr):
        out.add(v)
    for v in run_given(body, wq_cases(), seed + 500, n_wq):
        out.add(v)
    return out


def run(ctx):
    nsh = 16
    n_thr, n_wq = (190, 60) if ctx.quick else (3800, 1200)
    kws = [dict(seed=ctx.seed * 1000 + i, n_thr=n_thr, n_wq=n_wq,
                tier=ctx.tier) for i in range(nsh)]
    out = run_shards("vf.checks.c17", "shard", kws)
    out.merge(real_runs(ctx))
    return out


def real_runs(ctx, cases=None):
    """Real-run part: every proposal of generated importance-sampler runs is
    trained on at least min_samples samples (sizes recorded by the passive
    run monitor around ImportanceFlowProposal.train)."""
    from .. import configs, runs
    from ..core import HarnessError

    out = Outcome()
    if cases is None:
        n = 10 if ctx.quick else 120
        # half of the runs are killed once and resumed: the configured
        # limits must survive a checkpoint
        cases = configs.collect(configs.ins_job(resume_cycles=(0, 1)),
                                ctx.seed + 17, n)
    hist = [configs.history_from(c, ["ins", "ins_levels"]) for c in cases]
    res = runs.run_histories("c17", hist)
    n_train = 0
    for case, reps in zip(cases, res):
        for r in reps:
            if r.get("status") == "exception" and r.get("exc_in_harness"):
                raise HarnessError(r.get("traceback", ""))
            data = r.get("data") or {}
            sizes = data.get("training_sizes") or []
            ms = data.get("min_samples")
            if ms is None:
                continue
            recs = [dict(n_train=s_, min_samples=ms, iteration=i,
                         run=case["kwargs"]) for i, s_ in enumerate(sizes)]
            n_train += len(recs)
            for v in check_training_sizes(recs):
                v.case = dict(kind="training-size-run", run_case=case,
                              record=v.case["record"])
                out.add(v)
            # thresholds chosen during the run vs the configured limits
            for mv in r.get("violations") or []:
                if mv["key"].startswith("runs:"):
                    out.add(Violation(
                        mv["key"], f"{mv['msg']} (x{mv['count']})",
                        dict(kind="training-size-run", run_case=case,
                             record={})))
            n_thr_run = ((data.get("ins_levels") or {}).get("n") or 0)
            out.stats.extra["real_run_thresholds_checked"] = \
                out.stats.extra.get("real_run_thresholds_checked", 0) + \
                n_thr_run
        ok = reps[-1].get("status") == "completed"
        out.stats.case(
            {"run": case["kwargs"], "model": case["model"]},
            nontrivial=ok, classes=["real-run"] + (
                ["real-run:completed"] if ok else []),
            n=max(1, sum(len((r.get("data") or {}).get(
                "training_sizes") or []) for r in reps)))
    out.stats.extra["real_run_trainings_checked"] = n_train
    return out


def health(ctx, stats):
    c = stats.classes
    need = {
        "entropy": 100, "quantile": 100, "branch:min_samples": 50,
        "branch:min_remove": 50, "branch:either-reading": 5,
        "own-choice<min_remove": 30, "cap-configured": 100,
        "cap-binding": 30, "size<min_samples": 20,
        "threshold-in-tie-group": 50, "point-mass": 10,
        "own-choice-leaves-exactly-min_samples": 10,
        "rejected:all-weights--inf": 5,
        "weights:equal": 50, "weights:dominant": 30,
        "weights:some-inf": 30, "weights:point-mass": 30,
        "logL:tiefree": 100, "logL:tied": 50, "logL:all-equal": 30,
        "wq": 200, "wq:equal-weights": 50, "wq:point-mass": 10,
        "wq:presorted": 50, "wq:q=0": 20, "wq:q=1": 20,
        "nontrivial": 200,
    }
    return [
        f"class {k} has only {c.get(k, 0)} cases (< {n})"
        for k, n in need.items() if c.get(k, 0) < n
    ]


def replay(ctx, case):
    logging.getLogger("nessai").setLevel(logging.CRITICAL)
    if not isinstance(case, dict):
        raise HarnessError("replay case must be a JSON object")
    if case.get("kind") == "training-size-run":
        return real_runs(ctx, cases=[case["run_case"]])
    try:
        check_case(case)
    except Violation as v:
        return [v]
    return []
