"""C19 - saved results read back equal to the in-memory results.

Part 1 (in-process, Hypothesis, sharded):
  enc : generated dictionaries over the value types that real result
        dictionaries contain -> save_to_json / save_dict_to_hdf5 -> json.load /
        h5py -> compared value by value (vf.post_saved.Comparer).
  sr  : FlowSampler.save_results on a stand-in object whose sampler returns a
        generated result dictionary, x {hdf5, h5, json} x (extension argument |
        extension in the file name).
  cfg : generated keyword dictionaries that also contain classes, pools,
        callables, NumPy/torch dtypes ... -> FlowSampler.save_kwargs /
        save_to_json -> json.load must parse and keep every key.
Part 2 (real runs, fresh processes): both samplers x {hdf5, h5, json} x
  draw_iid_live; the post analyser vf.post_saved.saved_results reads
  result.<ext> and config.json back inside the driver.
The value-type alphabet of part 1 is checked against the (key, type) pairs
collected from the real runs of part 2 (health()).
"""
import logging
import math
import os
import shutil
import tempfile

import numpy as np
from hypothesis import strategies as st

from .. import configs, runcheck
from ..core import HarnessError, Outcome, Violation
from ..hyp import run_given
from ..par import run_shards
from .. import post_saved as PS

LEVEL = "exploration"
RULE = (
    "(1) Hypothesis-generated dictionaries (string keys, depth <= 3) over "
    "{str, int, float incl. NaN/+-inf/-0.0, None, NumPy int64/float64/"
    "longdouble scalars, float64/int64/int32 arrays (1-d incl. empty, 2-d), "
    "structured arrays (f8/i4/i8 fields, 0-4 rows), lists of Python/NumPy "
    "numbers (possibly empty, mixed Python/NumPy), lists of equal-shape "
    "arrays, nested dictionaries} written with save_to_json and "
    "save_dict_to_hdf5 and through FlowSampler.save_results (3 extensions, "
    "2 ways of naming the file), read back with json.load / h5py; keyword "
    "dictionaries with classes, pools, callables, NumPy/torch dtypes written "
    "with FlowSampler.save_kwargs / save_to_json and parsed with json.load. "
    "(2) real runs of both samplers x {hdf5,h5,json} x draw_iid_live, "
    "result.<ext> and config.json read back in the driver. evaluations = "
    "generated cases + leaf values compared in real result files. "
    "Non-trivial: a generated dictionary with >= 3 value types of which one "
    "is structured/list/None/longdouble/non-finite/nested, a keyword "
    "dictionary with >= 1 non-serialisable object, a completed run whose "
    "file was compared; distinct by case hash."
)
ASSUMPTIONS = [
    "decodings applied by the oracle (and no others): JSON null<->None, HDF5 "
    "'__none__'<->None, HDF5 byte strings<->str (UTF-8), HDF5 groups<->dict, "
    "a list of numbers or of equal-shape arrays<->one HDF5 dataset, JSON "
    "structured array<->list of rows in field order (no names stored), HDF5 "
    "structured array<->compound dataset compared by field name",
    "JSON numbers are IEEE doubles: a NumPy longdouble may read back as "
    "either of the two doubles that bracket it; everything else is compared "
    "exactly (a == b, NaN matches NaN, sign of zero kept); a Python/NumPy "
    "integer may read back as any number with exactly the same value",
    "posterior_samples in a JSON result is a dictionary field -> column "
    "(FlowSampler.save_results converts it with live_points_to_dict; pinned "
    "by tests/test_flowsampler.py); other structured arrays are rows",
    "domain of the generated dictionaries = what result dictionaries "
    "contain: keys are non-empty strings without '/', strings contain no "
    "NUL/surrogates and are not the sentinel '__none__', integers fit "
    "int64, nested dictionaries are non-empty (the recursive HDF5 writer "
    "has no representation of an empty group), lists are homogeneous in "
    "kind (all integers or all floats or equal-shape float arrays)",
    "the in-memory results are not modified between the end of "
    "FlowSampler.run and the post analysis (the driver only reads "
    "attributes in between)",
    "config.json: only 'json.load parses it and every keyword is present' "
    "is asserted",
]

EXTS = ("hdf5", "h5", "json")


# ------------------------------------------------------------------ build
def _f(h):
    return float.fromhex(h) if isinstance(h, str) else float(h)


def _hex(x):
    return float(x).hex()


def _longdouble(hi, frac):
    hi = _f(hi)
    v = np.longdouble(hi)
    if math.isfinite(hi) and hi != 0.0:
        # a value between two doubles (where longdouble is wider)
        with np.errstate(all="ignore"):
            v = v + v * np.longdouble(_f(frac)) * np.longdouble(2.0) ** -53
    return v


class _Local:
    """a user-defined class (kwargs such as flow_proposal_class)"""

    def method(self, x):
        return x


def _function(state):
    return None


class _FakePool:
    """pool-like object: what nessai looks at is map/close/_processes"""

    _processes = 2

    def map(self, f, it):
        return [f(i) for i in it]

    def close(self):
        pass

    def join(self):
        pass


_OBJ = {}
OBJECT_NAMES = [
    "class:FlowProposal", "class:Model", "class:dict", "class:local",
    "instance:local", "pool:threadpool", "pool:fake", "callable:lambda",
    "callable:function", "callable:partial", "callable:builtin",
    "callable:method", "callable:torch", "callable:ufunc", "dtype:np.f8",
    "dtype:np.float32-class", "dtype:np.struct", "dtype:torch.float32",
    "dtype:torch.float64", "torch.device", "torch.tensor", "path",
    "timedelta", "np.bool_", "np.float32", "set", "bytes",
]


def objects():
    if _OBJ:
        return _OBJ
    import datetime
    import functools
    import pathlib
    from multiprocessing.pool import ThreadPool

    import torch
    from nessai.model import Model
    from nessai.proposal import FlowProposal

    _OBJ.update({
        "class:FlowProposal": FlowProposal,
        "class:Model": Model,
        "class:dict": dict,
        "class:local": _Local,
        "instance:local": _Local(),
        "pool:threadpool": ThreadPool(1),
        "pool:fake": _FakePool(),
        "callable:lambda": lambda x: x,
        "callable:function": _function,
        "callable:partial": functools.partial(_function, state=1),
        "callable:builtin": len,
        "callable:method": _Local().method,
        "callable:torch": torch.nn.functional.relu,
        "callable:ufunc": np.tanh,
        "dtype:np.f8": np.dtype("f8"),
        "dtype:np.float32-class": np.float32,
        "dtype:np.struct": np.dtype([("a", "f8"), ("b", "i4")]),
        "dtype:torch.float32": torch.float32,
        "dtype:torch.float64": torch.float64,
        "torch.device": torch.device("cpu"),
        "torch.tensor": torch.ones(2),
        "path": pathlib.Path("/tmp/x"),
        "timedelta": datetime.timedelta(seconds=1.5),
        "np.bool_": np.bool_(True),
        "np.float32": np.float32(0.1),
        "set": {1, 2},
        "bytes": b"abc",
    })
    assert sorted(_OBJ) == sorted(OBJECT_NAMES)
    return _OBJ


def close_objects():
    p = _OBJ.get("pool:threadpool")
    if p is not None:
        p.close()
        p.join()
    _OBJ.clear()


def _conv(x, dt):
    return _f(x) if np.dtype(dt).kind == "f" else int(x)


def build(s):
    """spec (JSON-able) -> Python value"""
    k = s["k"]
    if k == "none":
        return None
    if k == "str":
        return s["v"]
    if k == "bool":
        return bool(s["v"])
    if k == "int":
        return int(s["v"])
    if k == "float":
        return _f(s["v"])
    if k == "np":
        dt = s["dt"]
        if dt == "longdouble":
            return _longdouble(s["v"], s.get("frac", 0.0))
        return np.dtype(dt).type(_conv(s["v"], dt))
    if k == "arr":
        a = np.array([_conv(x, s["dt"]) for x in s["v"]], dtype=s["dt"])
        return a.reshape(s["shape"])
    if k == "struct":
        dtype = np.dtype([(n, dt) for n, dt in s["fields"]])
        a = np.empty(len(s["rows"]), dtype=dtype)
        for i, row in enumerate(s["rows"]):
            a[i] = tuple(_conv(x, dt) for x, (_, dt) in zip(row, s["fields"]))
        return a
    if k == "list":
        return [build(x) for x in s["v"]]
    if k == "tuple":
        return tuple(build(x) for x in s["v"])
    if k == "dict":
        return {key: build(x) for key, x in s["v"]}
    if k == "obj":
        return objects()[s["v"]]
    raise HarnessError(f"unknown spec kind {k!r}")


# ------------------------------------------------------------------ generator
SPECIAL = [math.nan, math.inf, -math.inf, 0.0, -0.0, 5e-324,
           1.7976931348623157e308, -1.7976931348623157e308, 0.1, 1 / 3,
           2.0 ** 53, 1e-300]
FLOATS = st.one_of(st.floats(), st.floats(-1e3, 1e3), st.sampled_from(SPECIAL))
INTS = st.one_of(st.integers(-10, 1000), st.integers(-2**63, 2**63 - 1),
                 st.sampled_from([0, -1, 2**31, 2**53 + 1, 2**63 - 1,
                                  -2**63]))
INT32 = st.one_of(st.integers(-5, 5000), st.integers(-2**31, 2**31 - 1))
REAL_KEYS = ["history", "logZ", "stopping_criteria", "x0", "x1", "Z_err",
             "seed", "nested_samples", "samples", "log_evidence", "version",
             "bootstrap_log_evidence", "proposal_importance", "total"]
KEYS = st.one_of(
    st.from_regex(r"[A-Za-z_][A-Za-z0-9_]{0,8}", fullmatch=True),
    st.from_regex(r"[A-Za-z_][A-Za-z0-9_\-\. ]{0,6}[A-Za-z0-9_]",
                  fullmatch=True),
    st.sampled_from(REAL_KEYS),
)
TEXT = st.one_of(
    st.text(st.characters(blacklist_categories=("Cs",),
                          blacklist_characters="\x00"), max_size=12),
    st.sampled_from(["0.1.dev1+gb3af0f19a", "0.4.1+nflows-int", "", "None",
                     "nan", "__none", "none__", "[1, 2]"]),
).filter(lambda s: s != PS.NONE_STR)
FIELD_NAMES = ["x0", "x1", "m_1", "phi", "logP", "logL", "it", "logW",
               "logQ", "logU", "a", "B"]


def s_float():
    return FLOATS.map(lambda x: {"k": "float", "v": _hex(x)})


def s_int():
    return INTS.map(lambda n: {"k": "int", "v": n})


def s_f64():
    return FLOATS.map(lambda x: {"k": "np", "dt": "float64", "v": _hex(x)})


def s_i64():
    return INTS.map(lambda n: {"k": "np", "dt": "int64", "v": n})


def s_ld():
    return st.builds(
        lambda x, fr: {"k": "np", "dt": "longdouble", "v": _hex(x),
                       "frac": _hex(fr)},
        st.one_of(FLOATS, st.floats(1e-6, 10.0)), st.floats(-0.49, 0.49))


def s_scalar():
    return st.one_of(
        st.just({"k": "none"}),
        TEXT.map(lambda s: {"k": "str", "v": s}),
        s_int(), s_float(), s_f64(), s_i64(), s_ld(),
    )


@st.composite
def s_arr(draw, shape=None, dt=None):
    dt = dt or draw(st.sampled_from(["float64", "float64", "int64",
                                     "int32"]))
    if shape is None:
        if draw(st.integers(0, 3)) == 0:
            shape = [draw(st.integers(1, 3)), draw(st.integers(1, 3))]
        else:
            shape = [draw(st.integers(0, 6))]
    n = int(np.prod(shape))
    if dt == "float64":
        vals = [_hex(x) for x in draw(st.lists(FLOATS, min_size=n,
                                               max_size=n))]
    else:
        vals = draw(st.lists(INTS if dt == "int64" else INT32, min_size=n,
                             max_size=n))
    return {"k": "arr", "dt": dt, "shape": shape, "v": vals}


@st.composite
def s_struct(draw, min_rows=0):
    nf = draw(st.integers(1, 5))
    names = draw(st.lists(st.sampled_from(FIELD_NAMES), min_size=nf,
                          max_size=nf, unique=True))
    fields = [[n, draw(st.sampled_from(["f8", "f8", "f8", "i4", "i8"]))]
              for n in names]
    nrows = draw(st.integers(min_rows, 4))
    rows = []
    for _ in range(nrows):
        row = []
        for _, dt in fields:
            if dt == "f8":
                row.append(_hex(draw(FLOATS)))
            elif dt == "i4":
                row.append(draw(INT32))
            else:
                row.append(draw(INTS))
        rows.append(row)
    return {"k": "struct", "fields": fields, "rows": rows}


@st.composite
def s_list(draw):
    fam = draw(st.sampled_from(["empty", "float", "float-mixed", "int",
                                "int64", "int-mixed", "float64",
                                "longdouble", "arrays"]))
    n = draw(st.integers(1, 6))
    if fam == "empty":
        v = []
    elif fam == "arrays":
        m = draw(st.integers(1, 4))
        v = [draw(s_arr(shape=[m], dt="float64"))
             for _ in range(draw(st.integers(1, 3)))]
    else:
        elem = {
            "float": s_float(), "float64": s_f64(),
            "float-mixed": st.one_of(s_float(), s_f64()),
            "int": s_int(), "int64": s_i64(),
            "int-mixed": st.one_of(s_int(), s_i64()),
            "longdouble": s_ld(),
        }[fam]
        v = draw(st.lists(elem, min_size=n, max_size=n))
    return {"k": "list", "v": v}


@st.composite
def s_dict(draw, depth, min_size=1, max_size=5):
    n = draw(st.integers(min_size, max_size))
    keys = draw(st.lists(KEYS, min_size=n, max_size=n, unique=True))
    items = []
    for key in keys:
        opts = [s_scalar(), s_scalar(), s_arr(), s_struct(), s_list(),
                s_list()]
        if depth > 0:
            opts.append(s_dict(depth - 1, 1, 4))
        items.append([key, draw(opts[draw(st.integers(0, len(opts) - 1))])])
    return {"k": "dict", "v": items}


def enc_cases():
    return s_dict(2, 2, 7).map(lambda s: {"part": "enc", "spec": s})


@st.composite
def sr_cases(draw):
    spec = draw(s_dict(1, 1, 5))
    spec["v"] = [kv for kv in spec["v"] if kv[0] not in (
        "posterior_samples", "initial_posterior_samples")]
    if draw(st.booleans()):
        spec["v"].append(["nested_samples", draw(s_struct())])
    return {
        "part": "sr", "spec": spec,
        "post": draw(s_struct()),
        "initial": draw(st.one_of(st.none(), s_struct())),
        "ext": draw(st.sampled_from(EXTS)),
        "form": draw(st.sampled_from(["ext-arg", "in-filename",
                                      "in-filename+ext-arg"])),
    }


def s_obj():
    return st.sampled_from(OBJECT_NAMES).map(lambda n: {"k": "obj", "v": n})


@st.composite
def s_cfg_value(draw, depth):
    kind = draw(st.integers(0, 11 if depth > 0 else 8))
    if kind <= 1:
        return draw(st.one_of(
            st.just({"k": "none"}),
            st.booleans().map(lambda b: {"k": "bool", "v": b}),
            s_int(), s_float(),
            st.text(max_size=8).map(lambda s: {"k": "str", "v": s}),
        ))
    if kind <= 4:
        return draw(s_obj())
    if kind <= 8:
        return draw([s_f64(), s_i64(), s_ld(), s_arr()][kind - 5]) \
            if kind < 8 or draw(st.booleans()) else draw(s_struct())
    n = draw(st.integers(0, 4))
    if kind == 11:
        keys = draw(st.lists(KEYS, min_size=n, max_size=n, unique=True))
        return {"k": "dict",
                "v": [[k, draw(s_cfg_value(depth - 1))] for k in keys]}
    v = [draw(s_cfg_value(depth - 1)) for _ in range(n)]
    return {"k": "list" if kind == 9 else "tuple", "v": v}


CFG_KEYS = ["nlive", "flow_config", "training_config", "pool", "n_pool",
            "flow_proposal_class", "checkpoint_callback", "seed",
            "reparameterisations", "stopping", "max_iteration", "plot",
            "proposal_plots", "device_tag", "ftype", "activation_fn"]


@st.composite
def cfg_cases(draw):
    n = draw(st.integers(1, 7))
    keys = draw(st.lists(st.one_of(st.sampled_from(CFG_KEYS), KEYS),
                         min_size=n, max_size=n, unique=True))
    items = [[k, draw(s_cfg_value(2))] for k in keys
             if k not in ("eps", "torch_dtype", "importance_sampler")]
    via = draw(st.sampled_from(["save_kwargs", "save_kwargs", "save_to_json"]))
    stub = {
        "eps": draw(st.sampled_from([None, 1e-8])),
        "torch_dtype": draw(st.sampled_from(
            ["dtype:torch.float32", "dtype:torch.float64"])),
        "ins": draw(st.booleans()),
    }
    return {"part": "cfg", "spec": {"k": "dict", "v": items}, "via": via,
            "stub": stub}


# ------------------------------------------------------------------ predicate
def _nessai_call(where, f, *a, case=None):
    try:
        return f(*a)
    except Exception as e:  # noqa: BLE001 - nessai on accepted input
        raise Violation(f"exception:{type(e).__name__}@{where}",
                        f"{type(e).__name__}: {str(e)[:300]}", case)


def _read(path, fmt, part, case):
    if not os.path.exists(path):
        raise Violation(f"{part}:{fmt}:file-missing",
                        f"{os.path.basename(path)} was not written "
                        f"(directory has {sorted(os.listdir(os.path.dirname(path)))})",
                        case)
    try:
        return PS.read_back(path, fmt)
    except Exception as e:  # noqa: BLE001
        raise Violation(f"{part}:{fmt}:read-back:{type(e).__name__}",
                        str(e)[:300], case)


def _compare(exp, got, fmt, part, case):
    c = PS.Comparer(fmt)
    c.mapping(exp, got, "")
    if c.unhandled:
        raise HarnessError(f"comparer cannot handle {c.unhandled[:3]}")
    if c.diffs:
        p, t, w, m = c.diffs[0]
        raise Violation(f"{part}:{fmt}:{t}:{w}", f"at '{p}': {m}", case)
    return c.leaves


def _same_object_tree(a, b, path=""):
    """Exact (type- and NaN-aware) equality of two Python / NumPy value
    trees; returns the path of the first difference or None."""
    if type(a) is not type(b):
        return f"{path}: type {type(a).__name__} became {type(b).__name__}"
    if isinstance(a, dict):
        if list(a.keys()) != list(b.keys()):
            return f"{path}: keys changed"
        for k in a:
            r = _same_object_tree(a[k], b[k], f"{path}/{k}")
            if r:
                return r
        return None
    if isinstance(a, (list, tuple)):
        if len(a) != len(b):
            return f"{path}: length changed"
        for i, (x, y) in enumerate(zip(a, b)):
            r = _same_object_tree(x, y, f"{path}[{i}]")
            if r:
                return r
        return None
    if isinstance(a, np.ndarray):
        if a.dtype != b.dtype or a.shape != b.shape or \
                a.tobytes() != b.tobytes():
            return f"{path}: array changed"
        return None
    if isinstance(a, (float, np.floating)):
        if not (a == b or (a != a and b != b)):
            return f"{path}: {a!r} became {b!r}"
        return None
    try:
        same = bool(a == b)
    except Exception:  # noqa: BLE001
        same = a is b
    return None if same else f"{path}: {a!r} became {b!r}"


def _input_unchanged(given, spec, fmt, part, case):
    """Saving must leave the in-memory results as they were (they are used
    again: saved a second time, returned to the caller)."""
    ref = build(spec)
    if part == "sr":
        # (save_results adds the posterior samples to the dictionary it got
        # from get_result_dictionary: only the entries that were there count)
        r = None
        for k in ref:
            if k not in given:
                r = f"/{k}: entry removed"
            else:
                r = _same_object_tree(ref[k], given[k], f"/{k}")
            if r:
                break
    else:
        r = _same_object_tree(ref, given)
    if r:
        raise Violation(f"{part}:{fmt}:in-memory-results-modified-by-saving",
                        r, case)


def check_enc(case):
    from nessai.utils.io import save_dict_to_hdf5, save_to_json

    tmp = tempfile.mkdtemp(prefix="vf-c19-")
    try:
        for fmt, writer, name in (
            ("json", save_to_json, "d.json"),
            ("hdf5", save_dict_to_hdf5, "d.hdf5"),
        ):
            given = build(case["spec"])      # handed to the writer
            exp = build(case["spec"])        # independent copy for the oracle
            path = os.path.join(tmp, name)
            _nessai_call(writer.__name__, writer, given, path, case=case)
            got = _read(path, fmt, "enc", case)
            _compare(exp, got, fmt, "enc", case)
            _input_unchanged(given, case["spec"], fmt, "enc", case)
    finally:
        shutil.rmtree(tmp, ignore_errors=True)


def check_sr(case):
    import types

    from nessai.flowsampler import FlowSampler

    ext = case["ext"]
    fmt = PS.fmt_of(ext)
    tmp = tempfile.mkdtemp(prefix="vf-c19-")
    try:
        given = build(case["spec"])
        stub = types.SimpleNamespace(
            ns=types.SimpleNamespace(get_result_dictionary=lambda: given),
            posterior_samples=build(case["post"]),
        )
        exp = build(case["spec"])
        post = build(case["post"])
        exp["posterior_samples"] = PS.columns(post) if fmt == "json" else post
        if case.get("initial") is not None:
            stub.initial_posterior_samples = build(case["initial"])
            exp["initial_posterior_samples"] = build(case["initial"])
        base = os.path.join(tmp, "result")
        path = base + "." + ext
        if case["form"] == "ext-arg":
            args = (base, ext)
        elif case["form"] == "in-filename":
            args = (path, None)
        else:
            args = (path, ext)
        _nessai_call("save_results", FlowSampler.save_results, stub, *args,
                     case=case)
        got = _read(path, fmt, "sr", case)
        if fmt == "json" and not isinstance(got.get("posterior_samples"),
                                            dict):
            raise Violation(
                "sr:json:posterior_samples:not-a-dictionary-of-fields",
                f"read back as {type(got.get('posterior_samples')).__name__}",
                case)
        _compare(exp, got, fmt, "sr", case)
        _input_unchanged(given, case["spec"], fmt, "sr", case)
    finally:
        shutil.rmtree(tmp, ignore_errors=True)


def check_cfg(case):
    import json
    import types

    from nessai.flowsampler import FlowSampler
    from nessai.utils.io import save_to_json

    tmp = tempfile.mkdtemp(prefix="vf-c19-")
    try:
        kwargs = build(case["spec"])
        want = list(kwargs)
        if case["via"] == "save_kwargs":
            stub = types.SimpleNamespace(
                eps=case["stub"]["eps"],
                torch_dtype=objects()[case["stub"]["torch_dtype"]],
                importance_nested_sampler=case["stub"]["ins"],
                output=os.path.join(tmp, ""),
            )
            _nessai_call("save_kwargs", FlowSampler.save_kwargs, stub, kwargs,
                         case=case)
            want += ["eps", "torch_dtype", "importance_sampler"]
        else:
            _nessai_call("save_to_json", save_to_json, kwargs,
                         os.path.join(tmp, "config.json"), case=case)
        path = os.path.join(tmp, "config.json")
        if not os.path.exists(path):
            raise Violation("cfg:file-missing", "config.json not written",
                            case)
        try:
            with open(path) as f:
                got = json.load(f)
        except Exception as e:  # noqa: BLE001
            raise Violation(f"cfg:json.load:{type(e).__name__}",
                            str(e)[:300], case)
        if not isinstance(got, dict):
            raise Violation("cfg:not-a-dict", type(got).__name__, case)
        miss = [k for k in want if k not in got]
        if miss:
            raise Violation("cfg:keys-missing", f"{miss}", case)
    finally:
        shutil.rmtree(tmp, ignore_errors=True)


def check_case(case):
    part = case["part"]
    if part == "enc":
        check_enc(case)
    elif part == "sr":
        check_sr(case)
    elif part == "cfg":
        check_cfg(case)
    else:
        raise HarnessError(f"unknown part {part!r}")


# ------------------------------------------------------------------ classes
def _walk_specs(s):
    yield s
    if s["k"] in ("list", "tuple"):
        for x in s["v"]:
            yield from _walk_specs(x)
    elif s["k"] == "dict":
        for _, x in s["v"]:
            yield from _walk_specs(x)


def _nonfinite_spec(s):
    for x in _walk_specs(s):
        if x["k"] in ("float",) or (x["k"] == "np" and x["dt"] != "int64"):
            if not math.isfinite(_f(x["v"])):
                return True
        elif x["k"] == "arr" and x["dt"] == "float64":
            if any(not math.isfinite(_f(v)) for v in x["v"]):
                return True
        elif x["k"] == "struct":
            for row in x["rows"]:
                for v, (_, dt) in zip(row, x["fields"]):
                    if dt == "f8" and not math.isfinite(_f(v)):
                        return True
    return False


def classify(case):
    part = case["part"]
    cl = ["part:" + part]
    if part in ("enc", "sr"):
        v = build(case["spec"])
        if part == "sr":
            v = dict(v, posterior_samples=build(case["post"]))
            cl += ["ext:" + case["ext"], "form:" + case["form"],
                   "sr:%s:%s" % (case["ext"], case["form"])]
            if case.get("initial") is not None:
                cl.append("sr:initial-posterior")
        tags = PS.type_tags(v)
        cl += ["type:" + t for t in sorted(tags)]
        nf = _nonfinite_spec(case["spec"])
        if nf:
            cl.append("non-finite")
        depth2 = any(isinstance(x, dict) and any(
            isinstance(y, dict) for y in x.values()) for x in v.values())
        if depth2:
            cl.append("nested-depth>=2")
        for x in _walk_specs(case["spec"]):
            if x["k"] == "struct" and not x["rows"]:
                cl.append("struct:empty")
                break
        interesting = nf or depth2 or any(
            t in tags for t in ("ndarray[struct]", "NoneType", "longdouble",
                                "list[longdouble]", "list[]")) or any(
            t.startswith("list[") for t in tags)
        nt = len(tags) >= 3 and interesting
        desc = {"part": part, "types": sorted(tags)}
        if part == "sr":
            desc.update(ext=case["ext"], form=case["form"])
        return cl, nt, desc
    names = sorted({x["v"] for x in _walk_specs(case["spec"])
                    if x["k"] == "obj"})
    cl += ["obj:" + n for n in names] + ["via:" + case["via"]]
    return cl, bool(names), {"part": part, "via": case["via"],
                             "keys": [k for k, _ in case["spec"]["v"]],
                             "objects": names}


# ------------------------------------------------------------------ shard
def shard(seed, n_enc, n_sr, n_cfg):
    logging.getLogger("nessai").setLevel(logging.CRITICAL)
    import warnings

    warnings.filterwarnings("ignore")
    from ..core import Ctx, jhash

    ctx = Ctx("C19", "quick", seed)
    out = Outcome()
    stats = out.stats

    def body(case):
        cl, nt, desc = classify(case)
        stats.case(desc, nontrivial=nt, classes=cl, key=jhash(case))
        try:
            check_case(case)
        except Violation as v:
            if ctx.known(v.key):
                stats.excluded_known[v.key] += 1
                return
            raise

    try:
        for strat, n, off in ((enc_cases(), n_enc, 0), (sr_cases(), n_sr, 3),
                              (cfg_cases(), n_cfg, 5)):
            if n:
                for v in run_given(body, strat, seed + off, n):
                    out.add(v)
    finally:
        close_objects()
    return out


# ------------------------------------------------------------------ real runs
MONITORS = []
POST = ["saved_results"]
SAVE_FRAMES = (":save_results", ":save_kwargs", ":get_result_dictionary",
               ":live_points_to_dict", ":save_to_json", ":save_dict_to_hdf5",
               ":add_dict_to_hdf5_file", ":encode_for_hdf5", ":default")


def make_history(case):
    # the wall-clock limit is a backstop only (inconclusive, never a
    # violation); nominal run time is 5-30 s
    h = configs.history_from(case, MONITORS, post=POST,
                             extra={"timeout": 600})
    if case.get("relocate") and len(h["steps"]) > 1:
        # the run directory is copied after the kill and the run is resumed
        # in the copy: the result file belongs in the directory the
        # FlowSampler was given
        for s in h["steps"][1:]:
            s["output_subdir"] = "out_moved"
            s["copy_output_from"] = "out"
    return h


@st.composite
def std_job(draw):
    """Standard-sampler runs with plain algorithmic options (what is written
    to the result file does not depend on the exotic ones, and C20 decides
    whether those terminate): varied are the model (parameter names, number
    of fields), the size of the run, capped / converged, the history."""
    model = draw(configs.std_models(include_quantised=False))
    n = draw(st.integers(50, 150))
    kw = {"seed": draw(st.integers(0, 2**31 - 1)), "nlive": n, "plot": False}
    kw["flow_config"] = {
        "ftype": draw(st.sampled_from(["realnvp", "realnvp", "nsf"])),
        "n_blocks": draw(st.integers(1, 2)),
        "n_neurons": draw(st.sampled_from([4, 8, 16])),
    }
    kw["training_config"] = {
        "max_epochs": draw(st.integers(10, 30)),
        "patience": draw(st.sampled_from([5, 10])),
        "batch_size": draw(st.sampled_from([50, 100, 1000])),
    }
    labels = ["model:" + model["name"],
              "ftype:" + kw["flow_config"]["ftype"]]
    if draw(st.integers(0, 2)) == 0:
        kw["max_iteration"] = draw(st.integers(2 * n, 6 * n))
        labels.append("max_iteration")
    else:
        kw["max_iteration"] = 25 * n
    if draw(st.booleans()):
        kw["stopping"] = draw(st.sampled_from([0.1, 0.5, 1.0]))
    if draw(st.booleans()):
        kw["shrinkage_expectation"] = draw(st.sampled_from(["logt", "t"]))
    if draw(st.booleans()):
        kw["maximum_uninformed"] = draw(st.integers(n // 2, n))
    if draw(st.booleans()):
        kw["checkpointing"] = True
        kw["checkpoint_on_iteration"] = True
        kw["checkpoint_interval"] = draw(st.integers(n // 2, 3 * n))
        labels.append("iteration-checkpoints")
    return {"model": model, "ins": False, "kwargs": kw, "kills": [],
            "labels": labels}


def run_cases(ctx):
    n_std, n_ins = (3, 6) if ctx.quick else (24, 36)
    std = configs.collect(std_job(), ctx.seed * 1000 + 901, n_std)
    ins = configs.collect(
        configs.ins_job(nlive=(100, 250)), ctx.seed * 1000 + 902, n_ins)
    cases = []
    for i, c in enumerate(std):
        kw = dict(c["kwargs"])
        ext = EXTS[(i + ctx.seed) % 3]
        kw["result_extension"] = ext
        labels = list(c["labels"])
        if i % 3 == 1:
            kw["pool"] = {"__pool__": 2}
            labels.append("user-pool")
        if i % 3 == 0 and "max_iteration" not in labels:
            # every run of the check contains a run that is cut short by the
            # iteration cap (stored evidence = rectangle rule, not refined)
            kw["max_iteration"] = 3 * kw["nlive"]
            labels.append("max_iteration")
        cases.append(dict(c, kwargs=kw, labels=labels))
    for i, c in enumerate(ins):
        kw = dict(c["kwargs"])
        ext = EXTS[(i + ctx.seed + 1) % 3]
        iid = (i // 3) % 2 == 0
        kw["result_extension"] = ext
        kw["draw_iid_live"] = iid
        labels = [x for x in c["labels"] if not x.startswith("iid:")]
        labels.append(f"iid:{iid}")
        if i % 4 == 3:
            kw["pool"] = {"__pool__": 2}
            labels.append("user-pool")
        c = dict(c, kwargs=kw, labels=labels)
        if i % 6 == 2:
            # killed once, the run directory copied, resumed in the copy
            kw["checkpointing"] = True
            kw["checkpoint_on_iteration"] = True
            kw["checkpoint_interval"] = 1
            kw["max_iteration"] = max(kw.get("max_iteration", 6), 6)
            dpi = 2 if iid else 1
            c["kills"] = [{"event": "level", "k": dpi * 2 + 1}]
            c["relocate"] = True
            c["labels"] = labels + ["history:killed-copied-resumed"]
        cases.append(c)
    return cases


def judge(case, reports, add, stats):
    runcheck.monitor_violations(reports, add)
    last = reports[-1]
    ins = bool(case.get("ins"))
    ext = case["kwargs"].get("result_extension", "hdf5")
    sampler = "ins" if ins else "std"
    classes = ["part:run", "sampler:" + sampler] + list(case.get("labels",
                                                                 []))
    for r in reports:
        classes.extend(r.get("classes") or [])
    completed = last.get("status") == "completed"
    data = (last.get("data") or {}).get("c19") or {}
    if last.get("status") == "exception":
        where = last.get("exc_where") or ""
        classes.append("errored:" + runcheck.exc_key(last))
        if where.startswith("utils/io.py") or where.endswith(SAVE_FRAMES):
            add("saving:exception:%s@%s" % (last.get("exc_type"), where),
                last.get("exc_msg", ""))
    if data.get("unhandled"):
        raise HarnessError(
            f"saved_results cannot compare {data['unhandled']}")
    compared = completed and data.get("leaves", 0) > 0
    if completed:
        classes.append("completed")
    if compared:
        classes.append(f"saved:{sampler}:{ext}")
        if ins:
            classes.append("saved:ins:iid=%s" % case["kwargs"].get(
                "draw_iid_live", True))
        for k in data.get("views_differ") or []:
            classes.append("views-differ:" + k)
        rt = stats.extra.setdefault("real_types", {})
        for t, where in (data.get("types") or {}).items():
            rt.setdefault(t, f"{sampler}:{where}")
        stats.extra["real_result_files"] = stats.extra.get(
            "real_result_files", 0) + 1
    return bool(compared), classes, int(data.get("leaves", 0))


# ------------------------------------------------------------------ run
def run(ctx):
    n_sh = 16
    n_enc, n_sr, n_cfg = (128, 48, 48) if ctx.quick else (1250, 400, 400)
    kws = [dict(seed=ctx.seed * 1000 + i, n_enc=n_enc, n_sr=n_sr, n_cfg=n_cfg)
           for i in range(n_sh)]
    out = run_shards("vf.checks.c19", "shard", kws)
    runs_out = runcheck.execute_cases(ctx, "c19", run_cases(ctx),
                                      make_history, judge)
    out.merge(runs_out)
    return out


def health(ctx, stats):
    q = ctx.quick
    cl = stats.classes
    problems = []
    need = {
        "part:enc": 2000 if q else 19000, "part:sr": 700 if q else 6000,
        "part:cfg": 700 if q else 6000,
        "completed": 7 if q else 50,
        "non-finite": 100, "nested-depth>=2": 50, "struct:empty": 20,
        "has:list[longdouble]": 2, "has:NoneType": 2, "has:non-finite": 1,
        "config.json-read": 7 if q else 50, "config.json-with-pool": 1,
        "sr:initial-posterior": 50,
    }
    for s_ in ("std", "ins"):
        for e in EXTS:
            need[f"saved:{s_}:{e}"] = 1 if q else 4
    need["saved:ins:iid=True"] = 2 if q else 10
    need["saved:ins:iid=False"] = 2 if q else 10
    for e in EXTS:
        for f in ("ext-arg", "in-filename", "in-filename+ext-arg"):
            need[f"sr:{e}:{f}"] = 10
    for n in OBJECT_NAMES:
        need["obj:" + n] = 5
    for k, v in need.items():
        if cl.get(k, 0) < v:
            problems.append(f"class {k}: {cl.get(k, 0)} < {v}")
    real = stats.extra.get("real_types") or {}
    if not real:
        problems.append("no value types were collected from real results")
    lo = 20 if q else 200
    for t, where in sorted(real.items()):
        if cl.get("type:" + t, 0) < lo:
            problems.append(
                f"value type {t} (real results: {where}) was generated in "
                f"only {cl.get('type:' + t, 0)} encoder cases (< {lo})")
    return problems


def replay(ctx, case):
    logging.getLogger("nessai").setLevel(logging.CRITICAL)
    if "part" in case:
        try:
            check_case(case)
        except Violation as v:
            return [v]
        finally:
            close_objects()
        return []
    case = {k: v for k, v in case.items() if k != "extra"}
    return runcheck.replay_case(ctx, "c19r", case, make_history, judge)
