"""C07 - reparameterisations are exact bijections with consistent Jacobians
and priors.

Generator : Hypothesis (vf/c07_gen.py): every registered name of the general
            and gravitational-wave tables, option values per class, bounds
            with magnitudes 1e-3..1e6 (exact angular bounds where the class
            demands them), batches mixing interior points, points at
            lo+d*range / hi-d*range for d down to 1e-12 and the bounds
            themselves, tested before and after update(batch); and whole
            FlowProposal / GWFlowProposal configurations (rejected by
            initialise() -> skipped as "rejected up front").
Oracles   : round trip; non-sampling fields bit-identical; log_J + log_J_inv
            == 0 (conditioning-aware); reported log-Jacobian minus log|det| of
            a finite-difference Jacobian of the implemented map constant over
            the batch; prime prior == original prior / Jacobian up to a
            constant with the same support.
"""
import logging
import math
import os
import shutil
import tempfile

import numpy as np

from ..core import HarnessError, Outcome, Violation
from ..c07_fd import fd_logdet
from ..c07_model import (
    ALL_NAMES, EPS, FAMILY, GENERAL_NAMES, GW_NAMES, ObjModel, decode_kwargs,
    ulp,
)

LEVEL = "exploration"
RULE = (
    "Object level: Hypothesis draws a registered reparameterisation name "
    "(general + gravitational-wave tables), documented option values for its "
    "class, finite bounds (magnitudes 1e-3..1e6, exact angular bounds where "
    "required) and a batch of 6-16 points per parameter (interior, "
    "lo+d*range / hi-d*range with d = 1e-1..1e-12, the bounds themselves "
    "where the map is finite); each case is checked in the initial state and "
    "again after update() with a leading subset of the batch. Proposal level: "
    "FlowProposal / GWFlowProposal with a generated `reparameterisations` "
    "dictionary (all three documented forms), fallback, reverse order; "
    "configurations that initialise() rejects are counted and skipped. "
    "Non-trivial: at least one regular point within 1e-6*range of a bound and "
    "the post-update state was checked; distinct by (level, name, option "
    "tuple)."
)
ASSUMPTIONS = [
    "round-trip tolerance 1e-9*range + 8 ulp(max|bound|) per parameter; "
    "inputs within that tolerance of one of the two identified end points of "
    "a full-period parameter may come back next to the other end (distance "
    "on the circle) but must stay inside the prior box",
    "log_J + log_J_inv tolerance 1e-9*(1+|log_J|) + 8*eps*kappa, kappa = "
    "1/(relative distance to the singular bound) for logit/log families and "
    "sky poles, 1 otherwise (representation error of the input)",
    "excluded singular sets: logit at both bounds, log at the lower bound, "
    "zero radius, sky poles, theta_jn within 2e-9*pi of pi/2 for delta-phase "
    "inside a proposal (sign(cos) jumps there), and - derived from the code, it narrows the "
    "domain - for boundary inversion after a data-dependent update the points "
    "beyond the updated min (lower edge) / max (upper edge; both sides when "
    "the edge is chosen by detection), where the implemented map folds",
    "finite-difference Jacobians: 5-node stencils with weights from the "
    "actual node offsets, step <= (distance to a singular set)/32, one-sided "
    "next to folds / cuts / box edges; points whose two step sizes disagree "
    "by more than 1e-5 are not used (counted as fd_unresolved); spread "
    "threshold 1e-4 + 2*max estimate; direction: forward map with the global "
    "NumPy RNG re-seeded before every call (fixes the random split), inverse "
    "map for Angle / ToCartesian / AnglePair (auxiliary radius)",
    "non-linear pre-rescalings (log, exp, power law, cube) are generated with "
    "hi/lo <= 50 (exp: width <= 10) and power in [0,3] so that the condition "
    "number of the composite map stays below 1e6; shifts of ScaleAndShift are "
    "of the magnitude of the bounds",
    "update batches contain at least two distinct values per parameter "
    "(spread >= 1e-6*range)",
    "fixed-scale angles are generated on the bounds their name documents "
    "([0,2pi], [-pi,pi], [0,pi], [-pi/2,pi/2]) and on generated bounds whose "
    "range is shorter than the period 2pi/scale (where the map is one-to-"
    "one); 'periodic' (scale from the bounds) on any finite bounds",
    "prime priors are compared on points inside the box by 1e-12*range + 16 "
    "ulp and, for affine maps, outside it by the same margin; Angle prime "
    "priors only with the auxiliary radius (the user's radial prior is "
    "unknown otherwise)",
    "the astropy-backed uniform-comoving-volume distance converter is not "
    "importable here and is the one built-in not exercised",
]

FD_EST_MAX = 1e-5
FD_SPREAD = 1e-4
NONSAMPLING_EXTRA = "vf_extra"


# ---------------------------------------------------------------- plumbing
def reset_state(seed=0, extras=False):
    """Reset everything nessai keeps per process."""
    import torch
    from nessai import config
    from nessai.livepoint import (
        add_extra_parameters_to_live_points,
        reset_extra_live_points_parameters,
    )

    reset_extra_live_points_parameters()
    config.general.eps = 1e-8
    torch.set_default_dtype(torch.float32)
    np.random.seed(seed % (2 ** 32))
    torch.manual_seed(seed)
    if extras:
        add_extra_parameters_to_live_points([NONSAMPLING_EXTRA], [-1.5])


def check_tables():
    from nessai.gw.reparameterisations import default_gw
    from nessai.reparameterisations import default_reparameterisations

    if set(default_reparameterisations) != set(GENERAL_NAMES) or set(
        default_gw
    ) != set(ALL_NAMES):
        raise HarnessError(
            "registered reparameterisation names changed: "
            f"{sorted(map(str, set(default_gw) ^ set(ALL_NAMES)))}"
        )


def nonsampling_names():
    from nessai import config

    return list(config.livepoints.non_sampling_parameters)


def fill_nonsampling(x, tag):
    n = x.size
    i = np.arange(n)
    x["logP"] = -0.5 * i + tag
    x["logL"] = 1.5 * i - 3.0 + tag
    if n > 2:
        x["logL"][0] = -np.inf
        x["logP"][n - 1] = np.nan
    x["it"] = i + 1 + int(tag)
    if NONSAMPLING_EXTRA in x.dtype.names:
        x[NONSAMPLING_EXTRA] = 0.25 * i + tag


def make_array(fields, cols, n, tag):
    from nessai.livepoint import empty_structured_array

    x = empty_structured_array(n, names=list(fields))
    for f in fields:
        if f in cols:
            x[f] = cols[f]
    fill_nonsampling(x, tag)
    return x


def same_bytes(a, b):
    return np.ascontiguousarray(a).tobytes() == np.ascontiguousarray(b).tobytes()


class Runner:
    """Wraps calls into nessai: exceptions on accepted input are violations."""

    def __init__(self, case):
        self.case = case

    def __call__(self, where, fn, *a, **k):
        try:
            with np.errstate(all="ignore"):
                return fn(*a, **k)
        except Violation:
            raise
        except Exception as e:  # noqa: BLE001 - converted, never swallowed
            raise Violation(
                f"exception:{type(e).__name__}:{where}",
                f"{type(e).__name__}: {e}",
                self.case,
            )


def lookup(table, name):
    if table == "gw":
        from nessai.gw.reparameterisations import get_gw_reparameterisation

        return get_gw_reparameterisation(name)
    from nessai.reparameterisations import get_reparameterisation

    return get_reparameterisation(name)


# ------------------------------------------------------- oracle primitives
def roundtrip_errors(model, p, x_in, x_out):
    """|x_out - x_in|; for a parameter whose two ends are one identified
    point, inputs within the tolerance of an end may come back next to the
    other end (distance on the circle), but never outside the prior box."""
    d = np.abs(x_out - x_in)
    per = model.period(p)
    if per is not None:
        lo, hi = model.bounds[p]
        tol = model.rt_tol(p)
        at_end = (np.abs(x_in - lo) <= tol) | (np.abs(x_in - hi) <= tol)
        in_box = (x_out >= lo - tol) & (x_out <= hi + tol)
        with np.errstate(invalid="ignore"):
            d = np.where(at_end & in_box, np.minimum(d, np.abs(d - per)), d)
    return d


def spread_check(reported, ld, est, use, kap, case, key, info):
    """reported - ld must be constant over the usable points (each point is
    allowed the representation error 16*eps*kappa of its reported value)."""
    with np.errstate(all="ignore"):
        good = use & np.isfinite(ld) & np.isfinite(est) & (est <= FD_EST_MAX)
        good &= np.isfinite(reported) & np.isfinite(kap)
        # Ill-conditioned points (relative distance to a singular bound below
        # ~1e-9): the noise of a finite difference is eps*kappa*|x|/h, far
        # above the representation error eps*kappa of the reported value, so
        # the finite-difference oracle cannot resolve them (found as a false
        # alarm of 1.1e-2 at 1e-12*range from a logit bound behind a cubic
        # pre-rescaling).  They are still covered by the round-trip and the
        # log_J + log_J_inv clauses.
        good &= (16.0 * EPS * kap) <= 1e-6
    info["fd_points"] = info.get("fd_points", 0) + int(good.sum())
    info["fd_unresolved"] = info.get("fd_unresolved", 0) + int(
        (use & ~good).sum()
    )
    if good.sum() < 2:
        return
    c = (reported - ld)[good]
    extra = 16.0 * EPS * kap[good]
    well = extra <= 1e-6
    ref = float(np.median(c[well])) if well.sum() >= 1 else float(np.median(c))
    tol = FD_SPREAD + float(est[good].max()) + extra
    dev = np.abs(c - ref)
    info["fd_max_spread"] = max(
        info.get("fd_max_spread", 0.0),
        float(np.ptp(c[well])) if well.any() else 0.0,
    )
    bad = ~(dev <= tol)
    if bad.any():
        i = int(np.argmax(np.where(bad, dev / tol, 0.0)))
        raise Violation(
            key,
            f"reported log-Jacobian minus finite-difference log|det| is not "
            f"constant over the batch: reference offset {ref:.9g}, usable "
            f"point #{i} has {c[i]:.9g} (deviation {dev[i]:.3g} > tol "
            f"{tol[i]:.3g}); offsets min {c.min():.6g} max {c.max():.6g}",
            case,
        )


# ------------------------------------------------------------ object level
def build_object(case, run):
    rc, kw = run("get_reparameterisation", lookup, case["table"], case["name"])
    ekw = dict(kw)
    ekw.update(decode_kwargs(case["kwargs"]))
    params = list(case["parameters"])
    p_arg = params[0] if case.get("as_str") and len(params) == 1 else params
    form = case.get("bounds_form", "dict")
    if form == "none":
        pb = None
    elif form == "list":
        pb = [float(v) for v in case["bounds"][params[0]]]
    else:
        pb = {
            p: np.array(case["bounds"][p], dtype=float)
            for p in case["bounds"]
            if p in params
        }
    try:
        with np.errstate(all="ignore"):
            obj = rc(parameters=p_arg, prior_bounds=pb, **ekw)
    except (RuntimeError, ValueError, TypeError) as e:
        return None, ekw, f"{type(e).__name__}: {e}"
    except Exception as e:  # noqa: BLE001
        raise Violation(
            f"exception:{type(e).__name__}:{rc.__name__}.__init__",
            f"{type(e).__name__}: {e}",
            case,
        )
    return obj, ekw, None


def check_object(case):
    """Plain predicate for one object-level case. Returns an info dict."""
    check_tables()
    reset_state(case["seed"], extras=case.get("extras", False))
    run = Runner(case)
    info = {"rejected": None, "states": 0}
    obj, ekw, why = build_object(case, run)
    if obj is None:
        info["rejected"] = why
        return info
    model = ObjModel(
        case["name"], case["parameters"], case["bounds"], case["roles"], ekw
    )
    X = {f: np.array(v, dtype=float) for f, v in case["x"].items()}
    n = len(next(iter(X.values())))
    n_update = int(case.get("n_update", 0))
    upd = None
    for state in ["pre"] + (["post"] if n_update else []):
        if state == "post":
            xs = make_array(list(X), X, n, 7.0)[:n_update]
            run(f"{type(obj).__name__}.update", obj.update, xs)
            upd = {
                p: (float(np.min(X[p][:n_update])),
                    float(np.max(X[p][:n_update])))
                for p in model.params
            }
        try:
            _check_object_state(case, obj, model, X, n, state, upd, run, info)
        except Violation as v:
            if (
                v.key.startswith("exception:KeyError:")
                and model.fam == "sas"
                and isinstance(case.get("as_str") and case["parameters"][0],
                               str)
                and len(case["parameters"][0]) > 1
                and state == "pre"
            ):
                # scale/shift dictionaries keyed by the characters of the name
                raise Violation(
                    "scaleandshift:estimate:str-parameters:KeyError",
                    f"{type(obj).__name__}(parameters="
                    f"{case['parameters'][0]!r}, estimate_*=True) before any "
                    f"update: {v.msg}; scale={getattr(obj, 'scale', None)!r}",
                    case,
                )
            raise
        info["states"] += 1
    if n_update and callable(getattr(obj, "reset", None)):
        # reset() undoes the data-dependent update (the proposal resets its
        # reparameterisations after verifying them and whenever it is
        # reset): the object must behave as before the update again
        run(f"{type(obj).__name__}.reset", obj.reset)
        _check_object_state(case, obj, model, X, n, "reset", None, run, info)
        info["states"] += 1
    return info


def _check_object_state(case, obj, model, X, n, state, upd, run, info):
    cls = type(obj).__name__
    seed = int(case["seed"])
    test = case.get("test", "omit")
    fkw = {}
    if test != "omit":
        fkw["test"] = test
    if case.get("compute_radius"):
        fkw["compute_radius"] = True
    fold_test = None if test == "omit" else test
    fields = list(X)
    requires = [f for f in fields if f not in model.params]
    x = make_array(fields, X, n, 0.0)
    ns = nonsampling_names()

    def forward(xx):
        from nessai.livepoint import empty_structured_array  # noqa: F401

        np.random.seed(seed % (2 ** 32))
        xp = make_array(list(obj.prime_parameters), {}, xx.size, 100.0)
        lj = np.zeros(xx.size)
        return run(
            f"{cls}.reparameterise", obj.reparameterise, xx.copy(), xp, lj,
            **fkw
        )

    def inverse(xp, xsrc):
        out_fields = list(obj.parameters) + [
            f for f in requires if f not in obj.parameters
        ]
        xi = make_array(out_fields, {f: xsrc[f] for f in requires},
                        xp.size, 200.0)
        lj = np.zeros(xp.size)
        return run(
            f"{cls}.inverse_reparameterise", obj.inverse_reparameterise,
            xi, xp.copy(), lj,
        )

    x2, xp2, lj2 = forward(x)
    m = x2.size
    if m % n or xp2.size != m or np.shape(lj2) != (m,):
        raise Violation(
            f"shape:{cls}.reparameterise",
            f"sizes x={x2.size} x'={xp2.size} log_j={np.shape(lj2)} n={n}",
            case,
        )
    B = m // n
    x3, _, lj3 = inverse(xp2, x2)
    if x3.size != m or np.shape(lj3) != (m,):
        raise Violation(
            f"shape:{cls}.inverse_reparameterise",
            f"sizes x={x3.size} log_j={np.shape(lj3)} expected {m}",
            case,
        )
    regular = ~model.excluded(X) & ~model.fold(X, upd, fold_test)
    reg_t = np.tile(regular, B)
    info.setdefault("blocks", B)
    info["blocks"] = max(info["blocks"], B)
    info["regular"] = info.get("regular", 0) + int(regular.sum())

    # ---- finite on the regular set
    for nm, arr in [("x_prime:" + pp, xp2[pp]) for pp in obj.prime_parameters
                    ] + [("log_J", lj2), ("log_J_inv", lj3)]:
        bad = reg_t & ~np.isfinite(arr)
        if bad.any():
            i = int(np.argmax(bad))
            raise Violation(
                f"nonfinite:{cls}:{nm.split(':')[0]}:{state}",
                f"{nm}={arr[i]!r} at regular point #{i % n} "
                f"({ {p: X[p][i % n] for p in model.params} })",
                case,
            )

    # ---- (a) round trip, every block
    for p in model.params:
        tol = model.rt_tol(p)
        xin = np.tile(X[p], B)
        err = roundtrip_errors(model, p, xin, x3[p])
        bad = reg_t & ~(err <= tol)
        if bad.any():
            i = int(np.argmax(np.where(bad, np.nan_to_num(err, nan=np.inf),
                                       -1.0)))
            key = f"roundtrip:{cls}:{state}"
            if model.fam == "angle" and model.roles[p] == "angle":
                lo, hi = model.bounds[p]
                per = 2.0 * math.pi / model.scale
                k = (x3[p][i] - xin[i]) / per
                if (
                    lo != 0.0
                    and abs(lo + 0.5 * per) > 1e-9 * per
                    and abs(k - round(k)) < 1e-6
                    and round(k) != 0
                ):
                    key = "angle:inverse-wrap:asymmetric-bounds"
            raise Violation(
                key,
                f"{p}: {xin[i]!r} -> {x3[p][i]!r} (|err| {err[i]:.3g} > tol "
                f"{tol:.3g}), block {i // n}, bounds {model.bounds[p]}, "
                f"state {state}",
                case,
            )

    # ---- (b) non-sampling fields
    ref_xp = make_array(list(obj.prime_parameters), {}, n, 100.0)
    ref_xi = make_array(list(obj.parameters), {}, n, 200.0)
    for f in ns:
        for b in range(B):
            sl = slice(b * n, (b + 1) * n)
            for what, got, ref in (
                ("x", x2[f][sl], x[f]),
                ("x_prime", xp2[f][sl], ref_xp[f]),
            ):
                if not same_bytes(got, ref):
                    raise Violation(
                        f"nonsampling:{cls}.reparameterise:{what}",
                        f"field {f} of {what} changed (block {b}): "
                        f"{got.tolist()} vs {ref.tolist()}",
                        case,
                    )
        # the inverse was given 200-tagged fields for all m rows
        ref_all = make_array(list(obj.parameters), {}, m, 200.0)[f]
        if not same_bytes(x3[f], ref_all):
            raise Violation(
                f"nonsampling:{cls}.inverse_reparameterise:x",
                f"field {f} changed: {x3[f].tolist()} vs {ref_all.tolist()}",
                case,
            )
    del ref_xi

    # ---- (c) the two log-Jacobians are negatives of each other
    kap = np.tile(model.kappa(X), B)
    with np.errstate(all="ignore"):
        s = np.abs(lj2 + lj3)
        tol = 1e-9 * (1.0 + np.abs(lj2)) + 8.0 * EPS * kap
    bad = reg_t & ~(s <= tol)
    if bad.any():
        i = int(np.argmax(np.where(bad, np.nan_to_num(s / tol, nan=np.inf),
                                   -1.0)))
        raise Violation(
            f"logJ-sum:{cls}:{state}",
            f"log_J={lj2[i]!r} log_J_inv={lj3[i]!r} sum={lj2[i] + lj3[i]:.3g} "
            f"tol={tol[i]:.3g} at point #{i % n} block {i // n} "
            f"({ {p: X[p][i % n] for p in model.params} })",
            case,
        )

    # ---- (d) reported Jacobian against the derivative of the map
    if model.direction == "fwd":
        coords = [p for p in obj.parameters if p in model.params]
        primes = list(obj.prime_parameters)
        _, X0, hpref, room, kind = model.fwd_rooms(X, upd, fold_test, coords)
        X0 = np.where(regular[:, None], X0, X0)

        def F(Xm):
            xx = x.copy()
            for j, p in enumerate(coords):
                xx[p] = np.where(regular, Xm[:, j], X[p])
            _, xq, _ = forward(xx)
            if xq.size != m:
                raise Violation(
                    f"shape:{cls}.reparameterise",
                    "output size changed between identical calls", case)
            return np.stack([xq[pp] for pp in primes], axis=1).reshape(
                B, n, len(primes))

        room = np.where(regular[:, None, None], room, 0.0)
        ld, est, valid, n1 = fd_logdet(F, X0, hpref, room, kind)
        rep = lj2.reshape(B, n)
        usable = regular & valid & model.fd_usable(X)
        use = np.broadcast_to(usable[None, :], (B, n))
        spread_check(rep.ravel(), ld.ravel(), est.ravel(), use.ravel(), kap,
                     case, f"jacobian:{cls}:{state}", info)
    else:
        primes = list(obj.prime_parameters)
        outs = list(obj.parameters)
        XP0 = np.stack([xp2[pp] for pp in primes], axis=1)
        hpref, room, kind = model.inv_rooms(XP0)
        room = np.where(reg_t[:, None, None], room, 0.0)

        def G(XPm):
            xq = xp2.copy()
            for j, pp in enumerate(primes):
                xq[pp] = np.where(reg_t, XPm[:, j], XP0[:, j])
            xo, _, _ = inverse(xq, x2)
            return np.stack([xo[p] for p in outs], axis=1)[None]

        ld, est, valid, n1 = fd_logdet(G, XP0, hpref, room, kind)
        usable = reg_t & valid & np.tile(model.fd_usable(X), B)
        spread_check(lj3, ld[0], est[0], usable, kap, case,
                     f"jacobian:{cls}:{state}", info)
    info["fd_onesided"] = info.get("fd_onesided", 0) + n1

    # ---- (e) prime prior
    if getattr(obj, "has_prime_prior", False):
        _check_prime_prior(case, obj, model, X, x, x3, xp2, lj2, regular, B,
                           n, state, run, forward, info)


def _check_prime_prior(case, obj, model, X, x, x3, xp2, lj2, regular, B, n,
                       state, run, forward, info):
    cls = type(obj).__name__
    aux = None
    if model.fam in ("angle", "tocart", "pair"):
        if model.radial is not None:
            return  # user's radial prior unknown
        aux = obj.parameters[-1]
    P = np.asarray(
        run(f"{cls}.x_prime_log_prior", obj.x_prime_log_prior, xp2.copy()),
        dtype=float,
    )
    if P.shape != (xp2.size,):
        P = np.broadcast_to(P, (xp2.size,)).copy()
    Xt = {p: np.tile(X[p], B) for p in X}
    orig = model.orig_log_prior(Xt, x3, aux)
    inside = np.tile(model.inside_margin(X) & regular, B) & np.isfinite(orig)
    info["prior_points"] = info.get("prior_points", 0) + int(inside.sum())
    bad = inside & ~np.isfinite(P)
    if bad.any():
        i = int(np.argmax(bad))
        if model.fam == "tocart" and model.bounds[model.angle][1] <= 0:
            raise Violation(
                "tocartesian:prime-prior:not-finite:upper-bound<=0",
                f"x_prime_log_prior={P[i]!r} for every point: the constant "
                f"log(k) uses k = upper prior bound = "
                f"{model.bounds[model.angle][1]!r}",
                case,
            )
        raise Violation(
            f"prime-prior:support:{cls}:{state}",
            f"x_prime_log_prior={P[i]!r} at a point inside the prior box "
            f"({ {p: Xt[p][i] for p in model.params} }), bounds "
            f"{model.bounds}",
            case,
        )
    if inside.sum() >= 2:
        with np.errstate(all="ignore"):
            D = P - (orig - lj2)
            tol = 1e-9 * (1.0 + np.abs(P) + np.abs(orig) + np.abs(lj2))
        d = D[inside]
        spread = float(d.max() - d.min())
        alt = model.pre_log_jacobian(Xt)
        if alt is not None and spread > 2.0 * float(tol[inside].max()):
            # `prior="uniform"` with a pre-rescaling may also be read as
            # "uniform after the pre-rescaling": accept either reading
            d = (D - alt)[inside]
            spread = float(d.max() - d.min())
        if not spread <= 2.0 * float(tol[inside].max()):
            raise Violation(
                f"prime-prior:constant:{cls}:{state}",
                f"x_prime_log_prior - (log_prior - log_J) varies by "
                f"{spread:.3g} over the batch",
                case,
            )
    # support: points outside the box must have zero prime-prior density
    if model.fam in ("rtb", "dist"):
        probes = []
        base = {p: float(X[p][0]) for p in X}
        for p in model.params:
            if p in model.inv_params:
                continue
            lo, hi = model.bounds[p]
            w = hi - lo
            for mfrac in (1e-9, 1e-3, 0.5):
                step = max(mfrac * w, 64.0 * ulp(max(abs(lo), abs(hi))))
                for v in (lo - step, hi + step):
                    if model.pre in ("log", "power", "cube") and v <= 0:
                        continue
                    if model.pre == "exp" and abs(v) > 50:
                        continue
                    q = dict(base)
                    q[p] = v
                    probes.append(q)
        if probes:
            cols = {f: np.array([q[f] for q in probes]) for f in X}
            xq = make_array(list(X), cols, len(probes), 0.0)
            _, xpq, _ = forward(xq)
            Pq = np.asarray(run(f"{cls}.x_prime_log_prior",
                                obj.x_prime_log_prior, xpq.copy()))
            Pq = np.broadcast_to(Pq, (xpq.size,))
            k = len(probes)
            for b in range(xpq.size // k):
                blk = Pq[b * k:(b + 1) * k]
                badq = ~np.isneginf(blk)
                if badq.any():
                    i = int(np.argmax(badq))
                    raise Violation(
                        f"prime-prior:support-outside:{cls}:{state}",
                        f"x_prime_log_prior={blk[i]!r} for a point outside "
                        f"the prior box {probes[i]}, bounds {model.bounds}",
                        case,
                    )
            info["prior_outside"] = info.get("prior_outside", 0) + k
    if model.fam == "angle" and model.ekw.get("prior") == "sine":
        from nessai.livepoint import empty_structured_array

        phi = -np.array([1e-9, 1e-3, 0.5, 1.5, 3.0])
        xq = empty_structured_array(phi.size, names=list(obj.prime_parameters))
        xq[obj.prime_parameters[0]] = 1.3 * np.cos(phi)
        xq[obj.prime_parameters[1]] = 1.3 * np.sin(phi)
        Pq = np.asarray(run(f"{cls}.x_prime_log_prior", obj.x_prime_log_prior,
                            xq))
        if not np.isneginf(Pq).all():
            raise Violation(
                f"prime-prior:support-outside:{cls}:{state}",
                f"sine prime prior {Pq.tolist()} below the x axis", case)
        info["prior_outside"] = info.get("prior_outside", 0) + phi.size


# ------------------------------------------------------------ bookkeeping
def near_bound_fraction(case):
    """Smallest relative distance of any point to a bound (0 = on it)."""
    best = np.inf
    for p, (lo, hi) in case["bounds"].items():
        if p not in case["x"]:
            continue
        x = np.asarray(case["x"][p], dtype=float)
        w = hi - lo
        best = min(best, float(np.min(np.minimum(x - lo, hi - x)) / w))
    return best


def option_key(case):
    kw = case.get("kwargs", {})
    opts = []
    for k in sorted(kw):
        v = kw[k]
        if isinstance(v, float):
            v = "float"
        elif isinstance(v, (list, dict)) and k in (
            "scale", "shift", "rescale_bounds"
        ):
            v = type(v).__name__
        opts.append((k, repr(v)))
    return [
        case["level"], str(case.get("name")), opts, repr(case.get("test")),
        bool(case.get("compute_radius")), bool(case.get("n_update")),
        len(case.get("parameters", [])), bool(case.get("as_str")),
        case.get("bounds_form", "dict"),
    ]


def classify_object(case, info):
    name = case["name"]
    cl = ["object", "name:" + str(name), "family:" + FAMILY[name]]
    if info.get("rejected"):
        cl.append("object-rejected")
        return cl, False
    nb = near_bound_fraction(case)
    if nb == 0:
        cl.append("at-bound")
    if nb <= 1e-6:
        cl.append("near-bound<=1e-6")
    if nb <= 1e-10:
        cl.append("near-bound<=1e-10")
    if info.get("states", 0) > 1:
        cl.append("post-update")
    if info.get("blocks", 1) > 1:
        cl.append("duplicated-output")
    kw = case.get("kwargs", {})
    t = case.get("test")
    if t in ("lower", "upper"):
        cl.append("edge:" + t)
    elif t is False:
        cl.append("edge:none")
    elif t is None:
        cl.append("edge:detected")
    if any(r == "radial" for r in case["roles"].values()):
        cl.append("with-radial")
    if info.get("prior_points"):
        cl.append("prime-prior")
    if info.get("prior_outside"):
        cl.append("prime-prior-outside")
    if info.get("fd_onesided"):
        cl.append("fd-onesided")
    if kw.get("pre_rescaling") or kw.get("prior") == "power-law":
        cl.append("pre-rescaling")
    if kw.get("post_rescaling"):
        cl.append("post-rescaling")
    if case.get("extras"):
        cl.append("extra-nonsampling-field")
    bmax = max(max(abs(b[0]), abs(b[1])) for b in case["bounds"].values())
    wmin = min(b[1] - b[0] for b in case["bounds"].values())
    if bmax >= 1e4:
        cl.append("|bound|>=1e4")
    if wmin <= 1e-2:
        cl.append("range<=1e-2")
    if bmax / wmin >= 1e4:
        cl.append("offset/range>=1e4")
    nontrivial = nb <= 1e-6 and info.get("states", 0) > 1
    return cl, nontrivial


def brief(case):
    d = {k: case.get(k) for k in ("level", "table", "name", "kwargs",
                                  "bounds", "test", "n_update", "seed")}
    if "x" in case:
        d["n_points"] = len(next(iter(case["x"].values())))
    return d


# ---------------------------------------------------------- proposal level
def make_model(case):
    from nessai.model import Model

    names = list(case["names"])
    bounds = {}
    for g in case["groups"]:
        for p in g["parameters"]:
            bounds[p] = [float(v) for v in g["bounds"][p]]
    priors = dict(case["priors"])

    class _M(Model):
        def __init__(self):
            self.names = names
            self.bounds = {p: bounds[p] for p in names}

        def log_prior(self, x):
            with np.errstate(all="ignore"):
                lp = np.log(self.in_bounds(x), dtype=float)
                for p, k in priors.items():
                    if k == "sine":
                        lp = lp + np.log(np.sin(x[p]))
                    elif k == "cosine":
                        lp = lp + np.log(np.cos(x[p]))
                    elif k.startswith("power:"):
                        lp = lp + float(k[6:]) * np.log(x[p])
            return lp

        def log_likelihood(self, x):
            return np.zeros(np.size(x))

    return _M()


def build_reparameterisations(case):
    if case["mode"] == "none":
        return None
    if case["mode"] == "str":
        return [g for g in case["groups"] if g["how"] == "str"][0]["name"]
    reps = {}
    for g in case["groups"]:
        kw = decode_kwargs(g["kwargs"])
        ps = list(g["parameters"])
        if g["how"] == "A":
            reps[ps[0]] = g["name"]
        elif g["how"] == "B":
            cfg = {"reparameterisation": g["name"]}
            cfg.update(kw)
            if len(ps) > 1:
                # FlowProposal appends the key: keeps the documented order
                cfg["parameters"] = ps[:-1]
            reps[ps[-1]] = cfg
        elif g["how"] == "C":
            cfg = {"parameters": ps}
            cfg.update(kw)
            reps[g["name"]] = cfg
    return reps


_OUTDIR = {}


def _outdir():
    if "d" not in _OUTDIR:
        _OUTDIR["d"] = tempfile.mkdtemp(prefix="vf-c07-")
    return _OUTDIR["d"]


def cleanup():
    d = _OUTDIR.pop("d", None)
    if d:
        shutil.rmtree(d, ignore_errors=True)


def check_proposal(case):
    check_tables()
    reset_state(case["seed"], extras=case.get("extras", False))
    run = Runner(case)
    info = {"rejected": None, "states": 0}
    model = make_model(case)
    if case["gw"]:
        from nessai.gw.proposal import GWFlowProposal as Cls
    else:
        from nessai.proposal import FlowProposal as Cls
    try:
        with np.errstate(all="ignore"):
            prop = Cls(
                model, reparameterisations=build_reparameterisations(case),
                fallback_reparameterisation=case["fallback"],
                reverse_reparameterisations=case["reverse"],
                output=_outdir(), plot=False, poolsize=100,
            )
            prop.initialise()
    except Exception as e:  # noqa: BLE001 - rejected up front
        info["rejected"] = f"{type(e).__name__}: {e}"[:200]
        return info
    table = "gw" if case["gw"] else "general"
    gmodels = []
    for g in case["groups"]:
        _, kw = lookup(table, g["name"])
        ekw = dict(kw)
        ekw.update(decode_kwargs(g["kwargs"]))
        gmodels.append(
            ObjModel(g["name"], g["parameters"], g["bounds"], g["roles"], ekw)
        )
    X = {f: np.array(case["x"][f], dtype=float) for f in case["names"]}
    n = len(next(iter(X.values())))
    n_update = int(case.get("n_update", 0))
    upd = None
    info["use_prime_prior"] = bool(prop.use_x_prime_prior)
    info["n_reparams"] = len(prop._reparameterisation)
    for state in ["pre"] + (["post"] if n_update else []):
        if state == "post":
            xs = make_array(case["names"], X, n, 7.0)[:n_update]
            run("FlowProposal.check_state", prop.check_state, xs)
            upd = {p: (float(np.min(X[p][:n_update])),
                       float(np.max(X[p][:n_update]))) for p in X}
        _check_proposal_state(case, prop, gmodels, X, n, state, upd, run, info)
        info["states"] += 1
    return info


def _check_proposal_state(case, prop, gmodels, X, n, state, upd, run, info):
    seed = int(case["seed"])
    test = case.get("test", "omit")
    fkw = {}
    if test != "omit":
        fkw["test"] = test
    if case.get("compute_radius"):
        fkw["compute_radius"] = True
    fold_test = None if test == "omit" else test
    names = list(case["names"])
    x = make_array(names, X, n, 0.0)
    ns = nonsampling_names()
    np.random.seed(seed % (2 ** 32))
    xp, lj = run("FlowProposal.rescale", prop.rescale, x.copy(), **fkw)
    m = xp.size
    if m % n or np.shape(lj) != (m,):
        raise Violation("shape:FlowProposal.rescale",
                        f"x' size {m}, log_J {np.shape(lj)}, n={n}", case)
    B = m // n
    xo, lji = run("FlowProposal.inverse_rescale", prop.inverse_rescale,
                  xp.copy())
    if xo.size != m or np.shape(lji) != (m,):
        raise Violation("shape:FlowProposal.inverse_rescale",
                        f"x size {xo.size}, log_J {np.shape(lji)}", case)
    info["blocks"] = max(info.get("blocks", 1), B)
    regular = np.ones(n, dtype=bool)
    kap = np.ones(n)
    for gm in gmodels:
        Xg = {p: X[p] for p in gm.params}
        ug = None if upd is None else {p: upd[p] for p in gm.params}
        regular &= ~gm.excluded(Xg) & ~gm.fold(Xg, ug, fold_test)
        kap = np.maximum(kap, gm.kappa(Xg))
    if any(gm.fam == "dphase" for gm in gmodels) and "theta_jn" in X:
        # sign(cos(theta_jn)) is discontinuous at pi/2: singular set of the
        # delta-phase map (theta_jn itself only round-trips to tolerance)
        tj = [gm for gm in gmodels if "theta_jn" in gm.params][0]
        regular &= np.abs(X["theta_jn"] - 0.5 * math.pi) > 2.0 * tj.rt_tol(
            "theta_jn")
        # psi at its identified end point comes back as the other end, which
        # shifts the recovered phase: the excluded end point propagates
        for gm in gmodels:
            if "psi" in gm.params and gm.period("psi") is not None:
                lo, hi = gm.bounds["psi"]
                regular &= (X["psi"] != lo) & (X["psi"] != hi)
    reg_t = np.tile(regular, B)
    info["regular"] = info.get("regular", 0) + int(regular.sum())
    for nm, arr in [(pp, xp[pp]) for pp in prop.prime_parameters] + [
            ("log_J", lj), ("log_J_inv", lji)]:
        bad = reg_t & ~np.isfinite(arr)
        if bad.any():
            i = int(np.argmax(bad))
            raise Violation(
                f"nonfinite:FlowProposal:{state}",
                f"{nm}={arr[i]!r} at regular point #{i % n}", case)
    # (a) round trip
    for gm in gmodels:
        for p in gm.params:
            tol = gm.rt_tol(p)
            xin = np.tile(X[p], B)
            err = roundtrip_errors(gm, p, xin, xo[p])
            bad = reg_t & ~(err <= tol)
            if bad.any():
                i = int(np.argmax(np.where(
                    bad, np.nan_to_num(err, nan=np.inf), -1.0)))
                raise Violation(
                    f"roundtrip:FlowProposal:{gm.name}:{state}",
                    f"{p}: {xin[i]!r} -> {xo[p][i]!r} (|err| {err[i]:.3g} > "
                    f"tol {tol:.3g}) block {i // n} bounds {gm.bounds[p]}",
                    case)
    # (b) non-sampling fields
    for f in ns:
        for b in range(B):
            sl = slice(b * n, (b + 1) * n)
            for what, got in (("x_prime", xp[f][sl]), ("x", xo[f][sl])):
                if not same_bytes(got, x[f]):
                    raise Violation(
                        f"nonsampling:FlowProposal:{what}",
                        f"field {f} of {what} differs from the input in "
                        f"block {b}: {got.tolist()} vs {x[f].tolist()}", case)
    # (c) log-Jacobians
    kap_t = np.tile(kap, B)
    with np.errstate(all="ignore"):
        s = np.abs(lj + lji)
        tol = 1e-9 * (1.0 + np.abs(lj)) + 8.0 * EPS * kap_t * len(gmodels)
    bad = reg_t & ~(s <= tol)
    if bad.any():
        i = int(np.argmax(bad))
        raise Violation(
            f"logJ-sum:FlowProposal:{state}",
            f"log_J={lj[i]!r} log_J_inv={lji[i]!r} tol={tol[i]:.3g} at "
            f"point #{i % n} block {i // n}", case)
    # (d) accumulated log-Jacobian == sum of each reparameterisation alone
    total = np.zeros(m)
    comb = prop._reparameterisation
    for key in comb:
        r = comb[key]
        xi = xo.copy()
        _, _, l1 = run(f"{type(r).__name__}.inverse_reparameterise",
                       r.inverse_reparameterise, xi, xp.copy(), np.zeros(m))
        total = total + l1
    with np.errstate(all="ignore"):
        dd = np.abs(total - lji)
        tol = 1e-12 * (1.0 + np.abs(lji)) * max(1, len(comb))
    bad = reg_t & ~(dd <= tol)
    if bad.any():
        i = int(np.argmax(bad))
        raise Violation(
            f"combined-logJ!=sum:{state}",
            f"inverse_rescale log_J {lji[i]!r} vs sum over the "
            f"reparameterisations {total[i]!r}", case)
    # (e) prime prior
    if prop.use_x_prime_prior:
        P = np.asarray(run("FlowProposal.x_prime_log_prior",
                           prop.x_prime_log_prior, xp.copy()), dtype=float)
        P = np.broadcast_to(P, (m,))
        orig = np.zeros(m)
        inside = reg_t.copy()
        usable = True
        for gm in gmodels:
            Xt = {p: np.tile(X[p], B) for p in gm.params}
            aux = None
            if gm.fam in ("angle", "tocart"):
                aux = gm.angle + "_radial"
            elif gm.fam == "pair":
                aux = f"{gm.az}_{gm.pol}_radial"
            if aux is not None and (gm.radial is not None
                                    or aux not in xo.dtype.names):
                usable = False
                break
            if gm.fam == "rtb" and gm.pre is not None:
                usable = False
                break
            orig = orig + gm.orig_log_prior(Xt, xo, aux)
            inside &= np.tile(gm.inside_margin({p: X[p] for p in gm.params}),
                              B)
        if usable:
            inside &= np.isfinite(orig)
            info["prior_points"] = info.get("prior_points", 0) + int(
                inside.sum())
            bad = inside & ~np.isfinite(P)
            if bad.any():
                i = int(np.argmax(bad))
                raise Violation(
                    f"prime-prior:support:FlowProposal:{state}",
                    f"x_prime_log_prior={P[i]!r} at point #{i % n} inside "
                    "the prior box", case)
            if inside.sum() >= 2:
                with np.errstate(all="ignore"):
                    D = P - (orig - lj)
                    tol = 1e-9 * (1 + np.abs(P) + np.abs(orig) + np.abs(lj))
                d = D[inside]
                if not float(d.max() - d.min()) <= 2 * float(
                        tol[inside].max()):
                    raise Violation(
                        f"prime-prior:constant:FlowProposal:{state}",
                        "x_prime_log_prior - (log_prior - log_J) varies by "
                        f"{float(d.max() - d.min()):.3g}", case)


def classify_proposal(case, info):
    cl = ["proposal", "proposal:gw" if case["gw"] else "proposal:plain",
          "mode:" + case["mode"]]
    for g in case["groups"]:
        cl.append("pname:" + str(g["name"]))
        cl.append("form:" + g["how"])
    if info.get("rejected"):
        cl.append("rejected-up-front")
        cl.append("rejected:" + info["rejected"].split(":")[0])
        return cl, False
    cl.append("accepted")
    if case["reverse"]:
        cl.append("reverse-order")
    if info.get("states", 0) > 1:
        cl.append("post-update")
    if info.get("blocks", 1) > 1:
        cl.append("duplicated-output")
    if info.get("prior_points"):
        cl.append("prime-prior")
    nb = np.inf
    for g in case["groups"]:
        nb = min(nb, near_bound_fraction(
            {"bounds": g["bounds"], "x": case["x"]}))
    if nb <= 1e-6:
        cl.append("near-bound<=1e-6")
    return cl, bool(nb <= 1e-6 and info.get("states", 0) > 1)


def option_key_proposal(case):
    return ["proposal", case["gw"], case["mode"], case["reverse"],
            case["fallback"], repr(case["test"]),
            [option_key(dict(g, level="g")) + [g["how"]]
             for g in case["groups"]]]


def brief_proposal(case):
    return {
        "level": "proposal", "gw": case["gw"], "mode": case["mode"],
        "reparameterisations": repr(build_reparameterisations(case))[:400],
        "fallback": case["fallback"], "reverse": case["reverse"],
        "names": case["names"], "test": case["test"],
        "n_update": case["n_update"], "seed": case["seed"],
    }


# ------------------------------------------------------------- run / shard
def check_case(case):
    if case["level"] == "object":
        return check_object(case)
    return check_proposal(case)


def _quiet():
    import warnings

    logging.getLogger("nessai").setLevel(logging.CRITICAL)
    warnings.filterwarnings("ignore")


def shard(seed, n_per_name, n_prop, max_keys=4):
    from ..c07_gen import object_cases, proposal_cases
    from ..core import Ctx, jhash
    from ..hyp import run_given

    _quiet()
    ctx = Ctx("C07", "quick", seed)
    out = Outcome()
    stats = out.stats
    agg = {"fd_points": 0, "fd_unresolved": 0, "prior_points": 0,
           "prior_outside": 0, "regular_points": 0, "rejected_up_front": 0,
           "object_rejected": 0}
    spread = [0.0]
    suppressed = set()

    def make_body(count):
        def body(case):
            try:
                info = check_case(case)
            except Violation as v:
                if ctx.known(v.key):
                    if count:
                        stats.excluded_known[v.key] += 1
                        stats.case(None, classes=["known-finding-case"])
                    return
                if v.key in suppressed:
                    return
                raise
            if not count:
                return
            if case["level"] == "object":
                cl, nt = classify_object(case, info)
                key = jhash(option_key(case))
                desc = brief(case)
                if info.get("rejected"):
                    agg["object_rejected"] += 1
            else:
                cl, nt = classify_proposal(case, info)
                key = jhash(option_key_proposal(case))
                desc = brief_proposal(case)
                if info.get("rejected"):
                    agg["rejected_up_front"] += 1
            stats.case(desc, nontrivial=nt, classes=set(cl), key=key)
            for k in ("fd_points", "fd_unresolved", "prior_points",
                      "prior_outside"):
                agg[k] += info.get(k, 0)
            agg["regular_points"] += info.get("regular", 0)
            spread[0] = max(spread[0], info.get("fd_max_spread", 0.0))

        return body

    def search(strategy, sd, n):
        for rnd in range(max_keys):
            vs = run_given(make_body(rnd == 0), strategy, sd, n)
            if not vs:
                return
            for v in vs:
                out.add(v)
                suppressed.add(v.key)

    try:
        for i, name in enumerate(ALL_NAMES):
            if n_per_name:
                search(object_cases(name), seed * 100 + i, n_per_name)
        if n_prop:
            search(proposal_cases(), seed * 100 + 99, n_prop)
    finally:
        cleanup()
    stats.extra.update(agg)
    stats.extra["fd_max_spread_per_shard"] = [spread[0]]
    return out


def run(ctx):
    import glob
    import json

    from ..core import ROOT
    from ..par import run_shards

    n_sh = 16
    n_per_name, n_prop = (3, 54) if ctx.quick else (60, 1080)
    kws = [dict(seed=ctx.seed * 1000 + i, n_per_name=n_per_name,
                n_prop=n_prop) for i in range(n_sh)]
    out = run_shards("vf.checks.c07", "shard", kws)
    sp = out.stats.extra.pop("fd_max_spread_per_shard", [0.0])
    out.stats.extra["fd_max_spread"] = max(sp) if sp else 0.0
    out.stats.extra["fd_spread_threshold"] = FD_SPREAD
    # recorded findings are re-executed on every run
    for path in sorted(glob.glob(os.path.join(ROOT, "replays", "known",
                                              "C07-*.json"))):
        rec = json.load(open(path))
        for v in replay(ctx, rec["case"]):
            out.add(v)
    return out


def health(ctx, stats):
    c = stats.classes
    lo = 20 if ctx.quick else 200
    problems = []
    for name in ALL_NAMES:
        if c.get("name:" + str(name), 0) < lo:
            problems.append(
                f"registered name {name!r} has only "
                f"{c.get('name:' + str(name), 0)} object-level cases")
    need = ["post-update", "near-bound<=1e-6", "near-bound<=1e-10",
            "at-bound", "duplicated-output", "edge:lower", "edge:upper",
            "edge:none", "edge:detected", "with-radial", "prime-prior",
            "prime-prior-outside", "fd-onesided", "pre-rescaling",
            "post-rescaling", "extra-nonsampling-field", "|bound|>=1e4",
            "range<=1e-2", "offset/range>=1e4", "accepted",
            "rejected-up-front", "proposal:gw", "proposal:plain",
            "reverse-order", "mode:prime", "mode:str", "mode:none"]
    for k in need:
        if c.get(k, 0) < lo:
            problems.append(f"class {k} has only {c.get(k, 0)} cases")
    if stats.extra.get("fd_points", 0) < 50 * lo:
        problems.append("too few finite-difference points")
    fdp = stats.extra.get("fd_points", 0)
    if stats.extra.get("fd_unresolved", 0) > 0.2 * max(1, fdp):
        problems.append("more than 20% of the finite-difference points were "
                        "unresolved")
    return problems


def replay(ctx, case):
    _quiet()
    try:
        check_case(case)
    except Violation as v:
        return [v]
    finally:
        cleanup()
    return []
