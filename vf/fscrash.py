"""Crash-point injection for checkpoint writes (C11).

The file-system operations of `nessai.utils.io.safe_file_dump` (exists / move
to .old / open temp / write... / close / rename) and of
`nessai.flowmodel.base.FlowModel.save_weights` (exists / move / torch.save)
are observed by substituting the names `os`, `shutil`, `open` and `torch` *in
the namespaces of those two modules only* with forwarding proxies.  The code
under test is unmodified.

fault = {"scope": "checkpoint" | "weights",
         "at": n,            # n-th call of safe_file_dump / save_weights
         "op": k | None,     # crash (os._exit(17)) before the k-th operation
         "prefix": b | None} # or after b bytes of the serialised stream
With op = prefix = None the operations are only listed (probe):
report data["fs_ops"] = [names...], data["fs_bytes"] = stream length.
"""
import builtins
import io
import os as _os
import shutil as _shutil


class _Proxy:
    def __init__(self, target, overrides):
        object.__setattr__(self, "_t", target)
        object.__setattr__(self, "_o", overrides)

    def __getattr__(self, name):
        o = object.__getattribute__(self, "_o")
        if name in o:
            return o[name]
        return getattr(object.__getattribute__(self, "_t"), name)


def install(mon, fault):
    scope = fault["scope"]
    at = int(fault.get("at", 1))
    op_k = fault.get("op")
    prefix = fault.get("prefix")
    st = {"calls": 0, "armed": False, "ops": [], "bytes": 0, "done": False}
    mon.data["fs_ops"] = st["ops"]

    def crash(why):
        mon.data["fs_crash_at"] = why
        mon.flags["crashed_by_harness"] = True
        mon.flush()
        _os._exit(17)

    def op(name):
        """Called just before an operation executes."""
        if not st["armed"]:
            return
        idx = len(st["ops"])
        if op_k is not None and idx == op_k:
            crash(f"before op {idx} ({name})")
        st["ops"].append(name)

    def exists(p):
        op("exists")
        return _os.path.exists(p)

    def move(a, b):
        op("move:" + ("to-old" if str(b).endswith(".old") else "rename"))
        return _shutil.move(a, b)

    path_proxy = _Proxy(_os.path, {"exists": exists})
    os_proxy = _Proxy(_os, {"path": path_proxy})
    shutil_proxy = _Proxy(_shutil, {"move": move})

    class File:
        """Buffered binary file: the tail of what was written (less than one
        buffer, 4 KiB here) may sit in the writer's user-space buffer until
        flush() / close() - which bytes a real BufferedWriter holds back
        depends on the sizes of the chunks, so the adversarial choice within
        its capacity is made.  A process that dies loses that tail."""

        HOLD = 4096

        def __init__(self, f):
            self._f = f
            self._pending = b""

        def _drain(self):
            if self._pending:
                self._f.write(self._pending)
                self._pending = b""

        def write(self, data):
            if st["armed"]:
                op("write")
                n = len(data)
                if prefix is not None and st["bytes"] + n > prefix:
                    keep = max(0, prefix - st["bytes"])
                    self._drain()
                    self._f.write(bytes(data)[:keep])
                    self._f.flush()
                    crash(f"after {prefix} bytes of the stream")
                st["bytes"] += n
                data = bytes(data)
                self._drain()
                k = min(len(data), self.HOLD)
                self._f.write(data[:len(data) - k])
                self._pending = data[len(data) - k:]
                return n
            self._drain()
            return self._f.write(data)

        def flush(self):
            self._drain()
            return self._f.flush()

        def close(self):
            if st["armed"] and not self._f.closed:
                op("close")
            if not self._f.closed:
                self._drain()
            return self._f.close()

        def __enter__(self):
            return self

        def __exit__(self, *a):
            self.close()
            return False

        def __getattr__(self, name):
            return getattr(self._f, name)

    def open_(file, mode="r", *a, **k):
        if st["armed"] and "w" in mode:
            op("open")
            return File(builtins.open(file, mode, *a, **k))
        return builtins.open(file, mode, *a, **k)

    def finish():
        st["armed"] = False
        st["done"] = True
        mon.data["fs_bytes"] = st["bytes"]
        if prefix is not None and prefix >= st["bytes"]:
            # asked for a prefix at/after the end: equivalent to "completed"
            mon.data["fs_prefix_beyond_end"] = True
        if op_k is not None and op_k == len(st["ops"]):
            crash(f"after the last op ({len(st['ops'])} ops)")

    if scope == "checkpoint":
        import nessai.utils.io as nio
        import nessai.samplers.base as base

        nio.os = os_proxy
        nio.shutil = shutil_proxy
        nio.open = open_
        prev = base.safe_file_dump

        def dump(obj, filename, *a, **k):
            is_sampler = isinstance(obj, base.BaseNestedSampler)
            if is_sampler and not st["done"]:
                st["calls"] += 1
                if st["calls"] == at:
                    st["armed"] = True
                    mon.data["fs_target_iteration"] = int(obj.iteration)
                    try:
                        return prev(obj, filename, *a, **k)
                    finally:
                        finish()
            return prev(obj, filename, *a, **k)

        base.safe_file_dump = dump
    elif scope == "weights":
        import torch as _torch
        import nessai.flowmodel.base as fmb
        from nessai.flowmodel.base import FlowModel

        def tsave(obj, f, *a, **k):
            if not st["armed"]:
                return _torch.save(obj, f, *a, **k)
            buf = io.BytesIO()
            _torch.save(obj, buf, *a, **k)
            data = buf.getvalue()
            op("open")
            fh = builtins.open(f, "wb")
            op("write")
            if prefix is not None and prefix < len(data):
                fh.write(data[:prefix])
                fh.flush()
                fh.close()
                crash(f"after {prefix} of {len(data)} bytes of the weights")
            fh.write(data)
            st["bytes"] = len(data)
            op("close")
            fh.close()

        fmb.os = os_proxy
        fmb.shutil = shutil_proxy
        fmb.torch = _Proxy(_torch, {"save": tsave})
        orig = FlowModel.save_weights

        def save_weights(self, weights_file):
            if not st["done"]:
                st["calls"] += 1
                if st["calls"] == at:
                    st["armed"] = True
                    try:
                        return orig(self, weights_file)
                    finally:
                        finish()
            return orig(self, weights_file)

        FlowModel.save_weights = save_weights
    else:
        raise ValueError(scope)
