"""Process-level parallelism: shards of an in-process check, each a fresh
interpreter (spawn) so that no state leaks from the parent."""
import importlib
import multiprocessing as mp
import os
import traceback

from .core import Outcome, HarnessError

NPROC = int(os.environ.get("VERIF_NPROC", "16"))


def _call(args):
    modname, funcname, kwargs = args
    if os.environ.get("VERIF_DUMP_AFTER"):
        # debugging aid: dump the Python stack of a shard that runs longer
        # than the given number of seconds (does not stop it)
        import faulthandler
        import sys

        faulthandler.dump_traceback_later(
            int(os.environ["VERIF_DUMP_AFTER"]), repeat=False,
            file=sys.stderr)
    try:
        mod = importlib.import_module(modname)
        out = getattr(mod, funcname)(**kwargs)
        return ("ok", out.to_json())
    except BaseException:  # harness error inside a shard
        return ("err", traceback.format_exc())


def run_shards(modname, funcname, kwargs_list, nproc=None):
    """Run `modname.funcname(**kw)` for each kw in fresh worker processes.

    Each call must return an Outcome.  Raises HarnessError if a shard died.
    """
    nproc = min(nproc or NPROC, max(1, len(kwargs_list)))
    ctx = mp.get_context("spawn")
    total = Outcome()
    jobs = [(modname, funcname, kw) for kw in kwargs_list]
    if nproc == 1:
        results = [_call(j) for j in jobs]
    else:
        with ctx.Pool(nproc, maxtasksperchild=None) as pool:
            results = pool.map(_call, jobs, chunksize=1)
    for status, payload in results:
        if status != "ok":
            raise HarnessError("shard failed:\n" + payload)
        total.merge(Outcome.from_json(payload))
    return total
