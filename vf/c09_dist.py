"""C09 part B - proposal pools are distributed as the prior restricted to the
latent contour (distributional part; called from vf/checks/c09.py).

Cell      : one generated proposal configuration (FlowProposal /
            AugmentedFlowProposal with a latent prior, radius options, weight
            accumulation, log-q truncation, reparameterisation, pool / draw
            sizes, trained or fresh flow, uniform or non-uniform prior;
            RejectionProposal / AnalyticProposal), driven directly.
Pool      : populate() is called until N_POINTS pool points are collected
            (populations pooled, the last one cut in draw order).
Reference : brute-force rejection from the prior (exact sampler written
            here) restricted to the contour the proposal used: latent radius
            of the proposal's forward pass <= r * fuzz (radially truncated
            latent priors) and, with truncate_log_q, the density the
            rejection step compared above the threshold it used; one
            reference point per pool point, population by population.
Decision  : two-sample chi-square on a 2-D grid + per-dimension two-sample
            Kolmogorov-Smirnov (uninformed proposals: one-sample versions
            against the analytic prior); violation iff p * TEST_BUDGET <
            P_THRESHOLD.
"""
import logging
import math
import shutil
import tempfile

import numpy as np
from hypothesis import strategies as st

from .core import Ctx, HarnessError, Outcome, Violation, jhash
from .par import run_shards

N_POINTS = 12000  # pool points and reference points per cell, both tiers
P_THRESHOLD = 1e-9  # family-wise false-alarm rate of a whole run
TEST_BUDGET = 512  # Bonferroni divisor: upper bound on the tests of one run
GRID_K = 12  # chi-square grid: GRID_K x GRID_K cells of pooled quantiles
MIN_BIN = 40  # cells with fewer pooled points are merged
K_BATCH = 50  # bucket of the per-batch-maximum finding (accepted per batch)
MAX_LATENT_DRAWS = 12_000_000  # per cell, harness guard (inconclusive)
MAX_REF_DRAWS = 40_000_000  # per cell, harness guard (inconclusive)
MAX_POPULATIONS = 4000

KEY_F13 = f"populate:per-batch-max:accepted-per-batch<{K_BATCH}"

RULE_B = (
    "(B) distribution cells: Hypothesis-generated proposal configurations "
    "(FlowProposal / AugmentedFlowProposal: latent prior truncated_gaussian "
    "/ gaussian / uniform_nsphere / uniform_nball / flow, constant volume "
    "mode + volume fraction or radius from a worst point / fixed radius "
    "with fuzz or expansion fraction, accumulate_weights, truncate_log_q, "
    "reparameterisation zscore / rescaletobounds / logit / mixed, poolsize, "
    "drawsize, flow trained 5-20 epochs on a Gaussian blob or on prior "
    "samples or fresh, uniform (gauss_uniform) and truncated-normal "
    "(gauss_gauss) prior; RejectionProposal / AnalyticProposal), all seeds "
    f"drawn by Hypothesis; each cell: {N_POINTS} pool points vs {N_POINTS} "
    "brute-force prior-in-contour points. Non-trivial cell: trained flow "
    "and population acceptance < 1."
)
ASSUMPTIONS_B = [
    f"resolution of the statistical decision: {N_POINTS} pool points "
    f"against {N_POINTS} reference points in both tiers, violation iff "
    f"p < {P_THRESHOLD:g}/{TEST_BUDGET} (Bonferroni over at most "
    f"{TEST_BUDGET} tests per run, asserted); a Kolmogorov distance below "
    "about 0.049 or a chi-square non-centrality below about 150 passes",
    f"chi-square binning rule: {GRID_K} x {GRID_K} grid whose edges are the "
    "pooled (pool + reference) marginal quantiles of each dimension, cells "
    f"with fewer than {MIN_BIN} pooled points merged into one rest bin (the "
    "rest bin joins the smallest other bin if it is itself that sparse); "
    "the bins depend on the two samples only through their union, so the "
    "test is exact under exchangeability; uninformed proposals: 10 x 10 "
    "grid of analytic prior deciles (expected count 120)",
    "contour membership of a reference point is decided with the proposal's "
    "own forward pass (its consistency with the backward pass is C08); the "
    "float32 round-trip error (1e-6) moves a fraction of about 1e-6 of the "
    "points across the contour edge, far below the resolution",
    "AugmentedFlowProposal: the reference draws the augment parameters from "
    "their N(0,1) prior with the harness generator and only the model "
    "parameters are compared (marginal over the augment dimensions); "
    "marginalise_augment=True is not generated (Monte-Carlo weights, the "
    "target marginal is not the prior-in-contour marginal by construction)",
    "latent priors 'gaussian' and 'flow' have no contour: the reference is "
    "the prior on the model bounds; their cells train on prior samples or "
    "on a wide blob (what the first trainings of a run see) as well as on "
    "narrow blobs",
    f"a cell that would need more than {MAX_LATENT_DRAWS} latent draws or "
    f"{MAX_REF_DRAWS} reference candidates is abandoned and counted "
    "inconclusive (bounded by health)",
]


# ------------------------------------------------------------------ helpers
class _Inconclusive(Exception):
    pass


def _quiet():
    import warnings

    logging.getLogger("nessai").setLevel(logging.CRITICAL)
    logging.getLogger("glasflow").setLevel(logging.CRITICAL)
    warnings.filterwarnings("ignore")


def _reset_globals(seed):
    import torch
    from nessai import config
    from nessai.livepoint import reset_extra_live_points_parameters

    reset_extra_live_points_parameters()
    config.general.eps = 1e-8
    torch.set_default_dtype(torch.float32)
    torch.set_num_threads(1)
    torch.manual_seed(int(seed))
    np.random.seed(int(seed) % (2**32))


def _nessai(name, case, fn, *a, **kw):
    try:
        return fn(*a, **kw)
    except (Violation, _Inconclusive, HarnessError):
        raise
    except Exception as e:  # noqa: BLE001 - conversion is the point
        raise Violation(
            f"exception:{type(e).__name__}@{name}",
            f"{name} raised {type(e).__name__}: {str(e)[:300]}",
            case,
        )


# ------------------------------------------------ priors: exact references
class _Prior:
    """Exact sampler and per-dimension CDF of the model's prior, written
    independently of the model class."""

    def __init__(self, spec):
        from scipy.special import ndtr

        self.spec = dict(spec)
        d = int(spec.get("dims", 2))
        self.d = d
        if spec["name"] == "gauss_uniform":
            self.lo = np.broadcast_to(
                np.asarray(spec.get("lo", -5.0), float), (d,)).copy()
            self.hi = np.broadcast_to(
                np.asarray(spec.get("hi", 5.0), float), (d,)).copy()
            self.kind = "uniform"
        elif spec["name"] == "gauss_gauss":
            b = float(spec.get("b", 6.0))
            self.s = float(spec.get("s_p", 2.0))
            self.lo = np.full(d, -b)
            self.hi = np.full(d, b)
            self.pa = float(ndtr(-b / self.s))
            self.pb = float(ndtr(b / self.s))
            self.kind = "truncnorm"
        else:  # pragma: no cover
            raise ValueError(spec["name"])

    def sample(self, n, rs):
        from scipy.special import ndtri

        u = rs.random_sample((n, self.d))
        if self.kind == "uniform":
            return self.lo + (self.hi - self.lo) * u
        x = self.s * ndtri(self.pa + u * (self.pb - self.pa))
        return np.clip(x, self.lo, self.hi)

    def cdf(self, x, i):
        from scipy.special import ndtr

        if self.kind == "uniform":
            return np.clip((x - self.lo[i]) / (self.hi[i] - self.lo[i]), 0, 1)
        return np.clip(
            (ndtr(x / self.s) - self.pa) / (self.pb - self.pa), 0, 1)

    def ppf(self, q, i):
        from scipy.special import ndtri

        q = np.asarray(q, float)
        if self.kind == "uniform":
            return self.lo[i] + (self.hi[i] - self.lo[i]) * q
        return self.s * ndtri(self.pa + q * (self.pb - self.pa))


# --------------------------------------------------------------- statistics
def chi2_two_sample(a, b, k=GRID_K, min_count=MIN_BIN):
    """Binned two-sample chi-square (homogeneity) test in two dimensions.
    Returns (statistic, dof, p, n_bins)."""
    from scipy.stats import chi2

    a = np.asarray(a, float)
    b = np.asarray(b, float)
    both = np.concatenate([a, b])
    qs = np.linspace(0, 1, k + 1)[1:-1]
    e0 = np.unique(np.quantile(both[:, 0], qs))
    e1 = np.unique(np.quantile(both[:, 1], qs))
    n1 = len(e1) + 1

    def cells(x):
        i = np.searchsorted(e0, x[:, 0], side="right")
        j = np.searchsorted(e1, x[:, 1], side="right")
        return i * n1 + j

    ncell = (len(e0) + 1) * n1
    ca = np.bincount(cells(a), minlength=ncell).astype(float)
    cb = np.bincount(cells(b), minlength=ncell).astype(float)
    tot = ca + cb
    sparse = tot < min_count
    ka, kb = list(ca[~sparse]), list(cb[~sparse])
    ra, rb = ca[sparse].sum(), cb[sparse].sum()
    if ra + rb > 0:
        if ra + rb < min_count and ka:
            m = int(np.argmin(np.asarray(ka) + np.asarray(kb)))
            ka[m] += ra
            kb[m] += rb
        else:
            ka.append(ra)
            kb.append(rb)
    ka, kb = np.asarray(ka), np.asarray(kb)
    na, nb = ka.sum(), kb.sum()
    if len(ka) < 2:
        return 0.0, 0, 1.0, len(ka)
    stat = float(np.sum(
        (math.sqrt(nb / na) * ka - math.sqrt(na / nb) * kb) ** 2 / (ka + kb)
    ))
    dof = len(ka) - 1
    return stat, dof, float(chi2.sf(stat, dof)), len(ka)


def ks_two_sample(a, b):
    from scipy.stats import ks_2samp

    r = ks_2samp(a, b, method="asymp")
    return float(r.statistic), float(r.pvalue)


def chi2_one_sample(x, prior, k=10):
    """Chi-square goodness of fit on the k x k grid of analytic prior
    quantiles (equal expected counts; the prior factorises)."""
    from scipy.stats import chi2

    qs = np.linspace(0, 1, k + 1)[1:-1]
    i = np.searchsorted(prior.ppf(qs, 0), x[:, 0], side="right")
    j = np.searchsorted(prior.ppf(qs, 1), x[:, 1], side="right")
    obs = np.bincount(i * k + j, minlength=k * k).astype(float)
    exp = len(x) / (k * k)
    stat = float(np.sum((obs - exp) ** 2 / exp))
    return stat, k * k - 1, float(chi2.sf(stat, k * k - 1)), k * k


def ks_one_sample(x, prior, i):
    from scipy.stats import kstest

    r = kstest(x, lambda v: prior.cdf(v, i), method="asymp")
    return float(r.statistic), float(r.pvalue)


# ------------------------------------------------------------ cell: set-up
def _training_points(case, prior, model):
    """Live points the flow is trained on / the reparameterisations are
    updated with: a Gaussian blob inside the prior box, or prior samples."""
    from nessai.livepoint import numpy_array_to_live_points

    rs = np.random.RandomState((case["seed"] + 1) % (2**32))
    n = int(case["n_train"])
    tr = case["train"]
    if tr["kind"] == "prior":
        x = prior.sample(n, rs)
    else:
        c = np.asarray(tr["centre"], float)
        s = np.asarray(tr["sd"], float)
        x = np.empty((0, prior.d))
        while len(x) < n:
            y = c + s * rs.standard_normal((2 * n, prior.d))
            ok = ((y > prior.lo) & (y < prior.hi)).all(axis=1)
            x = np.concatenate([x, y[ok]])
        x = x[:n]
    live = numpy_array_to_live_points(x, model.names)
    with model.quiet():
        live["logP"] = model.log_prior(live)
        live["logL"] = model._log_l(live)
    return live


def _reparams(case, names):
    r = case["reparam"]
    if r == "zscore":
        return None
    if r == "mixed":
        return {names[0]: "logit"}
    if r == "mixed-bounds":
        return {names[1]: "rescaletobounds"}
    return r  # "rescaletobounds" / "logit" applied to every parameter


def _flow_kwargs(case):
    f = case["flow"]
    cfg = {
        "ftype": f["ftype"],
        "n_blocks": int(f["n_blocks"]),
        "n_layers": int(f["n_layers"]),
        "n_neurons": int(f["n_neurons"]),
    }
    if f["ftype"] != "maf":
        if f.get("linear_transform", "default") != "default":
            cfg["linear_transform"] = f["linear_transform"]
    if "batch_norm_between_layers" in f:
        cfg["batch_norm_between_layers"] = bool(f["batch_norm_between_layers"])
    tc = {
        "max_epochs": int(f["epochs"]),
        "patience": 50,
        "batch_size": int(f.get("batch_size", 100)),
        "val_size": 0.1,
    }
    if "lr" in f:
        tc["lr"] = float(f["lr"])
    return cfg, tc


def _build_flow_proposal(case, model, out):
    from nessai.proposal import FlowProposal
    from nessai.proposal.augmented import AugmentedFlowProposal

    cfg, tc = _flow_kwargs(case)
    kw = dict(
        flow_config=cfg,
        training_config=tc,
        output=out,
        plot=False,
        poolsize=int(case["poolsize"]),
        drawsize=int(case["drawsize"]),
        latent_prior=case["latent_prior"],
        constant_volume_mode=bool(case["constant_volume_mode"]),
        volume_fraction=float(case.get("volume_fraction", 0.95)),
        fuzz=float(case.get("fuzz", 1.0)),
        expansion_fraction=case.get("expansion_fraction"),
        fixed_radius=case.get("fixed_radius") or False,
        accumulate_weights=bool(case["accumulate_weights"]),
        truncate_log_q=bool(case["truncate_log_q"]),
        reparameterisations=_reparams(case, model.names),
        fallback_reparameterisation="zscore",
    )
    for k in ("max_radius", "min_radius", "compute_radius_with_all"):
        if k in case:
            kw[k] = case[k]
    if case["proposal"] == "augmented":
        cls = AugmentedFlowProposal
        kw["augment_dims"] = int(case["augment_dims"])
        kw["generate_augment"] = case["generate_augment"]
    else:
        cls = FlowProposal
    fp = _nessai(cls.__name__ + ".__init__", case, cls, model, **kw)
    _nessai(cls.__name__ + ".initialise", case, fp.initialise)
    return fp


class _Recorder:
    """Passive wrappers around the proposal's latent draw and weight
    computation: number of batches, candidates per batch, spread of the
    per-batch maximum weight."""

    def __init__(self, fp):
        self.fp = fp
        self.draws = 0
        self.batches = 0
        self.cand = 0
        self.weighted_batches = 0
        self.log_max = []
        self.exp_acc = 0.0
        draw = fp.draw_latent_prior
        weights = fp.compute_weights

        def draw_latent_prior(n):
            z = draw(n)
            self.batches += 1
            self.draws += int(np.shape(z)[0])
            if self.draws > MAX_LATENT_DRAWS:
                raise _Inconclusive("latent-draw-budget")
            return z

        def compute_weights(x, log_q, *a, **kw):
            res = weights(x, log_q, *a, **kw)
            lw = np.asarray(res[0] if isinstance(res, tuple) else res, float)
            if lw.size:
                self.weighted_batches += 1
                self.cand += int(lw.size)
                with np.errstate(all="ignore"):
                    m = np.nanmax(lw)
                    self.log_max.append(float(m))
                    self.exp_acc += float(np.nansum(np.exp(lw - m)))
            return res

        fp.draw_latent_prior = draw_latent_prior
        fp.compute_weights = compute_weights


def _std_normal_logpdf(z):
    d = z.shape[1]
    return -0.5 * (z**2).sum(axis=1) - 0.5 * d * math.log(2 * math.pi)


class _Contour:
    """What one population used to restrict its draws (read back from the
    proposal after populate())."""

    def __init__(self, fp, case):
        self.radial = case["latent_prior"] in (
            "truncated_gaussian", "uniform_nsphere", "uniform_nball")
        self.r = float(fp.r)
        self.fuzz = float(fp.fuzz)
        self.alt = fp.alt_dist is not None
        self.min_log_q = None
        if case["truncate_log_q"]:
            # exactly the expression populate() evaluates (deterministic for
            # the reparameterisations generated; augmented: see _member)
            self.min_log_q = float(
                fp.forward_pass(fp.training_data)[1].min())

    def key(self):
        return (self.r, self.fuzz, self.min_log_q)


def _forward(fp, case, x, rs):
    """Latent image and forward log-density of physical points (array)."""
    from nessai.livepoint import (
        live_points_to_array, numpy_array_to_live_points)

    lp = numpy_array_to_live_points(x, fp.model.names)
    if case["proposal"] == "augmented":
        xp, log_j = fp.rescale(lp, generate_augment="zeros")
        for an in fp.augment_parameters:
            xp[an] = rs.standard_normal(xp.size)
        arr = live_points_to_array(xp, names=fp.prime_parameters, copy=True)
        z, lq = fp.flow.forward_and_log_prob(arr)
        return z, lq + log_j
    return fp.forward_pass(lp, rescale=True, compute_radius=False)


def _member(fp, case, contour, x, rs):
    z, log_q = _forward(fp, case, x, rs)
    z = np.asarray(z, float)
    keep = np.isfinite(z).all(axis=1)
    rad = np.sqrt((z**2).sum(axis=1))
    if contour.radial:
        keep &= rad <= contour.r * contour.fuzz
    if contour.min_log_q is not None:
        used = np.asarray(log_q, float)
        if contour.alt:
            # the rejection step compared the density under the uniform
            # alternative latent distribution (closed forms)
            d = z.shape[1]
            rr = contour.r * contour.fuzz
            alt = np.where((np.abs(z) <= rr).all(axis=1),
                           -d * math.log(2 * rr), -np.inf)
            used = used - _std_normal_logpdf(z) + alt
        keep &= used > contour.min_log_q
    return keep


def _reference(fp, case, prior, groups, rs):
    """One brute-force prior-in-contour point per pool point."""
    out = []
    tried = 0
    kept = 0
    batch = 50_000
    for contour, n in groups:
        have = 0
        while have < n:
            x = prior.sample(batch, rs)
            keep = _member(fp, case, contour, x, rs)
            tried += batch
            y = x[keep][: n - have]
            kept += int(keep.sum())
            have += len(y)
            out.append(y)
            if tried > MAX_REF_DRAWS and have < n:
                raise _Inconclusive("reference-budget")
    return np.concatenate(out), kept / max(tried, 1)


# ------------------------------------------------------------ cell: judge
def _judge(case, tests, meas):
    """tests: list of (name, statistic, p).  Raises Violation."""
    worst = min(tests, key=lambda t: t[2])
    meas["tests"] = len(tests)
    meas["min_p"] = worst[2]
    meas["p"] = {t[0]: t[2] for t in tests}
    meas["stat"] = {t[0]: t[1] for t in tests}
    thr = P_THRESHOLD / TEST_BUDGET
    if not worst[2] < thr:
        return
    detail = ", ".join(f"{n}: stat {s:.4g} p {p:.3g}" for n, s, p in tests)
    apb = meas.get("accepted_per_batch")
    per_batch = (
        case["proposal"] in ("flow", "augmented")
        and not case["accumulate_weights"]
    ) or case["proposal"] == "rejection"
    if per_batch and apb is not None and apb < K_BATCH:
        raise Violation(
            KEY_F13,
            f"pool of {N_POINTS} points differs from the prior restricted "
            f"to the contour ({detail}; threshold {thr:.3g}); weights are "
            "normalised by the maximum of each batch and only "
            f"{apb:.1f} draws per batch were accepted on average "
            f"({meas.get('candidates_per_batch', float('nan')):.0f} "
            "candidates per batch, spread of the per-batch log maximum "
            f"{meas.get('log_max_sd', float('nan')):.2f})",
            case,
        )
    raise Violation(
        "pool!=prior-in-contour:" + case["proposal"] + ":"
        + worst[0].split(":")[0],
        f"pool of {N_POINTS} points differs from the prior restricted to "
        f"the contour ({detail}; threshold {thr:.3g}; accepted per batch "
        f"{apb if apb is None else round(apb, 1)}, population acceptance "
        f"{meas.get('acceptance')})",
        case,
    )


def _run_flow_cell(case, out):
    from .models import make_model

    model = make_model(case["model"])
    prior = _Prior(case["model"])
    meas = {}
    fp = _build_flow_proposal(case, model, out)
    train = _training_points(case, prior, model)
    cname = type(fp).__name__
    if case["flow"]["state"] == "trained":
        _nessai(cname + ".train", case, fp.train, train, plot=False)
    else:
        # what train() does before it touches the flow
        fp.training_data = train.copy()
        _nessai(cname + ".check_state", case, fp.check_state,
                fp.training_data)
    order = np.argsort(train["logL"], kind="stable")
    worst = train[order[int(case["worst_rank"] * (len(order) - 1))]]
    rec = _Recorder(fp)
    parts, groups = [], []
    total = 0
    n_acc = 0.0
    npop = 0
    while total < N_POINTS:
        npop += 1
        if npop > MAX_POPULATIONS:
            raise _Inconclusive("population-budget")
        d0 = rec.draws
        _nessai(cname + ".populate", case, fp.populate, worst,
                N=fp.poolsize, plot=False)
        s = fp.samples
        if s is None or len(s) == 0:
            raise Violation(
                "populate:empty-pool",
                f"{cname}.populate returned an empty pool", case)
        n_acc += float(fp.population_acceptance) * (rec.draws - d0)
        x = np.stack([s[n] for n in model.names], -1).astype(float)
        x = x[: N_POINTS - total]
        c = _Contour(fp, case)
        if groups and groups[-1][0].key() == c.key():
            groups[-1][1] += len(x)
        else:
            groups.append([c, len(x)])
        parts.append(x)
        total += len(x)
    pool = np.concatenate(parts)
    meas.update(
        populations=npop,
        contours=len(groups),
        r=groups[0][0].r,
        fuzz=groups[0][0].fuzz,
        latent_draws=rec.draws,
        batches=rec.batches,
        acceptance=n_acc / max(rec.draws, 1),
        accepted_per_batch=n_acc / max(rec.batches, 1),
        candidates_per_batch=rec.cand / max(rec.weighted_batches, 1),
        log_max_sd=float(np.std(rec.log_max)) if rec.log_max else 0.0,
    )
    if case["accumulate_weights"]:
        meas["accepted_per_population"] = n_acc / npop
    if not np.isfinite(pool).all():
        raise Violation("pool:non-finite", "pool contains NaN/inf", case)
    rs = np.random.RandomState((case["seed"] + 2) % (2**32))
    ref, frac = _reference(fp, case, prior, groups, rs)
    meas["contour_prior_fraction"] = frac
    s, dof, p, nb = chi2_two_sample(pool, ref)
    tests = [("chi2-2d", s, p)]
    meas["chi2_bins"] = nb
    for i in range(pool.shape[1]):
        d, p = ks_two_sample(pool[:, i], ref[:, i])
        tests.append((f"ks:dim{i}", d, p))
    _judge(case, tests, meas)
    return meas


def _run_uninformed_cell(case):
    from nessai.proposal import AnalyticProposal, RejectionProposal
    from .models import make_model

    model = make_model(case["model"])
    prior = _Prior(case["model"])
    cls = RejectionProposal if case["proposal"] == "rejection" else (
        AnalyticProposal)
    prop = _nessai(cls.__name__ + ".__init__", case, cls, model,
                   poolsize=int(case["poolsize"]))
    _nessai(cls.__name__ + ".initialise", case, prop.initialise)
    parts, total, npop = [], 0, 0
    while total < N_POINTS:
        npop += 1
        if npop > 100 * MAX_POPULATIONS:
            raise _Inconclusive("population-budget")
        _nessai(cls.__name__ + ".populate", case, prop.populate)
        s = prop.samples
        x = np.stack([s[n] for n in model.names], -1).astype(float)
        x = x[: N_POINTS - total]
        parts.append(x)
        total += len(x)
    pool = np.concatenate(parts)
    meas = dict(populations=npop, batches=npop,
                accepted_per_batch=None, acceptance=1.0)
    if case["proposal"] == "rejection":
        # the last population may have been cut: count what it produced
        n_all = total - len(parts[-1]) + len(prop.samples)
        meas["accepted_per_batch"] = n_all / npop
        meas["acceptance"] = n_all / (npop * int(case["poolsize"]))
        meas["candidates_per_batch"] = float(case["poolsize"])
    s, dof, p, nb = chi2_one_sample(pool, prior)
    tests = [("chi2-2d", s, p)]
    meas["chi2_bins"] = nb
    for i in range(pool.shape[1]):
        d, p = ks_one_sample(pool[:, i], prior, i)
        tests.append((f"ks:dim{i}", d, p))
    _judge(case, tests, meas)
    return meas


def check_cell(case):
    """Plain predicate.  Returns measurements, raises Violation /
    _Inconclusive."""
    _quiet()
    _reset_globals(case["seed"])
    if case["proposal"] in ("rejection", "analytic"):
        return _run_uninformed_cell(case)
    out = tempfile.mkdtemp(prefix="vf-c09b-")
    try:
        return _run_flow_cell(case, out)
    finally:
        shutil.rmtree(out, ignore_errors=True)
