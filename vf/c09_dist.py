"""C09 part B - proposal pools are distributed as the prior restricted to the
latent contour (distributional part; called from vf/checks/c09.py).

Cell      : one generated proposal configuration (FlowProposal /
            AugmentedFlowProposal with a latent prior, radius options, weight
            accumulation, log-q truncation, reparameterisation, pool / draw
            sizes, trained or fresh flow, uniform or non-uniform prior;
            RejectionProposal / AnalyticProposal), driven directly.
Pool      : populate() is called until N_POINTS pool points are collected
            (populations pooled, the last one cut in draw order; the worst
            point cycles through a few training points, as it moves in a
            run).  Every pool point must lie inside the prior bounds and map
            back inside the contour its population used.
Reference : brute-force rejection from the prior (exact sampler written
            here) restricted to the contour the proposal used: latent radius
            of the proposal's forward pass <= r * fuzz (radially truncated
            latent priors) and, with truncate_log_q, the density the
            rejection step compared above the threshold it used; one
            reference point per pool point, contour by contour.
Decision  : two-sample chi-square on a 2-D grid + per-dimension two-sample
            Kolmogorov-Smirnov (uninformed proposals: one-sample versions
            against the analytic prior); violation iff p * TEST_BUDGET <
            P_THRESHOLD.
Finding   : weights are normalised by an empirical maximum (of the batch, or
            of the draws accumulated so far).  A failing cell is attributed
            to it from quantities recorded passively in that cell: mean
            number of accepted draws per batch < K_BATCH, or a spread of the
            per-batch (per-population) maximum log-weight > SPREAD among
            batches (populations) that share a contour.

Interface : run_cells(ctx) -> Outcome, replay_cell(ctx, case) -> violations,
            health_cells(ctx, stats) -> problems, RULE_B, ASSUMPTIONS_B.
"""
import logging
import math
import shutil
import tempfile

import numpy as np
from hypothesis import strategies as st

from .core import HarnessError, Outcome, Violation, jhash
from .par import run_shards

READY = True  # vf/checks/c09.py runs the cells only when this is set

N_POINTS = 12000  # pool points and reference points per cell, both tiers
P_THRESHOLD = 1e-9  # family-wise false-alarm rate of a whole run
TEST_BUDGET = 512  # Bonferroni divisor: upper bound on the tests of one run
GRID_K = 12  # chi-square grid: GRID_K x GRID_K cells of pooled quantiles
MIN_BIN = 40  # cells with fewer pooled points are merged
K_BATCH = 50  # bucket of the per-batch-maximum finding (accepted per batch)
MAX_LATENT_DRAWS = 20_000_000  # per cell, harness guard (inconclusive)
MAX_LATENT_DRAWS_ACC = 6_000_000  # same, accumulate_weights=True
MAX_REF_DRAWS = 40_000_000  # per cell, harness guard (inconclusive)
MAX_POPULATIONS = 4000

SLACK = 1e-3  # float32 allowance when pool points are mapped back
MAX_OUTSIDE = 1e-3  # tolerated fraction of pool points outside the contour
SPREAD = 0.5  # second bucket: s.d. of the per-batch maximum log-weight
KEY_F13 = f"populate:per-batch-max:accepted-per-batch<{K_BATCH}"
KEY_F13_SPREAD = f"populate:per-batch-max:log-max-spread>{SPREAD}"
KEY_ACC_SPREAD = f"populate:accumulated-max:log-max-spread>{SPREAD}"

RULE_B = (
    "(B) distribution cells: proposal configurations drawn by Hypothesis "
    "inside 25 strata (FlowProposal / AugmentedFlowProposal: latent prior "
    "truncated_gaussian / gaussian / uniform_nsphere / uniform_nball / "
    "flow, constant volume mode + volume fraction, or radius from a moving "
    "worst point / all training points / fixed radius with fuzz or "
    "expansion fraction, min/max radius, accumulate_weights, "
    "truncate_log_q, reparameterisation zscore / rescaletobounds / logit / "
    "mixed, poolsize 50-5000, drawsize 200-20000, RealNVP / NSF / MAF "
    "trained 5-20 epochs on a Gaussian blob (central, at the edge of the "
    "box, wide) or on prior samples, or fresh, uniform (gauss_uniform) and "
    "truncated-normal (gauss_gauss) priors, log_prior with and without its "
    "own bounds mask, 1-2 augment dimensions; RejectionProposal / "
    "AnalyticProposal with poolsize 100-5000) plus 7 fixed cells (minimal "
    "reproductions of the empirical-maximum finding and their controls); "
    "all seeds drawn by Hypothesis; "
    f"each cell: {N_POINTS} pool points vs {N_POINTS} brute-force "
    "prior-in-contour points; evaluations = pool points examined. "
    "Non-trivial cell: trained flow and population acceptance < 1; "
    "distinct by hash of the cell."
)
ASSUMPTIONS_B = [
    f"resolution of the statistical decision: {N_POINTS} pool points "
    f"against {N_POINTS} reference points in both tiers, violation iff "
    f"p < {P_THRESHOLD:g}/{TEST_BUDGET} (Bonferroni over at most "
    f"{TEST_BUDGET} tests per run, asserted in health); a Kolmogorov "
    "distance below about 0.048 or a chi-square non-centrality below about "
    "145 (140 bins) passes",
    f"chi-square binning rule: {GRID_K} x {GRID_K} grid whose edges are the "
    "pooled (pool + reference) marginal quantiles of each dimension, cells "
    f"with fewer than {MIN_BIN} pooled points merged into one rest bin (the "
    "rest bin joins the smallest other bin if it is itself that sparse); "
    "the bins depend on the two samples only through their union; "
    "uninformed proposals: 10 x 10 grid of analytic prior deciles (expected "
    "count 120), one-sample tests against the closed-form prior CDF",
    "contour membership of a reference point is decided with the proposal's "
    "own forward pass (its consistency with the backward pass is C08); the "
    "float32 round-trip error (1e-6) moves a fraction of about 1e-6 of the "
    "points across the contour edge, far below the resolution; r, fuzz and "
    "the log-q threshold are the values the population itself used (read "
    "back / recorded passively), one contour per distinct value",
    f"pool points mapped back: relative slack {SLACK:g} on the latent "
    "radius and on the log-q threshold (float32), and a violation only if "
    f"more than a fraction {MAX_OUTSIDE:g} of the pool lies outside",
    "AugmentedFlowProposal: the reference draws the augment parameters from "
    "their N(0,1) prior with the harness generator and only the model "
    "parameters are compared (marginal over the augment dimensions); "
    "marginalise_augment=True is not generated (Monte-Carlo weights, the "
    "target marginal is not the prior-in-contour marginal by construction)",
    "latent priors 'gaussian' and 'flow' have no contour: the reference is "
    "the prior on the model bounds (restricted by the log-q threshold when "
    "truncate_log_q is set)",
    "lax-prior cells: the model's log_prior does not mask the bounds (the "
    "documentation asks users to enforce them there; the proposal also "
    "drops out-of-bounds draws itself and these cells observe that "
    "mechanism); the reference is the prior density restricted to the "
    "model bounds",
    f"a cell that would need more than {MAX_LATENT_DRAWS} latent draws "
    f"({MAX_LATENT_DRAWS_ACC} with accumulate_weights, whose population "
    "loop re-concatenates all draws every batch; such cells use drawsize "
    f">= 2000 for the same reason) or {MAX_REF_DRAWS} reference candidates "
    "is abandoned and counted inconclusive (at most 15% of the cells, "
    "health)",
    "attribution of a failing cell to the empirical-maximum finding uses "
    f"only quantities measured in that cell (accepted draws per batch < "
    f"{K_BATCH}; s.d. of the per-batch / per-population maximum log-weight "
    f"> {SPREAD} among batches / populations sharing a contour); every "
    "other failing cell is a new violation",
]


# ------------------------------------------------------------------ helpers
class _Inconclusive(Exception):
    pass


def _quiet():
    import warnings

    logging.getLogger("nessai").setLevel(logging.CRITICAL)
    logging.getLogger("glasflow").setLevel(logging.CRITICAL)
    warnings.filterwarnings("ignore")


def _reset_globals(seed):
    import torch
    from nessai import config
    from nessai.livepoint import reset_extra_live_points_parameters

    reset_extra_live_points_parameters()
    config.general.eps = 1e-8
    torch.set_default_dtype(torch.float32)
    torch.set_num_threads(1)
    torch.manual_seed(int(seed))
    np.random.seed(int(seed) % (2**32))


def _nessai(name, case, fn, *a, **kw):
    try:
        return fn(*a, **kw)
    except (Violation, _Inconclusive, HarnessError):
        raise
    except Exception as e:  # noqa: BLE001 - conversion is the point
        raise Violation(
            f"exception:{type(e).__name__}@{name}",
            f"{name} raised {type(e).__name__}: {str(e)[:300]}",
            case,
        )


# ------------------------------------------------ priors: exact references
class _Prior:
    """Exact sampler and per-dimension CDF of the model's prior, written
    independently of the model class."""

    def __init__(self, spec):
        from scipy.special import ndtr

        self.spec = dict(spec)
        d = int(spec.get("dims", 2))
        self.d = d
        if spec["name"] == "gauss_uniform":
            self.lo = np.broadcast_to(
                np.asarray(spec.get("lo", -5.0), float), (d,)).copy()
            self.hi = np.broadcast_to(
                np.asarray(spec.get("hi", 5.0), float), (d,)).copy()
            self.kind = "uniform"
        elif spec["name"] == "gauss_gauss":
            b = float(spec.get("b", 6.0))
            self.s = float(spec.get("s_p", 2.0))
            self.lo = np.full(d, -b)
            self.hi = np.full(d, b)
            self.pa = float(ndtr(-b / self.s))
            self.pb = float(ndtr(b / self.s))
            self.kind = "truncnorm"
        else:  # pragma: no cover
            raise ValueError(spec["name"])

    def sample(self, n, rs):
        from scipy.special import ndtri

        u = rs.random_sample((n, self.d))
        if self.kind == "uniform":
            return self.lo + (self.hi - self.lo) * u
        x = self.s * ndtri(self.pa + u * (self.pb - self.pa))
        return np.clip(x, self.lo, self.hi)

    def cdf(self, x, i):
        from scipy.special import ndtr

        if self.kind == "uniform":
            return np.clip((x - self.lo[i]) / (self.hi[i] - self.lo[i]), 0, 1)
        return np.clip(
            (ndtr(x / self.s) - self.pa) / (self.pb - self.pa), 0, 1)

    def ppf(self, q, i):
        from scipy.special import ndtri

        q = np.asarray(q, float)
        if self.kind == "uniform":
            return self.lo[i] + (self.hi[i] - self.lo[i]) * q
        return self.s * ndtri(self.pa + q * (self.pb - self.pa))


def _make_model(spec):
    """The analytic test model; with "lax_prior" its log_prior does not mask
    the bounds (the proposal's own bounds check is then the only thing that
    keeps a pool inside the prior)."""
    from .models import make_model

    spec = dict(spec)
    lax = bool(spec.pop("lax_prior", False))
    model = make_model(spec)
    if not lax:
        return model
    base = type(model)

    class Lax(base):
        def in_bounds(self, x):
            if getattr(self, "_lax_eval", False):
                return np.ones(np.shape(x), dtype=bool)
            return base.in_bounds(self, x)

        def log_prior(self, x):
            self._lax_eval = True
            try:
                return base.log_prior(self, x)
            finally:
                self._lax_eval = False

    model.__class__ = Lax
    return model


# --------------------------------------------------------------- statistics
def chi2_two_sample(a, b, k=GRID_K, min_count=MIN_BIN):
    """Binned two-sample chi-square (homogeneity) test in two dimensions.
    Returns (statistic, dof, p, n_bins)."""
    from scipy.stats import chi2

    a = np.asarray(a, float)
    b = np.asarray(b, float)
    both = np.concatenate([a, b])
    qs = np.linspace(0, 1, k + 1)[1:-1]
    e0 = np.unique(np.quantile(both[:, 0], qs))
    e1 = np.unique(np.quantile(both[:, 1], qs))
    n1 = len(e1) + 1

    def cells(x):
        i = np.searchsorted(e0, x[:, 0], side="right")
        j = np.searchsorted(e1, x[:, 1], side="right")
        return i * n1 + j

    ncell = (len(e0) + 1) * n1
    ca = np.bincount(cells(a), minlength=ncell).astype(float)
    cb = np.bincount(cells(b), minlength=ncell).astype(float)
    tot = ca + cb
    sparse = tot < min_count
    ka, kb = list(ca[~sparse]), list(cb[~sparse])
    ra, rb = ca[sparse].sum(), cb[sparse].sum()
    if ra + rb > 0:
        if ra + rb < min_count and ka:
            m = int(np.argmin(np.asarray(ka) + np.asarray(kb)))
            ka[m] += ra
            kb[m] += rb
        else:
            ka.append(ra)
            kb.append(rb)
    ka, kb = np.asarray(ka), np.asarray(kb)
    na, nb = ka.sum(), kb.sum()
    if len(ka) < 2:
        return 0.0, 0, 1.0, len(ka)
    stat = float(np.sum(
        (math.sqrt(nb / na) * ka - math.sqrt(na / nb) * kb) ** 2 / (ka + kb)
    ))
    dof = len(ka) - 1
    return stat, dof, float(chi2.sf(stat, dof)), len(ka)


def ks_two_sample(a, b):
    from scipy.stats import ks_2samp

    r = ks_2samp(a, b, method="asymp")
    return float(r.statistic), float(r.pvalue)


def chi2_one_sample(x, prior, k=10):
    """Chi-square goodness of fit on the k x k grid of analytic prior
    quantiles (equal expected counts; the prior factorises)."""
    from scipy.stats import chi2

    qs = np.linspace(0, 1, k + 1)[1:-1]
    i = np.searchsorted(prior.ppf(qs, 0), x[:, 0], side="right")
    j = np.searchsorted(prior.ppf(qs, 1), x[:, 1], side="right")
    obs = np.bincount(i * k + j, minlength=k * k).astype(float)
    exp = len(x) / (k * k)
    stat = float(np.sum((obs - exp) ** 2 / exp))
    return stat, k * k - 1, float(chi2.sf(stat, k * k - 1)), k * k


def ks_one_sample(x, prior, i):
    from scipy.stats import kstest

    r = kstest(x, lambda v: prior.cdf(v, i), method="asymp")
    return float(r.statistic), float(r.pvalue)


# ------------------------------------------------------------ cell: set-up
def _training_points(case, prior, model):
    """Live points the flow is trained on / the reparameterisations are
    updated with: a Gaussian blob inside the prior box, or prior samples."""
    from nessai.livepoint import numpy_array_to_live_points

    rs = np.random.RandomState((case["seed"] + 1) % (2**32))
    n = int(case["n_train"])
    tr = case["train"]
    if tr["kind"] == "prior":
        x = prior.sample(n, rs)
    else:
        c = np.asarray(tr["centre"], float)
        s = np.asarray(tr["sd"], float)
        x = np.empty((0, prior.d))
        while len(x) < n:
            y = c + s * rs.standard_normal((2 * n, prior.d))
            ok = ((y > prior.lo) & (y < prior.hi)).all(axis=1)
            x = np.concatenate([x, y[ok]])
        x = x[:n]
    live = numpy_array_to_live_points(x, model.names)
    with model.quiet():
        live["logP"] = model.log_prior(live)
        live["logL"] = model._log_l(live)
    return live


def _reparams(case, names):
    r = case["reparam"]
    if r == "zscore":
        return None
    if r == "mixed":
        return {names[0]: "logit"}
    if r == "mixed-bounds":
        return {names[1]: "rescaletobounds"}
    return r  # "rescaletobounds" / "logit" applied to every parameter


def _flow_kwargs(case):
    f = case["flow"]
    cfg = {
        "ftype": f["ftype"],
        "n_blocks": int(f["n_blocks"]),
        "n_layers": int(f["n_layers"]),
        "n_neurons": int(f["n_neurons"]),
    }
    if f["ftype"] != "maf":
        if f.get("linear_transform", "default") != "default":
            cfg["linear_transform"] = f["linear_transform"]
    if "batch_norm_between_layers" in f:
        cfg["batch_norm_between_layers"] = bool(f["batch_norm_between_layers"])
    tc = {
        "max_epochs": int(f["epochs"]),
        "patience": 50,
        "batch_size": int(f.get("batch_size", 100)),
        "val_size": 0.1,
    }
    if "lr" in f:
        tc["lr"] = float(f["lr"])
    return cfg, tc


def _build_flow_proposal(case, model, out):
    from nessai.proposal import FlowProposal
    from nessai.proposal.augmented import AugmentedFlowProposal

    cfg, tc = _flow_kwargs(case)
    kw = dict(
        flow_config=cfg,
        training_config=tc,
        output=out,
        plot=False,
        poolsize=int(case["poolsize"]),
        drawsize=int(case["drawsize"]),
        latent_prior=case["latent_prior"],
        constant_volume_mode=bool(case["constant_volume_mode"]),
        volume_fraction=float(case.get("volume_fraction", 0.95)),
        fuzz=float(case.get("fuzz", 1.0)),
        expansion_fraction=case.get("expansion_fraction"),
        fixed_radius=case.get("fixed_radius") or False,
        accumulate_weights=bool(case["accumulate_weights"]),
        truncate_log_q=bool(case["truncate_log_q"]),
        reparameterisations=_reparams(case, model.names),
        fallback_reparameterisation="zscore",
    )
    for k in ("max_radius", "min_radius", "compute_radius_with_all"):
        if k in case:
            kw[k] = case[k]
    if case["proposal"] == "augmented":
        cls = AugmentedFlowProposal
        kw["augment_dims"] = int(case["augment_dims"])
        kw["generate_augment"] = case["generate_augment"]
        if "marginalise_augment" in case:  # part C (vf/c09_marg.py)
            kw["marginalise_augment"] = bool(case["marginalise_augment"])
            kw["n_marg"] = int(case["n_marg"])
    else:
        cls = FlowProposal
    fp = _nessai(cls.__name__ + ".__init__", case, cls, model, **kw)
    _nessai(cls.__name__ + ".initialise", case, fp.initialise)
    return fp


class _Recorder:
    """Passive wrappers around the proposal's latent draw and weight
    computation: number of batches, candidates per batch, spread of the
    per-batch maximum weight."""

    def __init__(self, fp, budget):
        self.fp = fp
        self.draws = 0
        self.batches = 0
        self.cand = 0
        self.weighted_batches = 0
        self.log_max = []
        self.pop_log_max = []  # per population: maximum over its batches
        self.min_log_q = None
        draw = fp.draw_latent_prior
        weights = fp.compute_weights
        forward = fp.forward_pass

        def forward_pass(x, *a, **kw):
            res = forward(x, *a, **kw)
            if x is fp.training_data:
                # populate(): threshold of the log-q truncation
                self.min_log_q = float(np.min(res[1]))
            return res

        def draw_latent_prior(n):
            z = draw(n)
            self.batches += 1
            self.draws += int(np.shape(z)[0])
            if self.draws > budget:
                raise _Inconclusive("latent-draw-budget")
            return z

        def compute_weights(x, log_q, *a, **kw):
            res = weights(x, log_q, *a, **kw)
            lw = np.asarray(res[0] if isinstance(res, tuple) else res, float)
            if lw.size:
                self.weighted_batches += 1
                self.cand += int(lw.size)
                with np.errstate(all="ignore"):
                    m = np.nanmax(lw)
                    self.log_max.append(
                        (len(self.pop_log_max) - 1, float(m)))
                    if self.pop_log_max:
                        self.pop_log_max[-1] = max(self.pop_log_max[-1],
                                                   float(m))
            return res

        fp.draw_latent_prior = draw_latent_prior
        fp.compute_weights = compute_weights
        fp.forward_pass = forward_pass


def _pooled_sd(values, labels):
    """S.d. of values around the mean of their own label (contour): batches
    / populations that share a contour are exchangeable."""
    by = {}
    for v, k in zip(values, labels):
        if math.isfinite(v):
            by.setdefault(k, []).append(v)
    ss, dof = 0.0, 0
    for vs in by.values():
        if len(vs) > 1:
            m = sum(vs) / len(vs)
            ss += sum((v - m) ** 2 for v in vs)
            dof += len(vs) - 1
    return math.sqrt(ss / dof) if dof else None


def _std_normal_logpdf(z):
    d = z.shape[1]
    return -0.5 * (z**2).sum(axis=1) - 0.5 * d * math.log(2 * math.pi)


class _Contour:
    """What one population used to restrict its draws (read back from the
    proposal after populate())."""

    def __init__(self, fp, case, rec):
        self.radial = case["latent_prior"] in (
            "truncated_gaussian", "uniform_nsphere", "uniform_nball")
        self.r = float(fp.r)
        self.fuzz = float(fp.fuzz)
        self.alt = fp.alt_dist is not None
        self.min_log_q = None
        if case["truncate_log_q"]:
            # the value populate() itself computed (recorded passively; with
            # augment parameters it is random per population)
            if rec.min_log_q is None:
                raise HarnessError("log-q threshold was not observed")
            self.min_log_q = rec.min_log_q

    def key(self):
        return (self.r, self.fuzz, self.min_log_q)


def _forward(fp, case, x, rs, aug=None):
    """Latent image and forward log-density of physical points (array).
    Augment parameters: `aug` (pool points carry theirs) or N(0,1) draws
    from the harness generator (reference points)."""
    from nessai.livepoint import (
        live_points_to_array, numpy_array_to_live_points)

    lp = numpy_array_to_live_points(x, fp.model.names)
    if case["proposal"] == "augmented":
        xp, log_j = fp.rescale(lp, generate_augment="zeros")
        for k, an in enumerate(fp.augment_parameters):
            xp[an] = rs.standard_normal(xp.size) if aug is None else aug[:, k]
        arr = live_points_to_array(xp, names=fp.prime_parameters, copy=True)
        z, lq = fp.flow.forward_and_log_prob(arr)
        return z, lq + log_j
    return fp.forward_pass(lp, rescale=True, compute_radius=False)


def _member(fp, case, contour, x, rs, count=None, aug=None, slack=0.0):
    """Contour membership.  slack > 0 (pool points): float32 allowance
    slack * max(1, .) on the radius and on the log-density."""
    z, log_q = _forward(fp, case, x, rs, aug)
    z = np.asarray(z, float)
    keep = np.isfinite(z).all(axis=1)
    rad = np.sqrt((z**2).sum(axis=1))
    if contour.radial:
        rr = contour.r * contour.fuzz
        keep &= rad <= rr + slack * max(1.0, rr)
    if contour.min_log_q is not None:
        used = np.asarray(log_q, float)
        if contour.alt:
            # the rejection step compared the density under the uniform
            # alternative latent distribution (closed forms)
            d = z.shape[1]
            rr = contour.r * contour.fuzz
            alt = np.where((np.abs(z) <= rr * (1 + slack)).all(axis=1),
                           -d * math.log(2 * rr), -np.inf)
            used = used - _std_normal_logpdf(z) + alt
        if count is not None:
            count["in_radius"] += int(keep.sum())
            count["cut_by_log_q"] += int(
                (keep & ~(used > contour.min_log_q)).sum())
        keep &= used > contour.min_log_q - slack * max(
            1.0, abs(contour.min_log_q))
    return keep


def _reference(fp, case, prior, groups, rs):
    """One brute-force prior-in-contour point per pool point."""
    out = []
    tried = 0
    kept = 0
    count = {"in_radius": 0, "cut_by_log_q": 0}
    for contour, n in groups:
        have = 0
        while have < n:
            # batch size from the acceptance seen so far (cost only)
            frac = max(kept, 1) / max(tried, 1) if tried else 0.25
            batch = int(min(50_000, max(2_000, 1.5 * (n - have) / frac)))
            x = prior.sample(batch, rs)
            keep = _member(fp, case, contour, x, rs, count)
            tried += batch
            y = x[keep][: n - have]
            kept += int(keep.sum())
            have += len(y)
            out.append(y)
            if tried > MAX_REF_DRAWS and have < n:
                raise _Inconclusive("reference-budget")
    cut = count["cut_by_log_q"] / max(count["in_radius"], 1)
    return np.concatenate(out), kept / max(tried, 1), cut


# ------------------------------------------------------------ cell: judge
def _judge(case, tests, meas):
    """tests: list of (name, statistic, p).  Raises Violation."""
    worst = min(tests, key=lambda t: t[2])
    meas["tests"] = len(tests)
    meas["min_p"] = worst[2]
    meas["p"] = {t[0]: t[2] for t in tests}
    meas["stat"] = {t[0]: t[1] for t in tests}
    thr = P_THRESHOLD / TEST_BUDGET
    if not worst[2] < thr:
        return
    detail = ", ".join(f"{n}: stat {s:.4g} p {p:.3g}" for n, s, p in tests)
    apb = meas.get("accepted_per_batch")
    per_batch = (
        case["proposal"] in ("flow", "augmented")
        and not case["accumulate_weights"]
    ) or case["proposal"] == "rejection"
    spread = meas.get("log_max_sd")
    bucket = None
    if per_batch and apb is not None and apb < K_BATCH:
        bucket = KEY_F13
    elif per_batch and spread is not None and spread > SPREAD:
        bucket = KEY_F13_SPREAD
    pop_spread = meas.get("pop_log_max_sd")
    if (case["proposal"] in ("flow", "augmented")
            and case["accumulate_weights"] and pop_spread is not None
            and pop_spread > SPREAD):
        v = Violation(
            KEY_ACC_SPREAD,
            f"pool of {N_POINTS} points differs from the prior restricted "
            f"to the contour ({detail}; threshold {thr:.3g}); "
            "accumulate_weights=True normalises the weights of a population "
            "by the largest weight drawn so far; over "
            f"{meas.get('populations')} populations that maximum has a "
            f"spread (s.d. of its log) of {pop_spread:.2f}: the weights "
            "have no attainable maximum "
            f"({meas.get('accepted_per_population', float('nan')):.0f} "
            "accepted per population)",
            case,
        )
        v.meas = meas
        raise v
    if bucket:
        if case["proposal"] == "rejection":
            bucket = "rejection." + bucket
        v = Violation(
            bucket,
            f"pool of {N_POINTS} points differs from the prior restricted "
            f"to the contour ({detail}; threshold {thr:.3g}); weights are "
            "normalised by the maximum of each batch and only "
            f"{apb:.1f} draws per batch were accepted on average "
            f"({meas.get('candidates_per_batch', float('nan')):.0f} "
            "candidates per batch, spread of the per-batch log maximum "
            f"{spread if spread is None else round(spread, 2)})",
            case,
        )
        v.meas = meas
        raise v
    v = Violation(
        "pool!=prior-in-contour:" + case["proposal"] + ":"
        + worst[0].split(":")[0],
        f"pool of {N_POINTS} points differs from the prior restricted to "
        f"the contour ({detail}; threshold {thr:.3g}; accepted per batch "
        f"{apb if apb is None else round(apb, 1)}, population acceptance "
        f"{meas.get('acceptance')})",
        case,
    )
    v.meas = meas
    raise v


def _run_flow_cell(case, out):
    model = _make_model(case["model"])
    prior = _Prior(case["model"])
    meas = {}
    fp = _build_flow_proposal(case, model, out)
    train = _training_points(case, prior, model)
    cname = type(fp).__name__
    if case["flow"]["state"] == "trained":
        _nessai(cname + ".train", case, fp.train, train, plot=False)
    else:
        # what train() does before it touches the flow
        fp.training_data = train.copy()
        _nessai(cname + ".check_state", case, fp.check_state,
                fp.training_data)
    order = np.argsort(train["logL"], kind="stable")
    # the worst point of successive populations: as in a run, it moves
    # (cycle of `worst_cycle` training points of increasing likelihood)
    worsts = [
        train[order[int(min(0.9, case["worst_rank"] + 0.1 * j)
                        * (len(order) - 1))]]
        for j in range(int(case.get("worst_cycle", 1)))
    ]
    rec = _Recorder(fp, MAX_LATENT_DRAWS_ACC if case["accumulate_weights"]
                    else MAX_LATENT_DRAWS)
    parts, groups = [], []
    pop_key = []
    total = 0
    n_outside = 0
    n_acc = 0.0
    npop = 0
    while total < N_POINTS:
        npop += 1
        if npop > MAX_POPULATIONS:
            raise _Inconclusive("population-budget")
        d0 = rec.draws
        rec.min_log_q = None
        rec.pop_log_max.append(-math.inf)
        _nessai(cname + ".populate", case, fp.populate,
                worsts[(npop - 1) % len(worsts)], N=fp.poolsize, plot=False)
        s = fp.samples
        if s is None or len(s) == 0:
            raise Violation(
                "populate:empty-pool",
                f"{cname}.populate returned an empty pool", case)
        n_acc += float(fp.population_acceptance) * (rec.draws - d0)
        x = np.stack([s[n] for n in model.names], -1).astype(float)
        x = x[: N_POINTS - total]
        c = _Contour(fp, case, rec)
        aug = None
        if case["proposal"] == "augmented":
            aug = np.stack([fp.x[n] for n in fp.augment_parameters],
                           -1).astype(float)[: len(x)]
        inside = _member(fp, case, c, x, None, aug=aug, slack=SLACK)
        n_outside += int((~inside).sum())
        pop_key.append(c.key())
        for g in groups:
            if g[0].key() == c.key():
                g[1] += len(x)
                break
        else:
            groups.append([c, len(x)])
        parts.append(x)
        total += len(x)
    pool = np.concatenate(parts)
    meas.update(
        populations=npop,
        contours=len(groups),
        r=groups[0][0].r,
        fuzz=groups[0][0].fuzz,
        latent_draws=rec.draws,
        batches=rec.batches,
        acceptance=n_acc / max(rec.draws, 1),
        accepted_per_batch=n_acc / max(rec.batches, 1),
        candidates_per_batch=rec.cand / max(rec.weighted_batches, 1),
        # spread of the per-batch maximum log-weight among batches drawn
        # from the same contour
        log_max_sd=_pooled_sd([m for _, m in rec.log_max],
                              [pop_key[i] for i, _ in rec.log_max]),
    )
    if case["accumulate_weights"]:
        meas["accepted_per_population"] = n_acc / npop
        meas["pop_log_max_sd"] = _pooled_sd(rec.pop_log_max, pop_key)
    if not np.isfinite(pool).all():
        raise Violation("pool:non-finite", "pool contains NaN/inf", case)
    meas["pool_outside_contour"] = n_outside
    if n_outside > MAX_OUTSIDE * len(pool):
        v = Violation(
            "pool:outside-contour:" + case["proposal"],
            f"{n_outside} of {len(pool)} pool points map outside the "
            "contour their population was drawn from (latent radius <= "
            "r*fuzz"
            + (", log-q above the truncation threshold"
               if case["truncate_log_q"] else "")
            + f"; relative slack {SLACK:g})", case)
        v.meas = meas
        raise v
    outside = ((pool < prior.lo) | (pool > prior.hi)).any(axis=1)
    if outside.any():
        v = Violation(
            "pool:out-of-bounds:" + case["proposal"],
            f"{int(outside.sum())} of {len(pool)} pool points lie outside "
            f"the prior bounds (first: {pool[outside][0].tolist()})", case)
        v.meas = meas
        raise v
    rs = np.random.RandomState((case["seed"] + 2) % (2**32))
    ref, frac, cut = _reference(fp, case, prior, groups, rs)
    meas["contour_prior_fraction"] = frac
    meas["log_q_cut_fraction"] = cut
    s, dof, p, nb = chi2_two_sample(pool, ref)
    tests = [("chi2-2d", s, p)]
    meas["chi2_bins"] = nb
    for i in range(pool.shape[1]):
        d, p = ks_two_sample(pool[:, i], ref[:, i])
        tests.append((f"ks:dim{i}", d, p))
    _judge(case, tests, meas)
    return meas


def _run_uninformed_cell(case):
    from nessai.proposal import AnalyticProposal, RejectionProposal

    model = _make_model(case["model"])
    prior = _Prior(case["model"])
    cls = RejectionProposal if case["proposal"] == "rejection" else (
        AnalyticProposal)
    prop = _nessai(cls.__name__ + ".__init__", case, cls, model,
                   poolsize=int(case["poolsize"]))
    _nessai(cls.__name__ + ".initialise", case, prop.initialise)
    log_max = []
    if case["proposal"] == "rejection":
        weights = prop.compute_weights

        def compute_weights(x, *a, **kw):  # passive recorder
            res = weights(x, *a, **kw)
            lw = np.asarray(res[0] if isinstance(res, tuple) else res, float)
            if lw.size and np.isfinite(lw).any():
                log_max.append(float(np.nanmax(lw)))
            return res

        prop.compute_weights = compute_weights
    parts, total, npop = [], 0, 0
    while total < N_POINTS:
        npop += 1
        if npop > 100 * MAX_POPULATIONS:
            raise _Inconclusive("population-budget")
        _nessai(cls.__name__ + ".populate", case, prop.populate)
        s = prop.samples
        x = np.stack([s[n] for n in model.names], -1).astype(float)
        x = x[: N_POINTS - total]
        parts.append(x)
        total += len(x)
    pool = np.concatenate(parts)
    meas = dict(populations=npop, batches=npop,
                accepted_per_batch=None, acceptance=1.0)
    if case["proposal"] == "rejection":
        # the last population may have been cut: count what it produced
        n_all = total - len(parts[-1]) + len(prop.samples)
        meas["accepted_per_batch"] = n_all / npop
        meas["acceptance"] = n_all / (npop * int(case["poolsize"]))
        meas["candidates_per_batch"] = float(case["poolsize"])
        meas["log_max_sd"] = float(np.std(log_max)) if log_max else 0.0
    s, dof, p, nb = chi2_one_sample(pool, prior)
    tests = [("chi2-2d", s, p)]
    meas["chi2_bins"] = nb
    for i in range(pool.shape[1]):
        d, p = ks_one_sample(pool[:, i], prior, i)
        tests.append((f"ks:dim{i}", d, p))
    _judge(case, tests, meas)
    return meas


def check_cell(case):
    """Plain predicate.  Returns measurements, raises Violation /
    _Inconclusive."""
    _quiet()
    _reset_globals(case["seed"])
    if case["proposal"] in ("rejection", "analytic"):
        return _run_uninformed_cell(case)
    out = tempfile.mkdtemp(prefix="vf-c09b-")
    try:
        return _run_flow_cell(case, out)
    finally:
        shutil.rmtree(out, ignore_errors=True)


# --------------------------------------------------------------- generator
_SEEDS = st.integers(0, 2**31 - 1)
LATENT_PRIORS = ["truncated_gaussian", "gaussian", "uniform_nsphere",
                 "uniform_nball", "flow"]
RADIAL = ("truncated_gaussian", "uniform_nsphere", "uniform_nball")
REPARAMS = ["zscore", "rescaletobounds", "logit", "mixed", "mixed-bounds"]
UNIFORM_MODELS = [
    {"name": "gauss_uniform", "dims": 2, "lo": -5.0, "hi": 5.0},
    {"name": "gauss_uniform", "dims": 2, "lo": -4.0, "hi": 6.0},
    {"name": "gauss_uniform", "dims": 2, "lo": [0.0, 10.0],
     "hi": [1.0, 20.0]},
]
NONUNIFORM_MODELS = [
    {"name": "gauss_gauss", "dims": 2},
    {"name": "gauss_gauss", "dims": 2, "b": 6.0, "s_p": 3.0},
    {"name": "gauss_gauss", "dims": 2, "b": 4.0, "s_p": 1.5},
]


@st.composite
def cells(draw, forced=None):
    """One distribution cell.  `forced` fixes some options (stratification);
    everything else is drawn here."""
    forced = dict(forced or {})

    def pick(name, strategy):
        if name in forced:
            return forced[name]
        return draw(strategy)

    proposal = pick("proposal", st.sampled_from(
        ["flow"] * 6 + ["augmented"] * 2 + ["rejection", "analytic"]))
    seed = draw(_SEEDS)
    prior_kind = pick("prior", st.sampled_from(["uniform", "nonuniform"]))
    if proposal in ("rejection", "analytic"):
        if prior_kind == "uniform":
            model = dict(draw(st.sampled_from(UNIFORM_MODELS)))
        else:
            model = dict(draw(st.sampled_from(
                NONUNIFORM_MODELS + [{"name": "gauss_gauss", "dims": 2,
                                      "s_p": 1.0}])))
            if proposal == "analytic":
                model["analytic_new_point"] = True
        return {
            "kind": "dist-cell", "proposal": proposal, "model": model,
            "poolsize": pick("poolsize", st.sampled_from(
                [100, 300, 1000, 1000, 5000])),
            "seed": seed,
        }
    model = dict(draw(st.sampled_from(
        UNIFORM_MODELS if prior_kind == "uniform" else NONUNIFORM_MODELS)))
    if pick("lax_prior", st.sampled_from([False] * 5 + [True])):
        model["lax_prior"] = True
    lp = pick("latent_prior", st.sampled_from(
        ["truncated_gaussian"] * 3 + LATENT_PRIORS))
    radial = lp in RADIAL
    case = {"kind": "dist-cell", "proposal": proposal, "model": model,
            "latent_prior": lp, "seed": seed}
    acc = bool(pick("accumulate_weights", st.booleans()))
    case["accumulate_weights"] = acc
    cvm = bool(pick("constant_volume_mode", st.booleans())) and radial
    case["constant_volume_mode"] = cvm
    case["expansion_fraction"] = None
    case["fuzz"] = 1.0
    if cvm:
        case["volume_fraction"] = draw(st.sampled_from([0.9, 0.95, 0.99]))
        # ignored in this mode (the proposal resets fuzz to one)
        case["expansion_fraction"] = draw(st.sampled_from([None, 4.0]))
    elif radial:
        size = pick("contour", st.sampled_from(
            ["tight", "tight", "moderate", "wide"]))
        if acc and size == "wide":
            size = "moderate"  # accumulated draws would exceed the budget
        kind = pick("radius_kind", st.sampled_from(
            ["fuzz", "expansion", "fixed"]))
        if size == "beyond":
            # a contour reaching beyond the training points (where the
            # log-q truncation acts)
            kind = "fixed"
            case["fixed_radius"] = draw(st.sampled_from([3.5, 4.0]))
        elif kind == "fuzz":
            case["fuzz"] = draw(st.sampled_from(
                {"tight": [1.0, 1.05], "moderate": [1.1, 1.2, 1.3],
                 "wide": [1.5, 2.0]}[size]))
        elif kind == "expansion":
            case["expansion_fraction"] = draw(st.sampled_from(
                {"tight": [0.1], "moderate": [0.3, 0.5],
                 "wide": [1.0, 4.0]}[size]))
        else:
            case["fixed_radius"] = draw(st.sampled_from(
                {"tight": [2.0, 2.5, 3.0], "moderate": [3.0, 3.5],
                 "wide": [4.0, 5.0]}[size]))
            case["fuzz"] = draw(st.sampled_from([1.0, 1.0, 1.1]))
        if size == "beyond":
            pass
        elif draw(st.integers(0, 5)) == 0:
            case["max_radius"] = draw(st.sampled_from([2.0, 3.0, 50.0]))
        if draw(st.integers(0, 7)) == 0:
            case["min_radius"] = draw(st.sampled_from([1.0, 3.0]))
        if kind != "fixed" and draw(st.integers(0, 5)) == 0:
            case["compute_radius_with_all"] = True
    else:
        # no contour: options that only shape the (unused) radius
        case["expansion_fraction"] = draw(st.sampled_from([None, 4.0]))
    case["truncate_log_q"] = bool(pick("truncate_log_q", st.sampled_from(
        [False, False, True])))
    case["reparam"] = pick("reparam", st.sampled_from(REPARAMS))
    case["poolsize"] = pick("poolsize", st.sampled_from(
        [50, 100, 200, 500, 1000, 2000, 5000]))
    case["drawsize"] = pick("drawsize", st.sampled_from(
        [2000, 1000, 5000, 10000, 20000, 2000, 500, 200]))
    if acc:
        # populate() re-concatenates the accumulated draws every batch
        # (quadratic in the number of batches): a cost, not a distribution,
        # matter - accumulating cells draw at least 2000 points at a time
        case["drawsize"] = max(2000, case["drawsize"])
    # flow
    state = pick("state", st.sampled_from(["trained", "trained", "fresh"]))
    ftype = "realnvp" if proposal == "augmented" else draw(
        st.sampled_from(["realnvp", "realnvp", "nsf", "maf"]))
    flow = {
        "state": state, "ftype": ftype,
        "n_blocks": draw(st.integers(1, 3)),
        "n_layers": draw(st.integers(1, 2)),
        "n_neurons": draw(st.sampled_from([4, 8, 16])),
        "epochs": draw(st.integers(5, 20)),
        "batch_size": draw(st.sampled_from([50, 100, 1000])),
    }
    if ftype != "maf":
        flow["linear_transform"] = draw(st.sampled_from(
            ["default", None, "permutation", "lu"]))
    if draw(st.booleans()):
        flow["batch_norm_between_layers"] = draw(st.booleans())
    if draw(st.integers(0, 2)) == 0:
        flow["lr"] = draw(st.sampled_from([1e-3, 5e-3]))
    case["flow"] = flow
    # training points
    tk = pick("train", st.sampled_from(
        ["blob", "blob", "edge", "wide", "prior"] if radial
        else ["prior", "prior", "wide", "blob"]))
    if tk == "prior":
        case["train"] = {"kind": "prior"}
    else:
        lo = np.broadcast_to(np.asarray(model.get("lo", -float(
            model.get("b", 6.0))), float), (2,))
        hi = np.broadcast_to(np.asarray(model.get("hi", float(
            model.get("b", 6.0))), float), (2,))
        cf = {"blob": [0.3, 0.4, 0.5, 0.6, 0.7], "edge": [0.08, 0.15, 0.9],
              "wide": [0.4, 0.5, 0.6]}[tk]
        sf = {"blob": [0.04, 0.06, 0.08, 0.12], "edge": [0.06, 0.1],
              "wide": [0.2, 0.3]}[tk]
        case["train"] = {
            "kind": tk,
            "centre": [float(lo[i] + draw(st.sampled_from(cf))
                             * (hi[i] - lo[i])) for i in range(2)],
            "sd": [float(draw(st.sampled_from(sf)) * (hi[i] - lo[i]))
                   for i in range(2)],
        }
    case["n_train"] = pick("n_train", st.sampled_from([100, 200, 500, 1000]))
    case["worst_rank"] = draw(st.sampled_from([0.0, 0.0, 0.25, 0.5]))
    case["worst_cycle"] = pick("worst_cycle", st.sampled_from([1, 1, 2, 3]))
    if proposal == "augmented":
        case["augment_dims"] = draw(st.sampled_from([1, 1, 2]))
        case["generate_augment"] = pick(
            "generate_augment", st.sampled_from(["gaussian", "zeros"]))
    return case


# Strata of the quick tier (one cell each; the thorough tier repeats them and
# adds unconstrained cells).  Only the listed options are fixed.
_TG, _NB, _NS = "truncated_gaussian", "uniform_nball", "uniform_nsphere"
TEMPLATES = [
    dict(proposal="flow", latent_prior=_TG, constant_volume_mode=True,
         reparam="zscore", accumulate_weights=False, prior="uniform",
         state="trained", lax_prior=False),
    dict(proposal="flow", latent_prior=_TG, constant_volume_mode=True,
         reparam="logit", accumulate_weights=False, state="trained",
         lax_prior=False),
    dict(proposal="flow", latent_prior=_TG, constant_volume_mode=True,
         reparam="mixed", accumulate_weights=True, lax_prior=False),
    dict(proposal="flow", latent_prior=_TG, constant_volume_mode=True,
         reparam="rescaletobounds", accumulate_weights=True,
         prior="nonuniform", state="trained"),
    dict(proposal="flow", latent_prior=_TG, constant_volume_mode=False,
         contour="moderate", accumulate_weights=True, reparam="zscore",
         truncate_log_q=False, radius_kind="fuzz", worst_cycle=3),
    dict(proposal="flow", latent_prior=_TG, constant_volume_mode=False,
         contour="moderate", accumulate_weights=False, drawsize=20000,
         reparam="mixed-bounds", state="trained"),
    dict(proposal="flow", latent_prior=_TG, constant_volume_mode=False,
         contour="wide", accumulate_weights=False, truncate_log_q=False),
    dict(proposal="flow", latent_prior=_TG, constant_volume_mode=True,
         lax_prior=True, train="edge", reparam="zscore", state="fresh"),
    dict(proposal="flow", latent_prior=_NB, constant_volume_mode=False,
         contour="moderate", lax_prior=True, train="edge",
         reparam="rescaletobounds", state="trained"),
    dict(proposal="flow", latent_prior=_NS, constant_volume_mode=True,
         reparam="logit", prior="nonuniform"),
    dict(proposal="flow", latent_prior=_NB, truncate_log_q=True,
         contour="moderate", state="trained"),
    dict(proposal="flow", latent_prior="gaussian", train="blob",
         truncate_log_q=True, reparam="zscore", lax_prior=False,
         n_train=100, drawsize=5000),
    dict(proposal="flow", latent_prior="gaussian", train="prior",
         reparam="logit", accumulate_weights=True, state="trained"),
    dict(proposal="flow", latent_prior="flow", train="wide",
         reparam="mixed", prior="uniform"),
    dict(proposal="flow", latent_prior="flow", train="blob",
         accumulate_weights=False, truncate_log_q=False),
    dict(proposal="flow", latent_prior=_TG, constant_volume_mode=False,
         contour="beyond", truncate_log_q=True, accumulate_weights=True,
         state="trained", n_train=100, train="blob"),
    dict(proposal="augmented", latent_prior=_TG, constant_volume_mode=True,
         reparam="zscore", state="trained", lax_prior=True, train="edge"),
    dict(proposal="augmented", latent_prior=_TG, constant_volume_mode=False,
         contour="tight", generate_augment="gaussian", reparam="logit",
         accumulate_weights=True, radius_kind="fuzz"),
    dict(proposal="augmented", latent_prior=_NB, constant_volume_mode=True,
         generate_augment="zeros", prior="nonuniform"),
    dict(proposal="augmented", latent_prior="gaussian", train="prior",
         state="trained"),
    dict(proposal="rejection", prior="nonuniform", poolsize=1000),
    dict(proposal="rejection", prior="uniform"),
    dict(proposal="rejection", prior="nonuniform"),
    dict(proposal="analytic", prior="nonuniform"),
    dict(proposal="analytic", prior="uniform"),
]

# Cells executed on every run: the minimal reproductions of the per-batch
# maximum finding (flow proposal and rejection proposal) with the controls
# that differ only in the size of the normalisation set.
_ANT_FLOW = dict(
    kind="dist-cell", proposal="flow",
    model={"name": "gauss_uniform", "dims": 2, "lo": -5.0, "hi": 5.0},
    latent_prior="truncated_gaussian", constant_volume_mode=False,
    fuzz=1.0, expansion_fraction=None, fixed_radius=4.0,
    accumulate_weights=False, truncate_log_q=False, reparam="zscore",
    poolsize=1000, drawsize=500,
    flow={"state": "fresh", "ftype": "realnvp", "n_blocks": 2,
          "n_layers": 1, "n_neurons": 8, "epochs": 5, "batch_size": 100},
    train={"kind": "blob", "centre": [0.5, -0.3], "sd": [0.8, 0.6]},
    n_train=500, worst_rank=0.0, seed=4242)
ANTICIPATED = [
    dict(_ANT_FLOW, label="F13:flow:drawsize=500"),
    dict(_ANT_FLOW, label="F13-control:flow:drawsize=50000",
         drawsize=50000),
    dict(_ANT_FLOW, label="F13-control:flow:accumulate_weights",
         accumulate_weights=True, drawsize=2000),
    dict(_ANT_FLOW, label="F13:flow:accumulate_weights:poolsize=10",
         accumulate_weights=True, drawsize=200, poolsize=10),
    dict(_ANT_FLOW, label="F13-control:flow:accumulate_weights:poolsize=300",
         accumulate_weights=True, drawsize=2000, poolsize=300),
    dict(kind="dist-cell", proposal="rejection", poolsize=20, seed=5,
         model={"name": "gauss_gauss", "dims": 2, "s_p": 1.0},
         label="F13:rejection:poolsize=20"),
    dict(kind="dist-cell", proposal="rejection", poolsize=2000, seed=5,
         model={"name": "gauss_gauss", "dims": 2, "s_p": 1.0},
         label="F13-control:rejection:poolsize=2000"),
]


def classify(case, meas=None):
    p = case["proposal"]
    cl = ["proposal:" + p,
          "prior:" + ("uniform" if case["model"]["name"] == "gauss_uniform"
                      else "nonuniform")]
    if p in ("flow", "augmented"):
        cl += [
            "latent:" + case["latent_prior"],
            "cvm:%s" % bool(case["constant_volume_mode"]),
            "accumulate:%s" % bool(case["accumulate_weights"]),
            "truncate_log_q:%s" % bool(case["truncate_log_q"]),
            "reparam:" + case["reparam"],
            "flow:" + case["flow"]["state"],
            "ftype:" + case["flow"]["ftype"],
            "train:" + case["train"]["kind"],
        ]
        if case["model"].get("lax_prior"):
            cl.append("lax-prior")
        if case.get("fixed_radius"):
            cl.append("fixed_radius")
        if not case["constant_volume_mode"] and (
                case.get("fuzz", 1.0) != 1.0
                or case.get("expansion_fraction")):
            cl.append("fuzz>1")
    if meas:
        acc = meas.get("acceptance")
        if acc is not None and acc < 1:
            cl.append("acceptance<1")
        apb = meas.get("accepted_per_batch")
        if apb is not None:
            cl.append("accepted-per-batch<%d" % K_BATCH if apb < K_BATCH
                      else "accepted-per-batch>=%d" % K_BATCH)
        if meas.get("log_q_cut_fraction", 0) >= 0.01:
            cl.append("truncation-active")
        if meas.get("contours", 1) > 1:
            cl.append("contour-varies-per-population")
        if 0 < meas.get("contour_prior_fraction", 0) < 1 and p in (
                "flow", "augmented") and case["latent_prior"] in RADIAL:
            cl.append("contour-inside-prior")
    return ["dist:" + c for c in cl]


def _nontrivial(case, meas):
    return bool(
        case["proposal"] in ("flow", "augmented")
        and case["flow"]["state"] == "trained"
        and meas and meas.get("acceptance", 1) < 1
    )


def _brief(case, meas=None):
    d = {k: v for k, v in case.items()}
    if meas:
        d["measured"] = {
            k: meas[k] for k in (
                "r", "fuzz", "acceptance", "accepted_per_batch",
                "contour_prior_fraction", "min_p", "populations")
            if k in meas
        }
    return d


# ------------------------------------------------------------------ shards
def shard(cases):
    """Execute cells in this (fresh) process.  Every violation is returned;
    the parent decides which are recorded findings."""
    _quiet()
    out = Outcome()
    stats = out.stats
    agg = stats.extra.setdefault("dist_measured", {})
    rows = stats.extra.setdefault("dist_cells", {})
    for case in cases:
        label = case.get("label")
        case = {k: v for k, v in case.items() if k != "label"}
        meas, status = None, "pass"
        try:
            meas = check_cell(case)
        except Violation as v:
            meas = getattr(v, "meas", None)
            status = v.key
            d = v.as_dict()
            d["anticipated"] = label
            out.add(d)
        except _Inconclusive as e:
            status = "inconclusive:" + str(e)
            stats.inconclusive += 1
            agg["inconclusive:" + str(e)] = agg.get(
                "inconclusive:" + str(e), 0) + 1
        cl = classify(case, meas)
        if label:
            cl.append("dist:anticipated")
        if status.startswith("inconclusive"):
            cl.append("dist:inconclusive")
        elif status == "pass":
            cl.append("dist:passed")
        stats.case(_brief(case, meas), nontrivial=_nontrivial(case, meas),
                   classes=cl, key=jhash(case), n=N_POINTS)
        agg["cells"] = agg.get("cells", 0) + 1
        if meas:
            agg["tests"] = agg.get("tests", 0) + int(meas.get("tests", 0))
        rows[jhash(case)] = ({
            "label": label or "", "status": status,
            "proposal": case["proposal"],
            "min_p": None if not meas else meas.get("min_p"),
            "accepted_per_batch": None if not meas else meas.get(
                "accepted_per_batch"),
        })
    return out


def plan(ctx):
    """The cells of a tier: the anticipated cells, then one (quick) or four
    (thorough) Hypothesis-drawn cells per stratum, then unconstrained
    cells (thorough).  quick: 5 + 25 = 30 cells (90 tests); thorough:
    5 + 100 + 20 = 125 cells (375 tests)."""
    from . import configs

    per, free = (1, 0) if ctx.quick else (4, 20)
    out = [dict(c) for c in ANTICIPATED]
    # Hypothesis starts every run with its simplest example (first element
    # of every choice): collect more than needed and keep the last ones
    for i, forced in enumerate(TEMPLATES):
        got = configs.collect(cells(forced), ctx.seed * 1000 + i, per + 3)
        out += got[-per:]
    if free:
        got = configs.collect(cells(), ctx.seed * 1000 + 999, free + 3)
        out += got[-free:]
    return out


def run_cells(ctx):
    cases = plan(ctx)
    # heavy cells first; 2 (quick) / 4 (thorough) cells per process
    per = 2 if ctx.quick else 4
    order = sorted(range(len(cases)), key=lambda i: (
        0 if cases[i].get("flow", {}).get("state") == "trained" else 1, i))
    chunks = [[] for _ in range(max(1, math.ceil(len(cases) / per)))]
    for j, i in enumerate(order):
        chunks[j % len(chunks)].append(cases[i])
    raw = run_shards("vf.c09_dist", "shard", [dict(cases=c) for c in chunks])
    out = Outcome(raw.stats)
    stats = out.stats
    for v in raw.violations:
        label = v.pop("anticipated", None)
        if ctx.known(v["key"]) is not None:
            stats.excluded_known[v["key"]] += 1
            stats.classes["dist:known:" + v["key"]] += 1
            if not label:
                continue  # recorded finding: counted, the search goes on
        out.violations.append(v)
    stats.extra["dist_test_budget"] = TEST_BUDGET
    stats.extra["dist_threshold"] = P_THRESHOLD / TEST_BUDGET
    stats.extra["dist_points_per_cell"] = N_POINTS
    return out


def health_cells(ctx, stats):
    """Generator-coverage problems of the distribution part."""
    bad = []
    m = stats.extra.get("dist_measured", {})
    n_cells = m.get("cells", 0)
    if m.get("tests", 0) > TEST_BUDGET:
        bad.append(f"{m.get('tests')} statistical tests exceed the "
                   f"Bonferroni budget {TEST_BUDGET}")
    k = 1 if ctx.quick else 4
    need = {
        "proposal:flow": 12 * k, "proposal:augmented": 3 * k,
        "proposal:rejection": 3 * k, "proposal:analytic": 2 * k,
        "prior:uniform": 6 * k, "prior:nonuniform": 6 * k,
        "latent:truncated_gaussian": 6 * k, "latent:gaussian": 2 * k,
        "latent:uniform_nsphere": k, "latent:uniform_nball": 2 * k,
        "latent:flow": 2 * k, "cvm:True": 5 * k, "cvm:False": 5 * k,
        "accumulate:True": 4 * k, "accumulate:False": 4 * k,
        "truncate_log_q:True": 3 * k, "truncation-active": k,
        "reparam:zscore": 2 * k, "reparam:rescaletobounds": 2 * k,
        "reparam:logit": 2 * k, "reparam:mixed": 2 * k,
        "flow:trained": 8 * k, "flow:fresh": 2 * k, "lax-prior": 2 * k,
        "fuzz>1": 3 * k, "acceptance<1": 12 * k,
        "accepted-per-batch>=%d" % K_BATCH: 8 * k,
        "contour-inside-prior": 6 * k, "passed": 15 * k,
        "anticipated": len(ANTICIPATED),
    }
    for c, lo in need.items():
        n = stats.classes.get("dist:" + c, 0)
        if n < lo:
            bad.append(f"class dist:{c} has only {n} cells (< {lo})")
    if stats.classes.get("dist:inconclusive", 0) > 0.15 * max(n_cells, 1):
        bad.append(f"{stats.classes.get('dist:inconclusive')} of {n_cells} "
                   "distribution cells inconclusive")
    # the controls of the anticipated finding must pass, the reproductions
    # must fail: otherwise the bucket boundary means nothing
    for row in stats.extra.get("dist_cells", {}).values():
        lab = row.get("label") or ""
        if lab.startswith("F13-control") and row["status"] != "pass":
            bad.append(f"control cell {lab} did not pass: {row['status']}")
    return bad


def replay_cell(ctx, case):
    case = {k: v for k, v in case.items() if k not in ("label", "extra")}
    try:
        check_cell(case)
    except Violation as v:
        return [v]
    except _Inconclusive as e:
        raise HarnessError(f"replayed cell is inconclusive: {e}")
    return []
