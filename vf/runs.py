"""Executing real sampler runs (vf.driver) in fresh processes, 16 at a time.

A *history* is a list of steps sharing one output directory (run, kill,
resume, ...).  Nothing is kept under /tmp after a check finishes.
"""
import concurrent.futures as cf
import json
import os
import shutil
import subprocess
import sys
import tempfile
import time

from .core import ROOT, jdump

NPROC = int(os.environ.get("VERIF_NPROC", "16"))


def backstop():
    """Per-process wall-clock backstop in seconds (inconclusive, never a
    violation); nominal cost of one run is 5-30 s."""
    return int(os.environ.get("VERIF_RUN_BACKSTOP", "900"))



class Workspace:
    """Temporary directory tree for the runs of one check invocation."""

    def __init__(self, tag):
        self.base = tempfile.mkdtemp(prefix=f"vf-{tag}-")
        self.n = 0

    def new(self):
        self.n += 1
        d = os.path.join(self.base, f"h{self.n:05d}")
        os.makedirs(os.path.join(d, "out"))
        os.makedirs(os.path.join(d, "h"))
        return d

    def close(self):
        shutil.rmtree(self.base, ignore_errors=True)

    def __enter__(self):
        return self

    def __exit__(self, *a):
        self.close()


def _env():
    env = dict(os.environ)
    env.setdefault("PYTHONHASHSEED", "0")
    for k in ("OMP_NUM_THREADS", "MKL_NUM_THREADS", "OPENBLAS_NUM_THREADS",
              "NUMEXPR_NUM_THREADS"):
        env[k] = "1"
    env["MPLBACKEND"] = "Agg"
    env["PYTHONDONTWRITEBYTECODE"] = "1"
    pp = [ROOT]
    if env.get("VERIF_REPO"):
        pp.insert(0, env["VERIF_REPO"])
    env["PYTHONPATH"] = os.pathsep.join(pp)
    return env


def run_step(hdir_root, step_job, step_index, timeout=None):
    """Execute one step of a history. Returns the report dict."""
    job = dict(step_job)
    job["output"] = os.path.join(hdir_root, job.pop("output_subdir", "out"))
    if job.get("copy_output_from"):
        # the run directory was moved / copied between two processes (e.g.
        # from scratch space to permanent storage) and is resumed in its new
        # place
        src = os.path.join(hdir_root, job.pop("copy_output_from"))
        if os.path.isdir(src) and not os.path.exists(job["output"]):
            shutil.copytree(src, job["output"])
    job["hdir"] = os.path.join(hdir_root, "h")
    job["step"] = step_index
    job["report"] = os.path.join(job["hdir"], f"report_{step_index}.json")
    job.setdefault("dump_after", max(5, (timeout or backstop()) - 10))
    jp = os.path.join(job["hdir"], f"job_{step_index}.json")
    with open(jp, "w") as f:
        f.write(jdump(job, sort_keys=False))
    t0 = time.time()
    log = open(os.path.join(job["hdir"], f"log_{step_index}.txt"), "w")
    try:
        p = subprocess.run(
            [sys.executable, "-m", "vf.driver", jp],
            env=dict(_env(), **{k: str(v) for k, v in
                                (job.get("env") or {}).items()}),
            stdout=log, stderr=subprocess.STDOUT,
            timeout=timeout or backstop(), cwd=ROOT,
        )
        rc = p.returncode
        timed_out = False
    except subprocess.TimeoutExpired:
        rc = None
        timed_out = True
    finally:
        log.close()
    try:
        rep = json.load(open(job["report"]))
    except Exception:
        rep = {"status": "no-report"}
    rep["returncode"] = rc
    rep["timed_out"] = timed_out
    rep["t_begin"] = t0
    rep["t_end"] = time.time()
    if rep.get("status") in ("started", "no-report"):
        # process died without writing its final report (kill, crash)
        rep["status"] = "killed" if not timed_out else "timeout"
        # recover what the monitors flushed
        side = os.path.join(job["hdir"], "monitor_flush.json")
        if os.path.exists(side):
            try:
                rep.update(json.load(open(side)))
            except Exception:
                pass
        try:
            rep["log_tail"] = open(log.name).read()[-1500:]
        except Exception:
            pass
    return rep


def run_history(ws, history, keep=False):
    """history: dict(steps=[job,...], stop_on=callable|None).

    Runs the steps one after another in one directory; returns list of
    reports.  A step may carry "sleep_before" seconds (downtime)."""
    d = ws.new()
    reports = []
    total_calls = None
    try:
        if history.get("probe"):
            # uninterrupted probe run in its own directory: gives the number
            # of likelihood calls of the (deterministic, seeded) run so that
            # kill points can be placed at generated fractions of it
            pd = ws.new()
            try:
                probe_job = {k: v for k, v in history["steps"][0].items()
                             if k not in ("kill_after", "kill_frac", "kill_event",
                                      "kill_after_mid_checkpoint")}
                prep = run_step(pd, probe_job, 0)
            finally:
                shutil.rmtree(pd, ignore_errors=True)
            total_calls = prep.get("likelihood_points")
            history["probe_report"] = prep
            if prep.get("status") != "completed" or not total_calls:
                return [dict(prep, probe=True)]
        finished = False
        for i, step in enumerate(history["steps"]):
            if finished and not step.get("final_resume"):
                continue
            if step.get("kill_frac") is not None:
                step = dict(step)
                step["kill_after"] = max(
                    1, int(step.pop("kill_frac") * total_calls))
            if step.get("sleep_before"):
                time.sleep(step["sleep_before"])
            rep = run_step(d, step, i, timeout=step.get("timeout"))
            reports.append(rep)
            if step.get("expect") == "completed" and rep["status"] != \
                    "completed":
                break
            if rep["status"] in ("timeout",):
                break
            if history.get("until_completed") and rep["status"] == \
                    "completed":
                # only steps that resume the finished run are still executed
                finished = True
        return reports
    finally:
        if not keep:
            shutil.rmtree(d, ignore_errors=True)


def run_histories(tag, histories, nproc=None, keep=False):
    """Run many histories concurrently; returns list of report lists in the
    same order."""
    nproc = nproc or NPROC
    with Workspace(tag) as ws:
        with cf.ThreadPoolExecutor(max_workers=nproc) as ex:
            futs = [ex.submit(run_history, ws, h, keep) for h in histories]
            return [f.result() for f in futs]


def single(job):
    return {"steps": [job]}
