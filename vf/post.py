"""Post-run analysers: executed in the driver after FlowSampler.run returned,
they look only at the returned objects (FlowSampler attributes, the sampler,
its result dictionary, the files it wrote)."""
import math

import numpy as np
from scipy.special import logsumexp

from .checks import c02


def _close(a, b, tol):
    if a is None or b is None:
        return False
    a = float(a)
    b = float(b)
    if a == b:
        return True
    return math.isfinite(a) and math.isfinite(b) and abs(a - b) <= tol


def _same_rows(a, b):
    a = np.asarray(a)
    b = np.asarray(b)
    return a.dtype == b.dtype and a.shape == b.shape and \
        a.tobytes() == b.tobytes()


def model_ulps(model):
    return 0 if getattr(model, "exact", True) else 4


def compare_model_values(stored, ref, ulps):
    stored = np.asarray(stored, dtype=float)
    ref = np.asarray(ref, dtype=float)
    if ulps == 0:
        bad = ~((stored == ref) | (np.isnan(stored) & np.isnan(ref)))
    else:
        with np.errstate(invalid="ignore"):
            bad = ~(
                (stored == ref)
                | (np.abs(stored - ref) <= ulps * np.spacing(np.abs(ref)))
            )
    return np.flatnonzero(bad)


# ------------------------------------------------------------------ standard
def results_standard(mon, fs, job):
    V = mon.violation
    ns = fs.ns
    model = mon.model
    d = ns.get_result_dictionary()
    nested = np.asarray(fs.nested_samples)
    N = nested.size
    nlive = ns.nlive
    it = int(ns.iteration)
    finalised = bool(ns.finalised)
    mon.count("results.checked")
    mon.data["results"] = {"N": int(N), "finalised": finalised,
                           "iteration": it}
    if finalised:
        mon.classes.add("finalised")
        if N != it + nlive:
            V("len(samples)!=iterations+nlive", f"{N} vs {it}+{nlive}")
    else:
        mon.classes.add("stopped-by-cap")
        if N != it:
            V("len(samples)!=iterations(cut-short)", f"{N} vs {it}")
    if N == 0:
        return
    logL = nested["logL"].astype(float)
    if not np.all(logL[1:] >= logL[:-1]):
        V("returned-likelihoods-not-ascending",
          f"first decrease at {int(np.argmax(logL[1:] < logL[:-1]))}")
    # faithful to the model
    ulps = 0
    with model.quiet():
        ll_ref = model.ref_log_likelihood(nested)
        lp_ref = model.ref_log_prior(nested)
    bad = compare_model_values(logL, ll_ref, ulps)
    if bad.size:
        i = int(bad[0])
        V("stored-logL!=model", f"{bad.size} rows, first {i}: "
          f"{logL[i]!r} vs {ll_ref[i]!r}")
    bad = compare_model_values(nested["logP"], lp_ref, ulps)
    if bad.size:
        i = int(bad[0])
        V("stored-logP!=model", f"{bad.size} rows, first {i}: "
          f"{nested['logP'][i]!r} vs {lp_ref[i]!r}")
    if not np.all(model.ref_in_bounds(nested)):
        V("returned-sample-out-of-bounds", "")
    # birth likelihoods
    lb = np.asarray(d["logL_birth"], dtype=float)
    if lb.shape != logL.shape:
        V("logL_birth-shape", f"{lb.shape} vs {logL.shape}")
    elif not np.all(lb < logL):
        i = int(np.argmax(~(lb < logL)))
        V("birth-likelihood-not-below-sample",
          f"row {i}: birth {lb[i]!r} sample {logL[i]!r} it={nested['it'][i]}")
    # evidence, weights and uncertainty recomputed from the samples alone
    expectation = ns.state.expectation
    if finalised:
        sched = [float(nlive)] * (N - nlive) + [
            float(nlive - i) for i in range(nlive)]
    else:
        sched = [float(nlive)] * N
    fin = logL[np.isfinite(logL)]
    if fin.size and N <= 6000:
        zt, zr, lx, lw = c02.reference(list(logL), sched, expectation)
        tol = c02.tolerance(list(logL), zt, sched, abs(lx[-1]))
        z_rep = fs.log_evidence
        z_ref = zt if finalised else zr
        if not _close(z_rep, z_ref, tol):
            V("log-evidence!=recomputed",
              f"reported {z_rep!r} recomputed {z_ref!r} tol {tol:.3g} "
              f"(finalised={finalised})")
        w_rep = np.asarray(d["log_posterior_weights"], dtype=float)
        w_ref = np.asarray(lw)
        if w_rep.shape != w_ref.shape:
            V("posterior-weights-shape", f"{w_rep.shape} vs {w_ref.shape}")
        else:
            ok, why = c02._close_arr(w_rep, w_ref, tol)
            if not ok:
                V("posterior-weights!=recomputed", why)
        # information / uncertainty
        import mpmath as mp

        mp.mp.dps = 50
        lmax = float(fin.max())
        logX = [mp.mpf(v) for v in lx]
        S = mp.mpf(0)
        Z = mp.mpf(0)
        quirk = mp.mpf(0)
        first = True
        for i in range(N):
            if not math.isfinite(logL[i]):
                continue
            w = mp.exp(mp.mpf(float(logL[i])) - lmax) * (
                mp.exp(logX[i]) - mp.exp(logX[i + 1]))
            if first:
                # the recurrence starts from info=0 at the first finite
                # point, which stands for log(w_1) rather than log(L_1)
                quirk = w * (mp.log(w) + lmax - mp.mpf(float(logL[i])))
                first = False
            S += w * mp.mpf(float(logL[i]))
            Z += w
        H_std = float(S / Z - (mp.log(Z) + lmax))
        H_quirk = float((S + quirk) / Z - (mp.log(Z) + lmax))
        err_rep = fs.log_evidence_error
        cands = [H_std, H_quirk]
        tol_h = 1e-8 * max(1.0, abs(H_std)) + N * 4e-16 * max(
            1.0, abs(H_std) + abs(zr))
        info = float(ns.state.info[-1])
        if not any(abs(info - c) <= tol_h for c in cands):
            V("information!=recomputed",
              f"reported H={info!r} recomputed {H_std!r} (tol {tol_h:.3g})")
        with np.errstate(invalid="ignore"):
            e_ref = [math.sqrt(c / nlive) if c >= 0 else math.nan
                     for c in cands]
        ok = False
        for e in e_ref:
            if (math.isnan(e) and math.isnan(err_rep)) or (
                    not math.isnan(e) and _close(err_rep, e, 1e-7 * max(
                        1.0, e) + tol_h)):
                ok = True
        if not ok:
            V("log-evidence-error!=sqrt(H/nlive)",
              f"reported {err_rep!r} recomputed {e_ref[0]!r}")
    # mutual consistency of the three views
    if d["log_evidence"] != fs.log_evidence or \
            ns.log_evidence != fs.log_evidence:
        V("log-evidence:views-disagree",
          f"dict {d['log_evidence']!r} FlowSampler {fs.log_evidence!r} "
          f"sampler {ns.log_evidence!r}")
    e1, e2 = d["log_evidence_error"], fs.log_evidence_error
    if not (e1 == e2 or (math.isnan(e1) and math.isnan(e2))):
        V("log-evidence-error:views-disagree", f"{e1!r} vs {e2!r}")
    if not _same_rows(d["nested_samples"], nested):
        V("nested-samples:views-disagree", "result dictionary vs FlowSampler")
    if not _same_rows(np.array(ns.nested_samples), nested):
        V("nested-samples:views-disagree", "sampler vs FlowSampler")
    if d["total_likelihood_evaluations"] != model.likelihood_evaluations:
        V("likelihood-evaluations:views-disagree", "")
    if list(d["insertion_indices"]) != list(ns.insertion_indices):
        V("insertion-indices:views-disagree", "")
    # posterior samples are rows of the nested samples
    post = np.asarray(fs.posterior_samples)
    have = set(r.tobytes() for r in nested.reshape(-1, 1))
    if any(r.tobytes() not in have for r in post.reshape(-1, 1)):
        V("posterior-sample-not-a-nested-sample", "")
    mon.data["results"].update({
        "log_evidence": float(fs.log_evidence),
        "log_evidence_error": float(fs.log_evidence_error),
    })


# ------------------------------------------------------------------ INS
def results_ins(mon, fs, job):
    V = mon.violation
    ns = fs.ns
    model = mon.model
    mon.count("results.checked")
    try:
        d = ns.get_result_dictionary()
    except Exception as e:  # noqa: BLE001
        V("result-dictionary:exception:%s" % type(e).__name__, str(e)[:300])
        return
    unit = ns.final_samples_unit
    if unit is None:
        V("final-samples-missing", "final_samples_unit is None")
        return
    N = unit.size
    hist = ns.history
    n_expected = int(ns.n_initial + np.sum(hist["n_added"]))
    mon.data["results"] = {"N": int(N), "levels": int(ns.iteration)}
    if ns._final_samples is None and N != n_expected:
        V("len(samples)!=sum-of-draws", f"{N} vs {n_expected}")
    logL = unit["logL"].astype(float)
    # (comparison, not a difference: several samples may sit at -inf)
    if not np.all(logL[1:] >= logL[:-1]):
        V("returned-likelihoods-not-ascending",
          f"first decrease at {int(np.argmax(logL[1:] < logL[:-1]))}")
    lw = logL + unit["logW"]
    z_ref = float(logsumexp(lw) - math.log(N))
    tol = 64 * np.spacing(max(1.0, abs(z_ref))) + 8e-16 * N
    if not _close(fs.log_evidence, z_ref, tol):
        V("log-evidence!=recomputed",
          f"reported {fs.log_evidence!r} recomputed {z_ref!r}")
    # standard error of the mean importance weight over its mean, with every
    # term scaled by the estimate itself (independent of the magnitude of
    # the likelihood)
    ri = np.exp(lw - z_ref)
    e_ref = float(np.sqrt(np.sum((ri - 1.0) ** 2) / (N * (N - 1.0))))
    if not _close(fs.log_evidence_error, e_ref, 1e-9 * max(1.0, e_ref)):
        V("log-evidence-error!=recomputed",
          f"reported {fs.log_evidence_error!r} recomputed {e_ref!r}")
    w_rep = np.asarray(d["log_posterior_weights"], dtype=float)
    ok, why = c02._close_arr(w_rep, lw - z_ref, tol)
    if not ok:
        V("posterior-weights!=recomputed", why)
    # faithful to the model
    phys = model.from_unit_hypercube(unit)
    with model.quiet():
        ll_ref = model.ref_log_likelihood(phys)
    bad = compare_model_values(logL, ll_ref, model_ulps(model))
    if bad.size:
        i = int(bad[0])
        V("stored-logL!=model", f"{bad.size} rows, first {i}: "
          f"{logL[i]!r} vs {ll_ref[i]!r}")
    xs = model.unstructured_view(unit)
    if np.any(xs < 0) or np.any(xs > 1):
        V("returned-sample-outside-unit-hypercube", "")
    # views
    if d["log_evidence"] != fs.log_evidence:
        V("log-evidence:views-disagree",
          f"dict {d['log_evidence']!r} FlowSampler {fs.log_evidence!r}")
    if d["log_evidence_error"] != fs.log_evidence_error:
        V("log-evidence-error:views-disagree", "")
    if not _same_rows(d["samples"], model.from_unit_hypercube(unit)):
        V("samples:views-disagree", "result dictionary vs sampler")
    if not _same_rows(np.asarray(fs.nested_samples),
                      model.from_unit_hypercube(ns.samples_unit)):
        V("samples:views-disagree", "FlowSampler vs sampler")
    post = np.asarray(fs.posterior_samples)
    src = fs.ns.final_samples
    have = set(r.tobytes() for r in np.asarray(src).reshape(-1, 1))
    if any(r.tobytes() not in have for r in post.reshape(-1, 1)):
        V("posterior-sample-not-a-returned-sample", "")
    mon.data["results"].update({
        "log_evidence": float(fs.log_evidence),
        "log_evidence_error": float(fs.log_evidence_error),
    })


def read_public_properties(obj):
    """Read every public property / plain attribute of an object (results
    are discarded).  Reading must not change anything."""
    n = 0
    for name in dir(type(obj)):
        if name.startswith("_"):
            continue
        attr = getattr(type(obj), name, None)
        if isinstance(attr, property):
            try:
                getattr(obj, name)
                n += 1
            except Exception:  # noqa: BLE001 - reading is best effort
                pass
    return n


def results(mon, fs, job):
    """Two passes: the second one after every public read-only property of
    the sampler, its integral state and the FlowSampler has been read - a
    result must not depend on which accessors were used before."""
    fn = results_ins if job.get("ins") else results_standard
    fn(mon, fs, job)
    n = read_public_properties(fs.ns) + read_public_properties(fs)
    state = getattr(fs.ns, "state", None)
    if state is not None:
        n += read_public_properties(state)
    for nm in ("training_samples", "iid_samples"):
        st_ = getattr(fs.ns, nm, None)
        if st_ is not None and getattr(st_, "state", None) is not None:
            n += read_public_properties(st_.state)
    mon.count("results.properties_read", n)
    before = len(mon.violations)
    mon.key_suffix = getattr(mon, "key_suffix", "")
    old = mon.key_suffix
    mon.key_suffix = old + ":after-reading-properties"
    try:
        fn(mon, fs, job)
    finally:
        mon.key_suffix = old
