"""C09 part C - AugmentedFlowProposal(marginalise_augment=True): the density
each candidate is weighted with belongs to that candidate.

With marginalise_augment the rejection weight of a candidate uses a
Monte-Carlo estimate of the flow density marginalised over the augment
parameters (n_marg draws per candidate).  The pool is "the prior restricted
to the contour" only if the estimate stored for candidate i is an estimate
for candidate i.  (The distribution cells of part B cannot take this mode:
the Monte-Carlo weights make the exact target differ from the prior by an
amount that depends on n_marg, so there is no exact reference to compare
with.)

Case      : generated proposal (model box, augment_dims 1-2, n_marg 2-40,
            flow type / size, 5-15 training epochs on a Gaussian blob),
            K latent probe points of generated radii, a mixed batch made of
            the probes and generated fillers in a generated order.
Relation  : (metamorphic, distribution-free)  for each probe j
              A_j = backward_pass([z_j] * B)      B estimates, every row is
                                                  the same candidate
              M_j = backward_pass(mixed batch)[j] one estimate
            With a correct implementation M_j and the B entries of A_j are
            exchangeable (independent draws of the same estimator), hence
            P(M_j outside [min A_j, max A_j]) = 2 / (B + 1) exactly, and the
            probes are independent.
Decision  : violation iff every one of the K probes falls outside the range
            of its own replicates (by more than a float32 tolerance):
            probability <= (2/(B+1))^K = 1e-13.8 for B = 199, K = 6 on a
            correct implementation, whatever the estimator's distribution.
"""
import math
import shutil
import tempfile

import numpy as np
from hypothesis import strategies as st

from .core import Outcome, Violation, jhash
from .par import run_shards
from . import c09_dist as D

B = 199
K = 6
TOL = 1e-4

RULE_C = (
    "(C) marginalised-augment cells: AugmentedFlowProposal("
    "marginalise_augment=True) with generated n_marg 2-40, augment_dims "
    f"1-2, flow and training; {K} latent probes per cell, each estimated "
    f"{B} times in a batch of identical rows and once inside a mixed batch; "
    "evaluations = probe estimates compared. Non-trivial cell: the "
    "replicate ranges of at least two probes are disjoint (the density "
    "really differs between the candidates of the mixed batch)."
)
ASSUMPTIONS_C = [
    f"exact rank bound: violation iff all {K} probes lie outside the range "
    f"of their {B} replicates, probability <= (2/{B + 1})^{K} on a correct "
    "implementation; a defect that moves fewer than all probes outside is "
    "not reported",
    f"tolerance {TOL:g} (+1e-5 relative) added to the replicate range for "
    "float32 differences between batch compositions (only shrinks the "
    "rejection region)",
    "backward_pass is called with rescale=False so that every latent row "
    "keeps its output row; a cell in which a row is dropped (non-finite "
    "density) is counted inconclusive",
]


@st.composite
def cells(draw):
    lo = draw(st.sampled_from([-5.0, -4.0, 0.0]))
    case = {
        "kind": "marg-cell",
        "proposal": "augmented",
        "model": {"name": "gauss_uniform", "dims": draw(st.integers(2, 3)),
                  "lo": lo, "hi": lo + 10.0},
        "latent_prior": "truncated_gaussian",
        "constant_volume_mode": False,
        "fixed_radius": 6.0,
        "accumulate_weights": False,
        "truncate_log_q": False,
        "reparam": draw(st.sampled_from(["zscore", "rescaletobounds"])),
        "poolsize": 100, "drawsize": 100,
        "augment_dims": draw(st.integers(1, 2)),
        "generate_augment": "gaussian",
        "marginalise_augment": True,
        "n_marg": draw(st.sampled_from([2, 3, 5, 10, 20, 40])),
        "flow": {"state": "trained",
                 # the augment mask is only accepted by RealNVP
                 "ftype": "realnvp",
                 "linear_transform": draw(st.sampled_from(
                     ["default", "permutation", "lu"])),
                 "n_blocks": draw(st.integers(2, 3)), "n_layers": 1,
                 "n_neurons": draw(st.sampled_from([8, 16])),
                 "epochs": draw(st.integers(5, 15)), "batch_size": 100},
        "n_train": 500,
        "seed": draw(st.integers(0, 2**31 - 1)),
    }
    d = case["model"]["dims"]
    c = lo + 5.0
    case["train"] = {"kind": "blob",
                     "centre": [c + draw(st.sampled_from([-1.0, 0.0, 1.5]))
                                for _ in range(d)],
                     "sd": [draw(st.sampled_from([0.5, 0.8, 1.2]))
                            for _ in range(d)]}
    # probes at very different latent radii: their densities differ by nats
    case["probe_radii"] = [0.0, 0.7, 1.5, 2.3, 3.0, 3.8]
    case["n_fill"] = draw(st.integers(1, 60))
    case["order_seed"] = draw(st.integers(0, 2**31 - 1))
    return case


def check_cell(case):
    D._quiet()
    D._reset_globals(case["seed"])
    out = tempfile.mkdtemp(prefix="vf-c09m-")
    try:
        return _check(case, out)
    except D._Inconclusive as e:
        return {"inconclusive": str(e)}
    finally:
        shutil.rmtree(out, ignore_errors=True)


def _check(case, out):
    model = D._make_model(case["model"])
    prior = D._Prior(case["model"])
    fp = D._build_flow_proposal(case, model, out)
    if not (fp.marginalise_augment and fp.n_marg == case["n_marg"]):
        raise RuntimeError("proposal was not built as requested")
    train = D._training_points(case, prior, model)
    D._nessai("AugmentedFlowProposal.train", case, fp.train, train,
              plot=False)
    dz = int(fp.rescaled_dims)
    rs = np.random.RandomState(case["order_seed"] % (2**32))
    probes = []
    for r in case["probe_radii"]:
        u = rs.standard_normal(dz)
        u /= np.linalg.norm(u)
        probes.append((r * u).astype(np.float32))
    fill = rs.standard_normal((case["n_fill"], dz)).astype(np.float32) * \
        rs.uniform(0.2, 3.0, size=(case["n_fill"], 1)).astype(np.float32)
    mixed = np.concatenate([np.stack(probes), fill])
    perm = rs.permutation(len(mixed))
    mixed = mixed[perm]
    pos = {int(j): int(np.where(perm == j)[0][0]) for j in range(K)}

    def density(z, what):
        x, lq = D._nessai("AugmentedFlowProposal.backward_pass", case,
                          fp.backward_pass, z, rescale=False)
        if len(lq) != len(z):
            raise D._Inconclusive(f"rows-dropped:{what}")
        return np.asarray(lq, float)

    m = density(mixed, "mixed")
    outside = []
    ranges = []
    for j, z in enumerate(probes):
        a = density(np.tile(z, (B, 1)), "replicates")
        lo_, hi_ = float(a.min()), float(a.max())
        tol = TOL + 1e-5 * max(abs(lo_), abs(hi_))
        v = float(m[pos[j]])
        outside.append(bool(v < lo_ - tol or v > hi_ + tol))
        ranges.append((lo_, hi_, v))
    disjoint = sum(
        1 for i in range(K) for j in range(i + 1, K)
        if ranges[i][1] < ranges[j][0] or ranges[j][1] < ranges[i][0])
    res = {"outside": outside, "ranges": ranges, "disjoint_pairs": disjoint}
    if all(outside):
        res["violation"] = {
            "key": "marginalised-log_q-not-of-its-own-candidate",
            "msg": "every probe's density in a mixed batch lies outside the "
                   f"range of {B} estimates of the same candidate: "
                   + "; ".join(f"[{a:.3f},{b:.3f}] vs {v:.3f}"
                               for a, b, v in ranges[:4]),
        }
    return res


def shard(cases):
    out = Outcome()
    for c in cases:
        try:
            r = check_cell(c)
        except Violation as v:
            r = {"violation": {"key": v.key, "msg": v.msg}}
        _fold(out, c, r)
    return out


def _fold(out, case, res):
    st_ = out.stats
    classes = [f"n_marg:{case['n_marg']}", f"aug:{case['augment_dims']}",
               "ftype:" + case["flow"]["ftype"]]
    if "inconclusive" in res:
        classes.append("inconclusive:" + res["inconclusive"])
        st_.inconclusive += 1
        st_.case({"n_marg": case["n_marg"]}, nontrivial=False,
                 classes=classes, key=jhash(case), n=0)
        return
    if res.get("violation"):
        out.add(Violation(res["violation"]["key"], res["violation"]["msg"],
                          case))
    nt = res.get("disjoint_pairs", 0) >= 1
    classes.append("marg:densities-differ" if nt else "marg:flat")
    classes.append("marg:probes-outside:%d" % sum(res.get("outside", [])))
    st_.case({"n_marg": case["n_marg"], "aug": case["augment_dims"],
              "n_fill": case["n_fill"], "probes_outside":
                  int(sum(res.get("outside", []))),
              "ranges": [[round(a, 3), round(b, 3), round(v, 3)]
                         for a, b, v in res.get("ranges", [])[:3]]},
             nontrivial=nt, classes=classes, key=jhash(case), n=K)


def run_cells(ctx, n=None):
    from .configs import collect

    n = n or (16 if ctx.quick else 400)
    cs = collect(cells(), ctx.seed * 31 + 7, n)
    per = max(1, math.ceil(len(cs) / 16))
    chunks = [cs[i:i + per] for i in range(0, len(cs), per)]
    return run_shards("vf.c09_marg", "shard", [{"cases": c} for c in chunks])


def replay_cell(ctx, case):
    return shard([case]).violations
