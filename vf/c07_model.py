"""C07: what the documentation says about each built-in reparameterisation -
name tables, singular sets, folds, conditioning and the geometry needed to
place finite-difference stencils.  Nothing here calls nessai.
"""
import copy
import math

import numpy as np

from .c07_fd import CUT, SING, ray_rooms

TWO_PI = 2.0 * math.pi
EPS = np.finfo(float).eps

GENERAL_NAMES = [
    "default", "rescaletobounds", "rescale-to-bounds", "offset", "inversion",
    "inversion-duplicate", "logit", "log-rescale", "scale", "scaleandshift",
    "rescale", "zscore", "z-score", "angle", "angle-pi", "angle-2pi",
    "angle-sine", "angle-cosine", "angle-pair", "periodic", "to-cartesian",
    "none", "null", None,
]
GW_NAMES = [
    "distance", "time", "sky-ra-dec", "sky-az-zen", "mass_ratio", "mass",
    "delta_phase", "delta-phase",
]
ALL_NAMES = GENERAL_NAMES + GW_NAMES

FAMILY = {
    "default": "rtb", "rescaletobounds": "rtb", "rescale-to-bounds": "rtb",
    "offset": "rtb", "inversion": "rtb", "inversion-duplicate": "rtb",
    "logit": "rtb", "log-rescale": "rtb", "angle-sine": "rtb",
    "angle-cosine": "rtb", "time": "rtb", "mass_ratio": "rtb", "mass": "rtb",
    "scale": "sas", "scaleandshift": "sas", "rescale": "sas",
    "zscore": "sas", "z-score": "sas",
    "angle": "angle", "angle-pi": "angle", "angle-2pi": "angle",
    "periodic": "angle",
    "to-cartesian": "tocart",
    "angle-pair": "pair", "sky-ra-dec": "pair", "sky-az-zen": "pair",
    "none": "null", "null": "null", None: "null",
    "distance": "dist",
    "delta_phase": "dphase", "delta-phase": "dphase",
}


# ------------------------------------------------- custom pre-rescaling pair
def _cube(x):
    x = np.asarray(x, dtype=float)
    return x * x * x, np.log(3.0 * x * x)


def _cbrt(u):
    u = np.asarray(u, dtype=float)
    c = np.cbrt(u)
    return c, -np.log(3.0 * c * c)


CUSTOM = {"@cube": (_cube, _cbrt)}


def decode_kwargs(kw):
    out = {}
    for k, v in kw.items():
        if isinstance(v, str) and v.startswith("@"):
            out[k] = CUSTOM[v]
        else:
            out[k] = copy.deepcopy(v)
    return out


def ulp(v):
    return float(np.spacing(max(abs(float(v)), np.finfo(float).tiny)))


class ObjModel:
    """Documented geometry of one reparameterisation instance."""

    def __init__(self, name, parameters, bounds, roles, ekw):
        self.name = name
        self.fam = FAMILY[name]
        self.params = list(parameters)
        self.bounds = {p: (float(b[0]), float(b[1])) for p, b in bounds.items()}
        self.roles = dict(roles)
        self.ekw = ekw
        f = self.fam
        self.post = None
        self.pre = None
        self.inv_params = {}
        self.allowed = ["lower", "upper"]
        if f in ("rtb", "dist"):
            post = ekw.get("post_rescaling")
            self.post = post if isinstance(post, str) else None
            pre = ekw.get("pre_rescaling")
            if f == "dist":
                self.pre = "power" if ekw.get("prior") == "power-law" else None
                self.allowed = list(ekw.get("allowed_bounds", ["upper"]))
            else:
                self.pre = "cube" if isinstance(pre, tuple) else pre
                dk = ekw.get("detect_edges_kwargs") or {}
                self.allowed = list(dk.get("allowed_bounds", ["lower", "upper"]))
            bi = ekw.get("boundary_inversion")
            t = ekw.get("inversion_type", "split")
            if bi is True:
                self.inv_params = {p: t for p in self.params}
            elif isinstance(bi, list):
                self.inv_params = {p: t for p in bi}
            elif isinstance(bi, dict):
                self.inv_params = dict(bi)
        if f in ("angle", "tocart"):
            self.angle = [p for p in self.params if self.roles[p] == "angle"][0]
            lo, hi = self.bounds[self.angle]
            if f == "tocart":
                self.scale = ekw.get("scale", math.pi)
            else:
                s = ekw.get("scale", 1.0)
                self.scale = TWO_PI / (hi - lo) if s is None else float(s)
            self.full = (
                f == "angle" and abs(self.scale * (hi - lo) - TWO_PI) < 1e-12
            )
        if f == "pair":
            self.az = [p for p in self.params if self.roles[p] == "az"][0]
            self.pol = [p for p in self.params if self.roles[p] == "pol"][0]
            self.convention = (
                "az-zen" if self.bounds[self.pol][0] == 0.0 else "ra-dec"
            )
        rad = [p for p in self.params if self.roles.get(p) == "radial"]
        self.radial = rad[0] if rad else None

    # ------------------------------------------------------------ basics
    def width(self, p):
        lo, hi = self.bounds[p]
        return hi - lo

    def rt_tol(self, p):
        lo, hi = self.bounds[p]
        return 1e-9 * (hi - lo) + 8.0 * ulp(max(abs(lo), abs(hi)))

    def period(self, p):
        """Period if the two ends of p are one identified point."""
        r = self.roles.get(p)
        if self.fam == "angle" and r == "angle" and self.full:
            return TWO_PI / self.scale
        if self.fam == "pair" and r == "az":
            return TWO_PI
        if self.fam == "dphase" and r == "phase":
            return TWO_PI
        return None

    @property
    def direction(self):
        return "inv" if self.fam in ("angle", "tocart", "pair") else "fwd"

    # ------------------------------------------------------ singular sets
    def excluded(self, X):
        n = len(next(iter(X.values())))
        ex = np.zeros(n, dtype=bool)
        for p in self.params:
            lo, hi = self.bounds[p]
            x = X[p]
            if self.post == "logit":
                ex |= (x <= lo) | (x >= hi)
            elif self.post == "log":
                ex |= x <= lo
            r = self.roles.get(p)
            if r == "radial":
                ex |= x <= 0.0
            if r == "pol":
                ex |= (x <= lo) | (x >= hi)
        return ex

    def fold_sides(self, test):
        if test in ("lower", "upper"):
            return {test} if test in self.allowed else set()
        if test is False:
            return set()
        return {"lower", "upper"}

    def fold(self, X, upd, test):
        """Points where boundary inversion folds after an update."""
        n = len(next(iter(X.values())))
        fo = np.zeros(n, dtype=bool)
        if upd is None:
            return fo
        sides = self.fold_sides(test)
        for p in self.inv_params:
            if p not in upd:
                continue
            mn, mx = upd[p]
            if "lower" in sides:
                fo |= X[p] < mn
            if "upper" in sides:
                fo |= X[p] > mx
        return fo

    def kappa(self, X):
        """Condition number of the reported log-Jacobian w.r.t. the
        representation error of the point (1/relative distance to the
        singular set of a logarithm)."""
        n = len(next(iter(X.values())))
        k = np.ones(n)
        with np.errstate(all="ignore"):
            for p in self.params:
                lo, hi = self.bounds[p]
                w = hi - lo
                x = X[p]
                amp = 1.0
                if self.post in ("logit", "log") and self.pre is not None:
                    # the pre-rescaled value u(x) is only known to
                    # eps*|u|: the distance to the singular bound in u
                    # loses max|u| / range(u) further digits
                    u = self._pre_values(np.array([lo, hi]))
                    if u is not None:
                        amp = max(1.0, float(np.max(np.abs(u)))
                                  / float(abs(u[1] - u[0])))
                if self.post == "logit":
                    k = np.maximum(k, amp * w / np.minimum(x - lo, hi - x))
                elif self.post == "log":
                    k = np.maximum(k, amp * w / (x - lo))
                if self.roles.get(p) == "pol":
                    k = np.maximum(k, w / np.minimum(x - lo, hi - x))
        return np.where(np.isfinite(k), k, np.inf)

    def _pre_values(self, x):
        with np.errstate(all="ignore"):
            if self.pre == "log":
                return np.log(x)
            if self.pre == "exp":
                return np.exp(x)
            if self.pre == "cube":
                return x * x * x
            if self.pre == "power":
                ck = self.ekw.get("converter_kwargs") or {}
                return (x / float(ck.get("scale", 1000.0))) ** (
                    float(ck["power"]) + 1.0)
        return None

    def fd_usable(self, X):
        """Points where double precision can resolve a stencil: next to a
        sky pole the polar angle pi/2 - d is only known to ulp(pi/2), so the
        variation over a stencil of size d/8 is lost below d ~ 1e-7."""
        n = len(next(iter(X.values())))
        ok = np.ones(n, dtype=bool)
        if self.fam == "pair":
            lo, hi = self.bounds[self.pol]
            x = X[self.pol]
            ok &= np.minimum(x - lo, hi - x) >= 1e-7 * (hi - lo)
        return ok

    # ------------------------------------------------- forward FD geometry
    def fwd_rooms(self, X, upd, test, coords=None):
        """Rooms in x-space for the forward-direction families."""
        coords = list(coords) if coords is not None else list(self.params)
        n = len(X[coords[0]])
        d = len(coords)
        X0 = np.stack([np.asarray(X[p], dtype=float) for p in coords], axis=1)
        room = np.full((n, d, 2), np.inf)
        kind = np.full((n, d, 2), CUT)
        hpref = np.empty((n, d))
        sides = self.fold_sides(test)
        for j, p in enumerate(coords):
            lo, hi = self.bounds[p]
            a, b = lo, hi
            if upd is not None and p in self.inv_params and p in upd:
                if "lower" in sides:
                    a = max(a, upd[p][0])
                if "upper" in sides:
                    b = min(b, upd[p][1])
            x = X0[:, j]
            room[:, j, 0] = x - a
            room[:, j, 1] = b - x
            if self.post == "logit":
                kind[:, j, :] = SING
            elif self.post == "log":
                kind[:, j, 0] = SING
            w = hi - lo
            scale = np.full(n, w)
            if self.pre in ("log", "power", "cube"):
                scale = np.minimum(scale, np.abs(x))
            elif self.pre == "exp":
                scale = np.minimum(scale, 1.0)
            if self.post == "exp":
                rb = self.ekw.get("rescale_bounds") or [-1, 1]
                if isinstance(rb, dict):
                    rb = rb[p]
                scale = scale / max(1.0, float(rb[1]) - float(rb[0]))
            hpref[:, j] = scale * 2.0 ** -10
        room = np.maximum(room, 0.0)
        return coords, X0, hpref, room, kind

    # ------------------------------------------------- inverse FD geometry
    def inv_rooms(self, XP):
        """Rooms in x'-space (Cartesian coordinates) for angle families."""
        XP = np.asarray(XP, dtype=float)
        M, d = XP.shape
        px, py = XP[:, 0], XP[:, 1]
        rho = np.hypot(px, py)
        if self.fam == "tocart":
            phis = [0.0, math.pi]
        elif self.fam == "pair":
            phis = [0.0, math.pi]
        else:
            lo, hi = self.bounds[self.angle]
            phis = [0.0, math.pi, (self.scale * lo) % TWO_PI,
                    (self.scale * hi) % TWO_PI]
        rr = ray_rooms(px, py, phis)  # (M,2,2)
        room = np.full((M, d, 4), np.inf)
        kind = np.full((M, d, 4), CUT)
        room[:, :2, :2] = rr
        # the origin (2-D) / the polar axis (3-D) is singular
        room[:, :2, 2] = rho[:, None]
        room[:, :2, 3] = rho[:, None]
        kind[:, :2, 2:] = SING
        hpref = np.empty((M, d))
        hpref[:, :2] = (rho * 2.0 ** -10)[:, None]
        if d == 3:
            r3 = np.sqrt(px * px + py * py + XP[:, 2] ** 2)
            room[:, 2, 2] = r3
            room[:, 2, 3] = r3
            kind[:, 2, 2:] = SING
            hpref[:, 2] = r3 * 2.0 ** -10
        return hpref, room, kind

    # ------------------------------------------------------------- priors
    def inside_margin(self, X):
        """Points inside the prior box by a margin that dominates rounding."""
        n = len(next(iter(X.values())))
        ins = np.ones(n, dtype=bool)
        for p in self.params:
            lo, hi = self.bounds[p]
            m = 1e-12 * (hi - lo) + 16.0 * ulp(max(abs(lo), abs(hi)))
            ins &= (X[p] >= lo + m) & (X[p] <= hi - m)
        return ins

    def orig_log_prior(self, X, xout, aux_radial):
        """Original prior (up to a constant) the prime prior is documented
        to correspond to.  aux_radial: name of the auxiliary radius in xout
        or None."""
        n = len(next(iter(X.values())))
        lp = np.zeros(n)
        with np.errstate(all="ignore"):
            if self.fam == "dist" and self.pre == "power":
                power = float(self.ekw["converter_kwargs"]["power"])
                lp = lp + power * np.log(X[self.params[0]])
            if self.fam in ("angle", "tocart"):
                r = xout[aux_radial]
                lp = lp + np.log(r) - 0.5 * r * r
                if self.ekw.get("prior") == "sine":
                    lp = lp + np.log(np.sin(X[self.angle]))
            if self.fam == "pair":
                r = xout[aux_radial]
                lp = lp + 2.0 * np.log(r) - 0.5 * r * r
                if self.convention == "ra-dec":
                    lp = lp + np.log(np.cos(X[self.pol]))
                else:
                    lp = lp + np.log(np.sin(X[self.pol]))
        return lp

    def pre_log_jacobian(self, X):
        """log|du/dx| of a named/custom pre-rescaling (second reading of
        `prior="uniform"` together with a pre-rescaling: uniform in u)."""
        if self.fam != "rtb" or self.pre not in ("log", "exp", "cube"):
            return None
        n = len(next(iter(X.values())))
        lj = np.zeros(n)
        with np.errstate(all="ignore"):
            for p in self.params:
                x = X[p]
                if self.pre == "log":
                    lj = lj - np.log(x)
                elif self.pre == "exp":
                    lj = lj + x
                else:
                    lj = lj + np.log(3.0 * x * x)
        return lj
